#!/venv/bin/python
"""tools/show_seeded_summary.py <seeded id|-> <module> <function>...  -- print the summary (returns, calls, loops) of functions on /repo + a stored change."""
import os
import sys

VERIF = os.path.dirname(os.path.dirname(os.path.abspath(__file__)))
sys.path.insert(0, VERIF)
from sa.index import Index  # noqa: E402
from sa.report import Ctx  # noqa: E402
from sa.sym import show  # noqa: E402
from selftest.harness import apply_patch  # noqa: E402

name, mod = sys.argv[1], sys.argv[2]
overlay = {} if name == "-" else apply_patch("/repo", open(os.path.join(VERIF, "seeded", name, "patch.diff"), encoding="utf-8").read())
ctx = Ctx("C09", Index("/repo", overlay), "quick")
for fn in sys.argv[3:]:
    s = ctx.summ.of_func(mod, fn)
    print("==", fn, s.params)
    for r in s.returns:
        print("  RET", show(r.term)[:700], " IF ", show(r.live)[:200])
    for e in s.events:
        if e.kind != "return":
            print("   ", e.kind, show(e.term)[:200], "| loops", e.loops, "| live", show(e.live)[:100])
    print("  loops", {k: show(v.iter)[:120] for k, v in s.loops.items()})
