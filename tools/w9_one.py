#!/venv/bin/python
"""tools/w9_one.py <Cnn> <dir with patch.diff>...  -- run the check of Cnn on /repo + a patch file and print findings / undecided in full."""
import importlib, os, sys
VERIF = os.path.dirname(os.path.dirname(os.path.abspath(__file__)))
sys.path.insert(0, VERIF)
from sa.cli import run_rules
from sa.index import AnalysisError, Index
from sa.report import Ctx, load_known, match_known
from selftest.harness import apply_patch
prop = sys.argv[1]
for d in sys.argv[2:]:
    overlay = apply_patch("/repo", open(os.path.join(d, "patch.diff"), encoding="utf-8").read())
    print("==", d, "stale" if overlay is None else sorted(overlay))
    if overlay is None:
        continue
    ctx = Ctx(prop, Index("/repo", overlay), "quick")
    try:
        run_rules(importlib.import_module(f"rules.{prop.lower()}"), ctx, prop)
    except AnalysisError as e:
        print("  ANALYSIS", e.rule, e.site, e)
        continue
    known = load_known()
    for f in ctx.findings:
        if not match_known(f, known):
            print("  FINDING", f.rule, f.func, "|", f.construct[:80], "|", f.message[:400])
    for u in ctx.undecided:
        print("  UNDEC", u.rule, u.site, u.reason[:400])
    for rid, n in ctx.floors.items():
        if ctx.count(rid) < n:
            print("  VACUITY", rid, ctx.count(rid), "<", n)
