#!/usr/bin/env python3
"""Evaluate a wave of seeded changes delivered by independent agents.

  tools/wave_eval.py <wavedir> fast [prefix ...]    run all 20 checks against every <wavedir>/<Cnn>/out/<K>/patch.diff
                                                    (patched copy of /repo/src under <wavedir>/patched, --root runs); verdict table
  tools/wave_eval.py <wavedir> full [prefix ...]    confirm every change with tools/eval_seeded.py (demo both ways + unedited suite
                                                    in a scratch worktree), results in <wavedir>/results/<Cnn>_<K>.json
  tools/wave_eval.py <wavedir> collect <wave-no>    store the confirmed changes as /verif/seeded/<Cnn>-w<wave>-<K>/

Changes named D* are defects (own property's check must exit 1), N* are behaviour-preserving (all checks must exit 0).
Everything lives under <wavedir> (outside /repo and /verif); remove it when done.
"""
import glob, json, os, shutil, subprocess, sys
from concurrent.futures import ThreadPoolExecutor

VERIF = os.path.dirname(os.path.dirname(os.path.abspath(__file__)))


def entries(wd, pref):
    out = []
    for d in sorted(glob.glob(os.path.join(wd, "C*", "out", "*", "patch.diff"))):
        k = os.path.basename(os.path.dirname(d))
        p = os.path.basename(os.path.dirname(os.path.dirname(os.path.dirname(d))))
        n = f"{p}_{k}"
        if not pref or any(n.startswith(x) for x in pref):
            out.append((n, p, k, os.path.dirname(d)))
    return out


def build(wd, ents):
    for n, p, k, d in ents:
        t = os.path.join(wd, "patched", n)
        shutil.rmtree(t, ignore_errors=True)
        os.makedirs(t)
        shutil.copytree("/repo/src", os.path.join(t, "src"))
        # only the part of the patch that touches src/ (docs / tests are not copied)
        txt = open(os.path.join(d, "patch.diff")).read()
        parts = ("\n" + txt).split("\ndiff --git ")
        keep = "".join("diff --git " + p_ + "\n" for p_ in parts[1:] if p_.split("\n", 1)[0].split(" b/")[-1].startswith("src/"))
        r = subprocess.run(["patch", "-s", "-p1"], cwd=t, input=keep, capture_output=True, text=True)
        if r.returncode:
            print("PATCH FAIL", n, (r.stdout + r.stderr)[:200])


def fast(wd, pref):
    ents = entries(wd, pref)
    build(wd, ents)
    jobs = [(n, p, k, f"C{i:02d}") for n, p, k, _ in ents for i in range(1, 21)]

    def run(j):
        n, p, k, c = j
        r = subprocess.run([os.path.join(VERIF, "check"), c, "--root", os.path.join(wd, "patched", n), "--no-evidence"], cwd=VERIF,
                           capture_output=True, text=True)
        lines = [l.strip() for l in (r.stdout + r.stderr).splitlines() if l.startswith("  src/") or l.startswith("ANALYSIS-ERROR") or "Traceback" in l]
        return j, r.returncode, lines

    with ThreadPoolExecutor(16) as ex:
        res = list(ex.map(run, jobs))
    by = {}
    for (n, p, k, c), rc, lines in res:
        if rc:
            by.setdefault(n, {})[c] = {"exit": rc, "reports": [l[:300] for l in lines[:3]]}
    tot = {}
    for n, p, k, _ in ents:
        rep = by.get(n, {})
        codes = {c: v["exit"] for c, v in rep.items()}
        if k[0] == "D":
            v = "own" if codes.get(p) == 1 else ("other" if 1 in codes.values() else ("UNDEC" if 2 in codes.values() else "MISS"))
        else:
            v = "silent" if not codes else ("FALSE-ALARM" if 1 in codes.values() else "undecided")
        tot[v] = tot.get(v, 0) + 1
        print(n, v, codes)
        if v not in ("own", "silent"):
            for c, x in rep.items():
                for l in x["reports"]:
                    print("      ", c, l[:300])
    print(tot)
    json.dump(by, open(os.path.join(wd, "fast.json"), "w"), indent=1)


def full(wd, pref):
    os.makedirs(os.path.join(wd, "results"), exist_ok=True)
    ents = entries(wd, pref)

    def run(e):
        n, p, k, d = e
        r = subprocess.run([sys.executable, os.path.join(VERIF, "tools", "eval_seeded.py"), d, "--prop", p], capture_output=True, text=True)
        open(os.path.join(wd, "results", n + ".json"), "w").write(r.stdout)
        return n

    with ThreadPoolExecutor(6) as ex:
        for n in ex.map(run, ents):
            pass
    bad = 0
    for n, p, k, d in ents:
        try:
            r = json.load(open(os.path.join(wd, "results", n + ".json")))
        except Exception:
            print(n, "NO RESULT")
            bad += 1
            continue
        okd = r.get("demo_without_change") == 0 and ((r.get("demo_with_change") not in (0, None)) if k[0] == "D" else r.get("demo_with_change") == 0)
        oks = r.get("suite_at_baseline") or r.get("unexpected_failures") in ([], ["test_read_clip"])
        if not (okd and oks and r.get("patch_applies")):
            bad += 1
            print(n, "NOT CONFIRMED", r.get("demo_without_change"), r.get("demo_with_change"), r.get("pytest"), r.get("unexpected_failures"), r.get("apply_error"))
    print(len(ents) - bad, "confirmed,", bad, "not confirmed")


def collect(wd, wave):
    by = json.load(open(os.path.join(wd, "fast.json")))
    stored = 0
    for n, p, k, d in entries(wd, []):
        rf = os.path.join(wd, "results", n + ".json")
        if not os.path.exists(rf):
            continue
        r = json.load(open(rf))
        okd = r.get("demo_without_change") == 0 and ((r.get("demo_with_change") not in (0, None)) if k[0] == "D" else r.get("demo_with_change") == 0)
        oks = r.get("suite_at_baseline") or r.get("unexpected_failures") in ([], ["test_read_clip"])
        if not (okd and oks and r.get("patch_applies")):
            print("skip (not confirmed)", n)
            continue
        dst = os.path.join(VERIF, "seeded", f"{p}-w{wave}-{k}")
        os.makedirs(dst, exist_ok=True)
        for fn in ("patch.diff", "demo.py", "README.txt"):
            if os.path.exists(os.path.join(d, fn)):
                shutil.copy(os.path.join(d, fn), os.path.join(dst, fn))
        rep = by.get(n, {})
        kind = "defect" if k[0] == "D" else "neutral"
        old = {}
        if os.path.exists(os.path.join(dst, "meta.json")):
            old = json.load(open(os.path.join(dst, "meta.json")))
        meta = {"kind": kind, "property": p, "wave": int(wave),
                "origin": "independent sub-agent given only the property text and its own scratch worktree (no access to /verif)",
                "files_touched": r.get("files"),
                "what_was_run": {"demo_exit_without_change": r.get("demo_without_change"), "demo_exit_with_change": r.get("demo_with_change"),
                                 "pytest_with_change": r.get("pytest"), "suite_at_baseline": r.get("suite_at_baseline"),
                                 "command": f"tools/eval_seeded.py <dir> --prop {p} (scratch worktree of /repo under /tmp, removed afterwards)"},
                "expected": "own property's check exits 1 with a VIOLATION line" if kind == "defect" else "all 20 checks exit 0",
                "checks_reporting_it": rep,
                "first_evaluation": old.get("first_evaluation") or r.get("first_evaluation")}
        if "undecided_by_design" in old:
            meta["undecided_by_design"] = old["undecided_by_design"]
        if kind == "defect":
            meta["detected_by_own_property_check"] = rep.get(p, {}).get("exit") == 1
        else:
            meta["silent"] = not rep
        json.dump(meta, open(os.path.join(dst, "meta.json"), "w"), indent=1)
        stored += 1
    print(stored, "stored")


if __name__ == "__main__":
    wd, mode = sys.argv[1], sys.argv[2]
    if mode == "fast":
        fast(wd, sys.argv[3:])
    elif mode == "full":
        full(wd, sys.argv[3:])
    elif mode == "collect":
        collect(wd, sys.argv[3])
