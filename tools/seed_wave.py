#!/usr/bin/env python3
"""Prepare a wave of independent seeding agents: one scratch git worktree of /repo per property under <dir> and one
instruction file <dir>/<Cnn>.full.txt that contains ONLY the property text and the working rules -- nothing from /verif.

  tools/seed_wave.py <dir> <brief-template>      e.g. tools/seed_wave.py /tmp/wt3 tools/wave3_brief.txt
"""
import json, os, subprocess, sys
d, tpl = sys.argv[1], open(sys.argv[2]).read()
os.makedirs(d, exist_ok=True)
for l in open(os.path.join(os.path.dirname(os.path.dirname(os.path.abspath(__file__))), "properties.jsonl")):
    p = json.loads(l)
    wt = os.path.join(d, p["id"])
    if not os.path.exists(wt):
        subprocess.run(["git", "-C", "/repo", "worktree", "add", "-q", "--detach", wt, "HEAD"], check=True)
    txt = f"""PROPERTY {p['id']}: {p['title']}

Statement: {p['statement']}

Quantifier: {p['quantifier']['text']}

Why the existing tests cannot settle it: {p['why_tests_cant']}

Source files the property is anchored in: {', '.join(p['anchors']['files'])}
Mechanisms meant to make it hold: {'; '.join(m['name'] + ' (' + m['where'] + ')' for m in p['anchors']['mechanism'])}
Observable through: {', '.join(p['anchors'].get('observe_at') or [])}
"""
    open(os.path.join(d, p["id"] + ".full.txt"), "w").write(tpl.replace("{WT}", wt).replace("{PROPERTY}", txt))
print("ok")
