#!/usr/bin/env python3
"""Evaluate a seeded change (patch.diff + demo.py) against the checks.

  tools/eval_seeded.py <dir with patch.diff and demo.py> [--prop Cnn] [--skip-tests]

Creates a scratch git worktree of /repo outside /repo and /verif, confirms that the demo passes without and
fails with the change, that the change keeps the test suite at the baseline, runs every check against the
patched worktree (--root), prints a JSON summary and removes the worktree again.
"""
import json
import os
import re
import shutil
import subprocess
import sys
import tempfile

VERIF = os.path.dirname(os.path.dirname(os.path.abspath(__file__)))
PY = "/venv/bin/python"
EXPECTED_FAIL = {"test_can_load_clip_from_24_bit_depth_wav", "test_audio_to_bytes", "test_can_read_media_info"}


def sh(cmd, cwd=None, env=None, timeout=1800):
    p = subprocess.run(cmd, cwd=cwd, env=env, capture_output=True, text=True, timeout=timeout)
    return p.returncode, p.stdout + p.stderr


def main():
    args = [a for a in sys.argv[1:] if not a.startswith("--")]
    d = os.path.abspath(args[0])
    prop = None
    if "--prop" in sys.argv:
        prop = sys.argv[sys.argv.index("--prop") + 1]
    skip_tests = "--skip-tests" in sys.argv
    patch, demo = os.path.join(d, "patch.diff"), os.path.join(d, "demo.py")
    wt = tempfile.mkdtemp(prefix="seedwt_", dir="/tmp")
    os.rmdir(wt)
    out = {"dir": d, "property": prop}
    try:
        # SEED_BASE_REF: the commit the change was made against (default: the current HEAD of /repo)
        rc, o = sh(["git", "-C", "/repo", "worktree", "add", "-q", "--detach", wt, os.environ.get("SEED_BASE_REF", "HEAD")])
        assert rc == 0, o
        env = dict(os.environ, PYTHONPATH=os.path.join(wt, "src"))
        rc0, o0 = sh([PY, demo], cwd=wt, env=env, timeout=600)
        out["demo_without_change"] = rc0
        rc, o = sh(["git", "-C", wt, "apply", "--whitespace=nowarn", patch])
        out["patch_applies"] = rc == 0
        if rc != 0:
            out["apply_error"] = o[-400:]
            print(json.dumps(out, indent=1))
            return
        rc1, o1 = sh([PY, demo], cwd=wt, env=env, timeout=600)
        out["demo_with_change"] = rc1
        out["demo_tail"] = o1.strip().splitlines()[-3:]
        rc, o = sh(["git", "-C", wt, "diff", "--stat"])
        out["files"] = [l.split("|")[0].strip() for l in o.splitlines() if "|" in l]
        if not skip_tests:
            rc, o = sh([PY, "-m", "pytest", "-q", "-p", "no:cacheprovider", "--timeout=900", "tests"], cwd=wt, env=env)
            m = re.search(r"(\d+) failed, (\d+) passed", o) or re.search(r"(\d+) passed", o)
            failed = set(re.findall(r"FAILED \S+::(\w+)", o))
            out["pytest"] = o.strip().splitlines()[-1][:120]
            out["suite_at_baseline"] = bool(failed <= EXPECTED_FAIL and "1031 passed" in o)
            out["unexpected_failures"] = sorted(failed - EXPECTED_FAIL)
        res = {}
        for i in range(1, 21):
            p = f"C{i:02d}"
            rc, o = sh([os.path.join(VERIF, "check"), p, "--root", wt, "--no-evidence"], cwd=VERIF)
            if rc != 0:
                lines = [l.strip() for l in o.splitlines() if l.startswith("  src/") or l.startswith("ANALYSIS-ERROR")]
                res[p] = {"exit": rc, "reports": [l[:260] for l in lines[:4]]}
        out["checks_reporting"] = res
        out["detected_by_own_property"] = bool(prop and res.get(prop, {}).get("exit") == 1)
        out["detected_by_any"] = any(v["exit"] == 1 for v in res.values())
        out["undecided_only"] = (not out["detected_by_any"]) and any(v["exit"] == 2 for v in res.values())
    finally:
        sh(["git", "-C", "/repo", "worktree", "remove", "--force", wt])
        shutil.rmtree(wt, ignore_errors=True)
    print(json.dumps(out, indent=1))


if __name__ == "__main__":
    main()
