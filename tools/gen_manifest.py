#!/usr/bin/env python3
"""Regenerates MANIFEST.json from the table in rules/claims.py (keeps it schema-valid at all times)."""
import json, os, sys
HERE = os.path.dirname(os.path.dirname(os.path.abspath(__file__)))
sys.path.insert(0, HERE)
from rules.claims import CLAIMS, NOT_APPLICABLE, FIX_COMMITS

BASE = "cd /repo && /venv/bin/python -m pytest -ra -q -p no:cacheprovider --timeout=900 --continue-on-collection-errors"
checks = []
for pid, c in sorted(CLAIMS.items()):
    checks.append({
        "property_id": pid,
        "quick_cmd": f"./check {pid} --tier quick",
        "thorough_cmd": f"./check {pid} --tier thorough",
        "evidence_file": f"/verif/evidence/{pid}.json",
        "replay_cmd_template": "./check --replay {path}",
        "engine": "sa",
        "level_claimed": {"category": "other", "text": c["text"], "design_ref": c["design_ref"]},
        "level_note": c["note"],
        "technique": c["technique"],
    })
manifest = {
    "version": 1,
    "setup_cmd": "/venv/bin/python -m compileall -q sa rules check tools >/dev/null && chmod +x check",
    "hooks": {
        "guard": "SOUNDEVENT_VERIF",
        "enable": "none: static analysis reads /repo's working tree source; no instrumentation or hooks were added to the repository",
        "baseline_off_cmd": BASE,
        "source_commits": [],
        "add_only": True,
    },
    "engines": [{
        "name": "sa",
        "path": "/verif/sa",
        "serves_properties": sorted(CLAIMS),
        "kind_free_text": "repository-specific static analyser over python ast: source index with import/re-export resolution, "
                          "pydantic model tables, gated-SSA function summaries with evaluation-order event lists, "
                          "interval/ordering/dimension domains; rules in /verif/rules/cNN.py",
    }],
    "checks": checks,
    "notes": "Every check parses /repo's current working tree on each run and never imports or executes it. Exit 0 = all rule "
             "instances pass (known findings listed in KNOWN_FINDINGS.json are printed as KNOWN-FINDING lines); exit 1 = a "
             "VIOLATION line per unlisted violation; exit 2 = ANALYSIS-ERROR (unrecognised idiom / vanished anchor): neither a pass "
             "nor an alarm. Genuine defects repaired in /repo: " + ", ".join(FIX_COMMITS) if FIX_COMMITS else "",
    "not_applicable": [{"property_id": p, "reason": r} for p, r in sorted(NOT_APPLICABLE.items())],
}
with open(os.path.join(HERE, "MANIFEST.json"), "w") as fh:
    json.dump(manifest, fh, indent=1)
print("MANIFEST.json written:", len(checks), "checks,", len(NOT_APPLICABLE), "not applicable")
