#!/venv/bin/python
"""Summarise every function and method of the package (robustness sweep of the engine): prints crashes / unsupported constructs."""
import ast, sys, time, traceback
sys.path.insert(0, "/verif")
from sa.index import Index, AnalysisError
from sa.sym import Summaries

root = sys.argv[1] if len(sys.argv) > 1 else "/repo"
ix = Index(root); sm = Summaries(ix)
n = bad = unsup = 0
t0 = time.time()
for m in ix.modules.values():
    units = [(name, None, d) for name, defs in m.defs.items() for d in defs if isinstance(d, ast.FunctionDef)]
    for ci in m.classes.values():
        units += [(f"{ci.name}.{mn}", ci, fns[-1]) for mn, fns in ci.methods.items()]
    for qn, ci, fn in units:
        n += 1
        try:
            sm.of_node(m, fn, f"{m.name}:{qn}", ci)
        except AnalysisError as e:
            unsup += 1
            print("UNSUPPORTED", m.name, qn, str(e)[:120])
        except RecursionError:
            bad += 1
            print("RECURSION", m.name, qn)
        except Exception as e:  # noqa: BLE001
            bad += 1
            print("CRASH", m.name, qn, type(e).__name__, str(e)[:120])
            traceback.print_exc(limit=3)
print(f"{n} functions, {bad} crashes, {unsup} unsupported, {time.time() - t0:.1f} s")
