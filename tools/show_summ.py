#!/venv/bin/python
"""tools/show_summ.py <module> <qualname> [patch dir]  -- print the engine's summary (events, returns, raises, loops) of one function, optionally on /repo + a patch."""
import os, sys
VERIF = os.path.dirname(os.path.dirname(os.path.abspath(__file__)))
sys.path.insert(0, VERIF)
from sa.index import Index
from sa.report import Ctx
from sa.sym import show
from selftest.harness import apply_patch
mod, q = sys.argv[1:3]
overlay = None
if len(sys.argv) > 3:
    overlay = apply_patch("/repo", open(os.path.join(sys.argv[3], "patch.diff"), encoding="utf-8").read())
ctx = Ctx("C01", Index("/repo", overlay), "quick")
s = ctx.summ.of_func(mod, q)
print("params", s.params)
for e in s.events:
    print(f"  {e.kind:8} L{e.lineno} live={show(e.live)[:160]}\n           term={show(e.term)[:int(os.environ.get("W", 300))]}")
for lid, L in s.loops.items():
    print("  loop", lid, L.target_text, "in", show(L.iter)[:100], "conds", [show(c)[:60] for c in L.conds])
print("unpacked", {show(k)[:40]: v for k, v in s.unpacked.items()})
