#!/venv/bin/python
"""tools/autoref.py <transformation>  -- apply one mechanical, behaviour-preserving rewrite to EVERY module of /repo/src/soundevent (in
memory) and run all 20 checks on the result; prints the checks that report or lose their footing (none is the expected answer).
Transformations: or2ifexp, isnotnone, swapifelse, guard2nested, returntemp, early2else, append2aug, flipcmp, demorgan, kw2spread,
comp2loop, comp2temp, renamelocals, ifexp2stmt, chaincmp, notin, sortkw, dict2call, isinstsplit, fstr2format, pos2kw, inlinetemp, unpacksplit, max2ifexp, range2while, fstr2join, tail2helper, guards2helper.  A development aid, not part of any registered check."""
import ast, os, sys, importlib, copy
sys.path.insert(0,'/verif')
from sa.cli import run_rules
from sa.index import Index, AnalysisError
from sa.report import Ctx, load_known, match_known

class OrToIfExp(ast.NodeTransformer):
    def visit_BoolOp(self, n):
        self.generic_visit(n)
        if isinstance(n.op, ast.Or) and len(n.values) == 2 and isinstance(n.values[0], (ast.Name, ast.Attribute)):
            return ast.copy_location(ast.IfExp(test=n.values[0], body=copy.deepcopy(n.values[0]), orelse=n.values[1]), n)
        return n

class SwapIfElse(ast.NodeTransformer):
    def visit_If(self, n):
        self.generic_visit(n)
        if n.orelse and not (len(n.orelse) == 1 and isinstance(n.orelse[0], ast.If)):
            return ast.copy_location(ast.If(test=ast.UnaryOp(op=ast.Not(), operand=n.test), body=n.orelse, orelse=n.body), n)
        return n
    def visit_IfExp(self, n):
        self.generic_visit(n)
        return ast.copy_location(ast.IfExp(test=ast.UnaryOp(op=ast.Not(), operand=n.test), body=n.orelse, orelse=n.body), n)

class IsNotNone(ast.NodeTransformer):
    def visit_Compare(self, n):
        self.generic_visit(n)
        if len(n.ops) == 1 and isinstance(n.ops[0], ast.IsNot) and isinstance(n.comparators[0], ast.Constant) and n.comparators[0].value is None:
            return ast.copy_location(ast.UnaryOp(op=ast.Not(), operand=ast.Compare(left=n.left, ops=[ast.Is()], comparators=n.comparators)), n)
        return n

class LenTests(ast.NodeTransformer):
    """`if not xs:` on a Name -> `if len(xs) == 0:` is not generally equivalent (None); skip.  `x == 0` unchanged."""

class GuardToNested(ast.NodeTransformer):
    """`if a and b: S` (no else) -> `if a: if b: S`"""
    def visit_If(self, n):
        self.generic_visit(n)
        if not n.orelse and isinstance(n.test, ast.BoolOp) and isinstance(n.test.op, ast.And) and len(n.test.values) == 2:
            inner = ast.If(test=n.test.values[1], body=n.body, orelse=[])
            return ast.copy_location(ast.If(test=n.test.values[0], body=[ast.copy_location(inner, n)], orelse=[]), n)
        return n

class ReturnTemp(ast.NodeTransformer):
    """`return <call>` -> `result_ = <call>; return result_` (function bodies only, statement lists)"""
    def _fix(self, body):
        out = []
        for st in body:
            if isinstance(st, ast.Return) and isinstance(st.value, ast.Call):
                out.append(ast.copy_location(ast.Assign(targets=[ast.Name(id="result_", ctx=ast.Store())], value=st.value), st))
                out.append(ast.copy_location(ast.Return(value=ast.Name(id="result_", ctx=ast.Load())), st))
            else:
                out.append(st)
        return out
    def generic_visit(self, n):
        super().generic_visit(n)
        for f in ("body", "orelse", "finalbody"):
            v = getattr(n, f, None)
            if isinstance(v, list) and v and isinstance(v[0], ast.stmt):
                setattr(n, f, self._fix(v))
        return n

class EarlyReturnToElse(ast.NodeTransformer):
    """`if c: return A` followed by the rest -> `if c: return A else: <rest>` at the end of function bodies"""
    def visit_FunctionDef(self, n):
        self.generic_visit(n)
        body = n.body
        for i, st in enumerate(body[:-1]):
            if isinstance(st, ast.If) and not st.orelse and st.body and isinstance(st.body[-1], (ast.Return, ast.Raise)) and i >= len(body) - 3:
                st.orelse = body[i + 1:]
                n.body = body[:i + 1]
                break
        return n

class AppendToAug(ast.NodeTransformer):
    def visit_Expr(self, n):
        v = n.value
        if isinstance(v, ast.Call) and isinstance(v.func, ast.Attribute) and v.func.attr == "append" and isinstance(v.func.value, ast.Name) and len(v.args) == 1 and not v.keywords:
            return ast.copy_location(ast.AugAssign(target=ast.Name(id=v.func.value.id, ctx=ast.Store()), op=ast.Add(), value=ast.List(elts=[v.args[0]], ctx=ast.Load())), n)
        return n

class FlipCompare(ast.NodeTransformer):
    M = {ast.Lt: ast.Gt, ast.Gt: ast.Lt, ast.LtE: ast.GtE, ast.GtE: ast.LtE}
    def visit_Compare(self, n):
        self.generic_visit(n)
        if len(n.ops) == 1 and type(n.ops[0]) in self.M:
            return ast.copy_location(ast.Compare(left=n.comparators[0], ops=[self.M[type(n.ops[0])]()], comparators=[n.left]), n)
        return n

class DeMorgan(ast.NodeTransformer):
    def visit_UnaryOp(self, n):
        self.generic_visit(n)
        if isinstance(n.op, ast.Not) and isinstance(n.operand, ast.BoolOp):
            op = ast.And() if isinstance(n.operand.op, ast.Or) else ast.Or()
            return ast.copy_location(ast.BoolOp(op=op, values=[ast.UnaryOp(op=ast.Not(), operand=v) for v in n.operand.values]), n)
        return n

class KwToDictSpread(ast.NodeTransformer):
    """f(a=1, b=2) -> f(**{"a": 1, "b": 2}) for calls with >= 2 keywords and no spreads"""
    def visit_Call(self, n):
        self.generic_visit(n)
        if len(n.keywords) >= 2 and all(k.arg is not None for k in n.keywords):
            d = ast.Dict(keys=[ast.Constant(value=k.arg) for k in n.keywords], values=[k.value for k in n.keywords])
            return ast.copy_location(ast.Call(func=n.func, args=n.args, keywords=[ast.keyword(arg=None, value=d)]), n)
        return n

class CompAssignToLoop(ast.NodeTransformer):
    """`name = [elt for x in xs if c]` (single generator, simple target) -> `name = []; for x in xs: if c: name.append(elt)`"""
    def _fix(self, body):
        out = []
        for st in body:
            tgt = st.targets[0] if isinstance(st, ast.Assign) and len(st.targets) == 1 else None
            if isinstance(tgt, ast.Name) and isinstance(st.value, ast.ListComp) and len(st.value.generators) == 1 and not st.value.generators[0].is_async \
                    and not any(isinstance(x, ast.NamedExpr) for x in ast.walk(st.value)) \
                    and tgt.id not in {x.id for x in ast.walk(st.value.generators[0].target) if isinstance(x, ast.Name)}:
                g = st.value.generators[0]
                app = ast.Expr(value=ast.Call(func=ast.Attribute(value=ast.Name(id=tgt.id, ctx=ast.Load()), attr="append", ctx=ast.Load()), args=[st.value.elt], keywords=[]))
                inner = [app]
                for c in reversed(g.ifs):
                    inner = [ast.If(test=c, body=inner, orelse=[])]
                out.append(ast.copy_location(ast.Assign(targets=[ast.Name(id=tgt.id, ctx=ast.Store())], value=ast.List(elts=[], ctx=ast.Load())), st))
                out.append(ast.copy_location(ast.For(target=g.target, iter=g.iter, body=inner, orelse=[]), st))
            else:
                out.append(st)
        return out
    def generic_visit(self, n):
        super().generic_visit(n)
        for f in ("body", "orelse", "finalbody"):
            v = getattr(n, f, None)
            if isinstance(v, list) and v and isinstance(v[0], ast.stmt):
                setattr(n, f, self._fix(v))
        return n

class CompToTemp(ast.NodeTransformer):
    """a list comprehension used as a keyword argument of a call in a return statement is bound to a local first"""
    def _fix(self, body):
        out = []
        for st in body:
            if isinstance(st, ast.Return) and isinstance(st.value, ast.Call):
                k = 0
                for kw in st.value.keywords:
                    if isinstance(kw.value, ast.ListComp) and not any(isinstance(x, ast.NamedExpr) for x in ast.walk(kw.value)):
                        k += 1
                        nm = f"tmp_{kw.arg}_"
                        out.append(ast.copy_location(ast.Assign(targets=[ast.Name(id=nm, ctx=ast.Store())], value=kw.value), st))
                        kw.value = ast.Name(id=nm, ctx=ast.Load())
            out.append(st)
        return out
    def generic_visit(self, n):
        super().generic_visit(n)
        for f in ("body", "orelse", "finalbody"):
            v = getattr(n, f, None)
            if isinstance(v, list) and v and isinstance(v[0], ast.stmt):
                setattr(n, f, self._fix(v))
        return n


class RenameLocals(ast.NodeTransformer):
    """every local variable of a function (not parameters, not names declared global / nonlocal, not names read before any binding in
    an enclosing scope) gets the suffix `_v`: no rule may depend on what a local is called"""
    def visit_FunctionDef(self, n):
        params = {a.arg for a in n.args.posonlyargs + n.args.args + n.args.kwonlyargs} | ({n.args.vararg.arg} if n.args.vararg else set()) | ({n.args.kwarg.arg} if n.args.kwarg else set())
        skip = set(params)
        stores = set()
        nested = [x for x in ast.walk(n) if x is not n and isinstance(x, (ast.FunctionDef, ast.Lambda, ast.ClassDef, ast.AsyncFunctionDef))]
        if nested:
            return n  # closures read the outer names: leave such functions alone
        for x in ast.walk(n):
            if isinstance(x, (ast.Global, ast.Nonlocal)):
                skip |= set(x.names)
            if isinstance(x, ast.Name) and isinstance(x.ctx, ast.Store):
                stores.add(x.id)
            if isinstance(x, (ast.Import, ast.ImportFrom)):
                return n
            if isinstance(x, ast.ExceptHandler) and x.name:
                skip.add(x.name)
            if isinstance(x, (ast.ListComp, ast.SetComp, ast.DictComp, ast.GeneratorExp)):
                pass
        ren = {v: v + "_v" for v in stores - skip if not v.startswith("__")}
        for x in ast.walk(n):
            if isinstance(x, ast.Name) and x.id in ren:
                x.id = ren[x.id]
        return n

class ElifToNested(ast.NodeTransformer):
    """`elif c:` -> `else:` + nested `if c:` is already the same tree; instead: `if a: X elif b: Y else: Z` with returns in X -> separate ifs"""
    def visit_If(self, n):
        self.generic_visit(n)
        return n

class IfExpAssignToStmt(ast.NodeTransformer):
    """`x = a if c else b` -> `if c: x = a` / `else: x = b`  (simple name target)"""
    def _fix(self, body):
        out = []
        for st in body:
            if isinstance(st, ast.Assign) and len(st.targets) == 1 and isinstance(st.targets[0], ast.Name) and isinstance(st.value, ast.IfExp):
                v = st.value
                out.append(ast.copy_location(ast.If(test=v.test, body=[ast.Assign(targets=[ast.Name(id=st.targets[0].id, ctx=ast.Store())], value=v.body)],
                                                    orelse=[ast.Assign(targets=[ast.Name(id=st.targets[0].id, ctx=ast.Store())], value=v.orelse)]), st))
            elif isinstance(st, ast.Return) and isinstance(st.value, ast.IfExp):
                v = st.value
                out.append(ast.copy_location(ast.If(test=v.test, body=[ast.Return(value=v.body)], orelse=[]), st))
                out.append(ast.copy_location(ast.Return(value=v.orelse), st))
            else:
                out.append(st)
        return out
    def generic_visit(self, n):
        super().generic_visit(n)
        for f in ("body", "orelse", "finalbody"):
            v = getattr(n, f, None)
            if isinstance(v, list) and v and isinstance(v[0], ast.stmt):
                setattr(n, f, self._fix(v))
        return n

class ChainCompare(ast.NodeTransformer):
    """`a <= b <= c` with b a plain name / constant / attribute chain -> `a <= b and b <= c`"""
    def visit_Compare(self, n):
        self.generic_visit(n)
        def simple(x):
            return isinstance(x, (ast.Name, ast.Constant)) or (isinstance(x, ast.Attribute) and simple(x.value))
        if len(n.ops) == 2 and simple(n.comparators[0]):
            import copy
            return ast.copy_location(ast.BoolOp(op=ast.And(), values=[ast.Compare(left=n.left, ops=[n.ops[0]], comparators=[n.comparators[0]]),
                                                                      ast.Compare(left=copy.deepcopy(n.comparators[0]), ops=[n.ops[1]], comparators=[n.comparators[1]])]), n)
        return n

class NotInToNot(ast.NodeTransformer):
    """`a not in b` -> `not (a in b)`, `a != b` -> `not (a == b)` for constants on one side"""
    def visit_Compare(self, n):
        self.generic_visit(n)
        if len(n.ops) == 1 and isinstance(n.ops[0], ast.NotIn):
            return ast.copy_location(ast.UnaryOp(op=ast.Not(), operand=ast.Compare(left=n.left, ops=[ast.In()], comparators=n.comparators)), n)
        return n

class SortKeywords(ast.NodeTransformer):
    """keyword arguments of calls in reverse alphabetical order (argument expressions in this package have no side effects on each other)"""
    def visit_Call(self, n):
        self.generic_visit(n)
        if len(n.keywords) >= 2 and all(k.arg is not None for k in n.keywords):
            n.keywords = sorted(n.keywords, key=lambda k: k.arg, reverse=True)
        return n

class DictLiteralToCall(ast.NodeTransformer):
    """{"a": x, "b": y} with identifier keys -> dict(a=x, b=y)"""
    def visit_Dict(self, n):
        self.generic_visit(n)
        import keyword
        if n.keys and all(isinstance(k, ast.Constant) and isinstance(k.value, str) and k.value.isidentifier() and not keyword.iskeyword(k.value) for k in n.keys):
            return ast.copy_location(ast.Call(func=ast.Name(id="dict", ctx=ast.Load()), args=[], keywords=[ast.keyword(arg=k.value, value=v) for k, v in zip(n.keys, n.values)]), n)
        return n

class IsinstanceSplit(ast.NodeTransformer):
    """isinstance(x, (A, B)) with x a plain name -> isinstance(x, A) or isinstance(x, B)"""
    def visit_Call(self, n):
        self.generic_visit(n)
        if isinstance(n.func, ast.Name) and n.func.id == "isinstance" and len(n.args) == 2 and isinstance(n.args[1], ast.Tuple) and isinstance(n.args[0], ast.Name) \
                and len(n.args[1].elts) >= 2:
            import copy
            return ast.copy_location(ast.BoolOp(op=ast.Or(), values=[ast.Call(func=ast.Name(id="isinstance", ctx=ast.Load()), args=[copy.deepcopy(n.args[0]), e], keywords=[]) for e in n.args[1].elts]), n)
        return n

class FStringToFormat(ast.NodeTransformer):
    """f"a{x}b" -> "a{}b".format(x) for plain fields (no conversion / format spec)"""
    def visit_FormattedValue(self, n):
        n.value = self.visit(n.value)  # not the format spec (itself a JoinedStr)
        return n
    def visit_JoinedStr(self, n):
        self.generic_visit(n)
        parts, args = [], []
        for v in n.values:
            if isinstance(v, ast.Constant):
                parts.append(str(v.value).replace("{", "{{").replace("}", "}}"))
            elif isinstance(v, ast.FormattedValue) and v.conversion == -1 and v.format_spec is None:
                parts.append("{}")
                args.append(v.value)
            else:
                return n
        return ast.copy_location(ast.Call(func=ast.Attribute(value=ast.Constant(value="".join(parts)), attr="format", ctx=ast.Load()), args=args, keywords=[]), n)

class PositionalToKeyword(ast.NodeTransformer):
    """calls of the package's own module-level functions: positional arguments after the first become keywords (needs the signature: done
    for functions defined in the same module, without *args)"""
    def visit_Module(self, n):
        self.sigs = {f.name: f for f in n.body if isinstance(f, ast.FunctionDef) and not f.args.vararg and not f.args.posonlyargs}
        self.generic_visit(n)
        return n
    def visit_Call(self, n):
        self.generic_visit(n)
        f = self.sigs.get(n.func.id) if isinstance(n.func, ast.Name) else None
        if f is not None and len(n.args) >= 2 and not any(isinstance(a, ast.Starred) for a in n.args) and len(n.args) <= len(f.args.args) \
                and all(k.arg is not None for k in n.keywords):
            names = [a.arg for a in f.args.args]
            n.keywords = [ast.keyword(arg=names[i], value=a) for i, a in enumerate(n.args) if i >= 1] + n.keywords
            n.args = n.args[:1]
        return n

class InlineTemp(ast.NodeTransformer):
    """`t = expr` immediately followed by a statement that reads t exactly once (and t is not read anywhere else in the function):
    the expression is written in place.  Only when the reading statement is a return / assignment / expression statement (not a
    loop or branch that could evaluate it several times or not at all) and the read is not inside a lambda / comprehension."""
    def visit_FunctionDef(self, n):
        self.generic_visit(n)
        import copy
        counts = {}
        for x in ast.walk(n):
            if isinstance(x, ast.Name):
                counts.setdefault(x.id, [0, 0])[0 if isinstance(x.ctx, ast.Store) else 1] += 1
        def fix(body):
            out = []
            i = 0
            while i < len(body):
                st = body[i]
                nxt = body[i + 1] if i + 1 < len(body) else None
                if isinstance(st, ast.Assign) and len(st.targets) == 1 and isinstance(st.targets[0], ast.Name) and nxt is not None \
                        and isinstance(nxt, (ast.Return, ast.Assign, ast.Expr)) and counts.get(st.targets[0].id) == [1, 1] \
                        and not isinstance(st.value, (ast.Yield, ast.YieldFrom, ast.Await, ast.NamedExpr)):
                    nm = st.targets[0].id
                    reads = [x for x in ast.walk(nxt) if isinstance(x, ast.Name) and x.id == nm and isinstance(x.ctx, ast.Load)]
                    shielded = [y for x in ast.walk(nxt) if isinstance(x, (ast.Lambda, ast.ListComp, ast.SetComp, ast.DictComp, ast.GeneratorExp, ast.IfExp, ast.BoolOp))
                                for y in ast.walk(x) if isinstance(y, ast.Name) and y.id == nm]
                    v_ = getattr(nxt, "value", None)
                    def head(v_):
                        # the read is the first thing the statement evaluates (nothing with an effect runs before it)
                        if isinstance(v_, ast.Name):
                            return v_.id == nm
                        if isinstance(v_, (ast.Attribute, ast.Subscript)):
                            return head(v_.value)
                        if isinstance(v_, ast.Call):
                            return (isinstance(v_.func, ast.Attribute) and head(v_.func.value)) or (bool(v_.args) and isinstance(v_.args[0], ast.Name) and v_.args[0].id == nm
                                                                                                     and not any(isinstance(y, ast.Call) for y in ast.walk(v_.func)))
                        return False
                    if len(reads) == 1 and not shielded and v_ is not None and head(v_):
                        class R(ast.NodeTransformer):
                            def visit_Name(self_, x):
                                return copy.deepcopy(st.value) if x.id == nm and isinstance(x.ctx, ast.Load) else x
                        out.append(R().visit(nxt))
                        i += 2
                        continue
                out.append(st)
                i += 1
            return out
        for x in ast.walk(n):
            for f in ("body", "orelse", "finalbody"):
                v = getattr(x, f, None)
                if isinstance(v, list) and v and isinstance(v[0], ast.stmt):
                    setattr(x, f, fix(v))
        return n

class UnpackSplit(ast.NodeTransformer):
    """`a, b = x, y` -> `a = x` / `b = y` when no target name occurs on the right-hand side"""
    def _fix(self, body):
        out = []
        for st in body:
            if isinstance(st, ast.Assign) and len(st.targets) == 1 and isinstance(st.targets[0], ast.Tuple) and isinstance(st.value, ast.Tuple) \
                    and len(st.targets[0].elts) == len(st.value.elts) and all(isinstance(t, ast.Name) for t in st.targets[0].elts) \
                    and not any(isinstance(e, ast.Starred) for e in st.value.elts) \
                    and not ({t.id for t in st.targets[0].elts} & {x.id for x in ast.walk(st.value) if isinstance(x, ast.Name)}):
                for t, v in zip(st.targets[0].elts, st.value.elts):
                    out.append(ast.copy_location(ast.Assign(targets=[t], value=v), st))
            else:
                out.append(st)
        return out
    def generic_visit(self, n):
        super().generic_visit(n)
        for f in ("body", "orelse", "finalbody"):
            v = getattr(n, f, None)
            if isinstance(v, list) and v and isinstance(v[0], ast.stmt):
                setattr(n, f, self._fix(v))
        return n

class MaxMinToIfExp(ast.NodeTransformer):
    """max(a, b) -> (b if a < b else a), min(a, b) -> (b if b < a else a) for two plain positional arguments that are names / constants /
    attribute chains (evaluated twice without effect)"""
    def visit_Call(self, n):
        self.generic_visit(n)
        def simple(x):
            return isinstance(x, (ast.Name, ast.Constant)) or (isinstance(x, ast.Attribute) and simple(x.value))
        if isinstance(n.func, ast.Name) and n.func.id in ("max", "min") and len(n.args) == 2 and not n.keywords and all(simple(a) for a in n.args):
            import copy
            a, b = n.args
            test = ast.Compare(left=copy.deepcopy(a), ops=[ast.Lt()], comparators=[copy.deepcopy(b)]) if n.func.id == "max" else \
                ast.Compare(left=copy.deepcopy(b), ops=[ast.Lt()], comparators=[copy.deepcopy(a)])
            return ast.copy_location(ast.IfExp(test=test, body=copy.deepcopy(b), orelse=copy.deepcopy(a)), n)
        return n

class RangeToWhile(ast.NodeTransformer):
    """`for i in range(n): BODY` (n a plain name, no continue / else in the loop, i not assigned in BODY) -> `i = 0; while i < n: BODY; i += 1`"""
    def _fix(self, body):
        out = []
        for st in body:
            if isinstance(st, ast.For) and not st.orelse and isinstance(st.target, ast.Name) and isinstance(st.iter, ast.Call) and isinstance(st.iter.func, ast.Name) \
                    and st.iter.func.id == "range" and len(st.iter.args) == 1 and isinstance(st.iter.args[0], ast.Name) and not st.iter.keywords \
                    and not any(isinstance(x, ast.Continue) for b in st.body for x in ast.walk(b)) \
                    and not any(isinstance(x, ast.Name) and x.id in (st.target.id, st.iter.args[0].id) and isinstance(x.ctx, ast.Store) for b in st.body for x in ast.walk(b)):
                i = st.target.id
                out.append(ast.copy_location(ast.Assign(targets=[ast.Name(id=i, ctx=ast.Store())], value=ast.Constant(value=0)), st))
                wl = ast.While(test=ast.Compare(left=ast.Name(id=i, ctx=ast.Load()), ops=[ast.Lt()], comparators=[st.iter.args[0]]),
                               body=list(st.body) + [ast.AugAssign(target=ast.Name(id=i, ctx=ast.Store()), op=ast.Add(), value=ast.Constant(value=1))], orelse=[])
                out.append(ast.copy_location(wl, st))
            else:
                out.append(st)
        return out
    def generic_visit(self, n):
        super().generic_visit(n)
        for f in ("body", "orelse", "finalbody"):
            v = getattr(n, f, None)
            if isinstance(v, list) and v and isinstance(v[0], ast.stmt):
                setattr(n, f, self._fix(v))
        return n

class FStringToJoin(ast.NodeTransformer):
    """f"a:{x}:{y}" whose constant parts are one separator between plain fields -> "<sep>".join([... str(x) ...])"""
    def visit_FormattedValue(self, n):
        n.value = self.visit(n.value)
        return n
    def visit_JoinedStr(self, n):
        self.generic_visit(n)
        vals = n.values
        if len(vals) < 3 or not all(isinstance(v, ast.FormattedValue) and v.conversion == -1 and v.format_spec is None for v in vals[0::2]) \
                or not all(isinstance(v, ast.Constant) for v in vals[1::2]) or len(vals) % 2 == 0:
            return n
        seps = {v.value for v in vals[1::2]}
        if len(seps) != 1:
            return n
        items = [ast.Call(func=ast.Name(id="str", ctx=ast.Load()), args=[v.value], keywords=[]) for v in vals[0::2]]
        return ast.copy_location(ast.Call(func=ast.Attribute(value=ast.Constant(value=seps.pop()), attr="join", ctx=ast.Load()), args=[ast.List(elts=items, ctx=ast.Load())], keywords=[]), n)

class TailToHelper(ast.NodeTransformer):
    """extract-function: the closing `return <expression>` of every module-level function / method becomes
    `return _tail_<name>(<the locals the expression reads>)`, with the expression moved into a new private module-level function
    placed in front of its user (helpers read globals at call time, so the position does not matter to them)"""
    def visit_Module(self, n):
        out = []
        for st in n.body:
            helpers = []
            if isinstance(st, ast.FunctionDef):
                self._do(st, st.name, helpers)
            elif isinstance(st, ast.ClassDef):
                for m in st.body:
                    if isinstance(m, ast.FunctionDef):
                        self._do(m, f"{st.name}_{m.name}", helpers)
            out += helpers
            out.append(st)
        n.body = out
        return n

    def _do(self, fn, label, helpers):
        if not fn.body or not isinstance(fn.body[-1], ast.Return) or fn.body[-1].value is None or fn.name.startswith("__"):
            return
        ex = fn.body[-1].value
        if isinstance(ex, (ast.Constant, ast.Name)) or any(isinstance(x, (ast.NamedExpr, ast.Yield, ast.YieldFrom, ast.Await)) for x in ast.walk(ex)):
            return
        if any(isinstance(x, (ast.Yield, ast.YieldFrom)) for x in ast.walk(fn)):
            return
        if any(isinstance(x, ast.Name) and x.id in ("super", "locals", "vars", "__class__") for x in ast.walk(ex)):
            return
        inside = {id(x) for x in ast.walk(ex)}
        a = fn.args
        bound = {x.arg for x in a.posonlyargs + a.args + a.kwonlyargs}
        if a.vararg:
            bound.add(a.vararg.arg)
        if a.kwarg:
            bound.add(a.kwarg.arg)
        for x in ast.walk(fn):
            if id(x) in inside:
                continue
            if isinstance(x, ast.Name) and isinstance(x.ctx, ast.Store):
                bound.add(x.id)
            elif isinstance(x, (ast.FunctionDef, ast.ClassDef)) and x is not fn:
                bound.add(x.name)
            elif isinstance(x, ast.alias):
                bound.add((x.asname or x.name).split(".")[0])
            elif isinstance(x, ast.ExceptHandler) and x.name:
                bound.add(x.name)
            elif isinstance(x, (ast.Global, ast.Nonlocal)):
                return
        inner = {x.id for x in ast.walk(ex) if isinstance(x, ast.Name) and isinstance(x.ctx, ast.Store)} | {
            y.arg for x in ast.walk(ex) if isinstance(x, ast.Lambda) for y in x.args.posonlyargs + x.args.args + x.args.kwonlyargs}
        if inner & bound:
            return  # a comprehension / lambda variable of the expression shares its name with a local: leave the function alone
        free = []
        for x in ast.walk(ex):
            if isinstance(x, ast.Name) and isinstance(x.ctx, ast.Load) and x.id in bound and x.id not in free:
                free.append(x.id)
        free.sort()
        hname = f"_tail_{label}"
        helper = ast.FunctionDef(name=hname, args=ast.arguments(posonlyargs=[], args=[ast.arg(arg=v) for v in free], vararg=None, kwonlyargs=[],
                                                                  kw_defaults=[], kwarg=None, defaults=[]),
                                 body=[ast.Return(value=ex)], decorator_list=[], returns=None, type_comment=None, type_params=[])
        helpers.append(ast.copy_location(helper, fn))
        fn.body[-1] = ast.copy_location(ast.Return(value=ast.Call(func=ast.Name(id=hname, ctx=ast.Load()),
                                                                   args=[ast.Name(id=v, ctx=ast.Load()) for v in free], keywords=[])), fn.body[-1])

class GuardsToHelper(ast.NodeTransformer):
    """extract-function: the leading run of `if <test>: raise ...` statements of a module-level function / method becomes one call
    `_check_<name>(<the parameters the tests and messages read>)` of a new private module-level function holding those statements"""
    def visit_Module(self, n):
        out = []
        for st in n.body:
            helpers = []
            if isinstance(st, ast.FunctionDef):
                self._do(st, st.name, helpers)
            elif isinstance(st, ast.ClassDef):
                for m in st.body:
                    if isinstance(m, ast.FunctionDef):
                        self._do(m, f"{st.name}_{m.name}", helpers)
            out += helpers
            out.append(st)
        n.body = out
        return n

    def _do(self, fn, label, helpers):
        body = fn.body
        k0 = 1 if body and isinstance(body[0], ast.Expr) and isinstance(body[0].value, ast.Constant) and isinstance(body[0].value.value, str) else 0
        k = k0
        while k < len(body) and isinstance(body[k], ast.If) and not body[k].orelse and all(isinstance(x, ast.Raise) for x in body[k].body):
            k += 1
        run = body[k0:k]
        if not run or k == len(body) or fn.name.startswith("__"):
            return
        if any(isinstance(x, (ast.NamedExpr, ast.Yield, ast.YieldFrom, ast.Await, ast.Lambda, ast.ListComp, ast.SetComp, ast.DictComp, ast.GeneratorExp))
               for st in run for x in ast.walk(st)):
            return
        if any(isinstance(x, ast.Name) and x.id in ("super", "locals", "vars", "__class__") for st in run for x in ast.walk(st)):
            return
        if any(isinstance(x, ast.Raise) and x.exc is None for st in run for x in ast.walk(st)):
            return
        a = fn.args
        params = [x.arg for x in a.posonlyargs + a.args + a.kwonlyargs] + ([a.vararg.arg] if a.vararg else []) + ([a.kwarg.arg] if a.kwarg else [])
        free = sorted({x.id for st in run for x in ast.walk(st) if isinstance(x, ast.Name) and isinstance(x.ctx, ast.Load) and x.id in params})
        hname = f"_check_{label}"
        helper = ast.FunctionDef(name=hname, args=ast.arguments(posonlyargs=[], args=[ast.arg(arg=v) for v in free], vararg=None, kwonlyargs=[],
                                                                  kw_defaults=[], kwarg=None, defaults=[]),
                                 body=run, decorator_list=[], returns=None, type_comment=None, type_params=[])
        helpers.append(ast.copy_location(helper, fn))
        call = ast.Expr(value=ast.Call(func=ast.Name(id=hname, ctx=ast.Load()), args=[ast.Name(id=v, ctx=ast.Load()) for v in free], keywords=[]))
        fn.body = body[:k0] + [ast.copy_location(call, run[0])] + body[k:]

TR = {"guards2helper": GuardsToHelper, "tail2helper": TailToHelper, "max2ifexp": MaxMinToIfExp, "range2while": RangeToWhile, "fstr2join": FStringToJoin, "inlinetemp": InlineTemp, "unpacksplit": UnpackSplit, "renamelocals": RenameLocals, "ifexp2stmt": IfExpAssignToStmt, "chaincmp": ChainCompare, "notin": NotInToNot, "sortkw": SortKeywords, "dict2call": DictLiteralToCall, "isinstsplit": IsinstanceSplit, "fstr2format": FStringToFormat, "pos2kw": PositionalToKeyword, "kw2spread": KwToDictSpread, "comp2loop": CompAssignToLoop, "comp2temp": CompToTemp, "returntemp": ReturnTemp, "early2else": EarlyReturnToElse, "append2aug": AppendToAug, "flipcmp": FlipCompare, "demorgan": DeMorgan, "or2ifexp": OrToIfExp, "swapifelse": SwapIfElse, "isnotnone": IsNotNone, "guard2nested": GuardToNested}
which = sys.argv[1]
overlay = {}
for dp, dn, fn in os.walk('/repo/src/soundevent'):
    for f in fn:
        if f.endswith('.py'):
            p = os.path.join(dp, f); rel = os.path.relpath(p, '/repo')
            src = open(p).read()
            tree = ast.parse(src)
            for w_ in which.split("+"):  # several transformations composed: a+b+c
                tree = ast.parse(ast.unparse(ast.fix_missing_locations(TR[w_]().visit(tree))))
            new = ast.unparse(tree) + "\n"
            if new != ast.unparse(ast.parse(src)) + "\n":
                overlay[rel] = new
print(which, len(overlay), "files changed")
known = load_known()
for i in range(1, 21):
    prop = f"C{i:02d}"
    ctx = Ctx(prop, Index('/repo', overlay), 'quick')
    try:
        run_rules(importlib.import_module(f"rules.{prop.lower()}"), ctx, prop)
    except AnalysisError as e:
        print(prop, "ANALYSIS", e.rule, str(e)[:150]); continue
    except Exception as e:
        print(prop, "ERROR", type(e).__name__, str(e)[:150]); continue
    fs = [f for f in ctx.findings if not match_known(f, known)]
    und = list(ctx.undecided) + [rid for rid, n in ctx.floors.items() if ctx.count(rid) < n]
    if fs or und:
        print(prop, "FINDINGS", [(f.rule, f.func, f.construct[:40]) for f in fs][:4], "UNDEC", [str(u)[:100] for u in und][:3])
print("done")
