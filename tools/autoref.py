#!/venv/bin/python
"""tools/autoref.py <transformation>  -- apply one mechanical, behaviour-preserving rewrite to EVERY module of /repo/src/soundevent (in
memory) and run all 20 checks on the result; prints the checks that report or lose their footing (none is the expected answer).
Transformations: or2ifexp, isnotnone, swapifelse, guard2nested, returntemp, early2else, append2aug, flipcmp, demorgan, kw2spread,
comp2loop, comp2temp.  A development aid, not part of any registered check."""
import ast, os, sys, importlib, copy
sys.path.insert(0,'/verif')
from sa.cli import run_rules
from sa.index import Index, AnalysisError
from sa.report import Ctx, load_known, match_known

class OrToIfExp(ast.NodeTransformer):
    def visit_BoolOp(self, n):
        self.generic_visit(n)
        if isinstance(n.op, ast.Or) and len(n.values) == 2 and isinstance(n.values[0], (ast.Name, ast.Attribute)):
            return ast.copy_location(ast.IfExp(test=n.values[0], body=copy.deepcopy(n.values[0]), orelse=n.values[1]), n)
        return n

class SwapIfElse(ast.NodeTransformer):
    def visit_If(self, n):
        self.generic_visit(n)
        if n.orelse and not (len(n.orelse) == 1 and isinstance(n.orelse[0], ast.If)):
            return ast.copy_location(ast.If(test=ast.UnaryOp(op=ast.Not(), operand=n.test), body=n.orelse, orelse=n.body), n)
        return n
    def visit_IfExp(self, n):
        self.generic_visit(n)
        return ast.copy_location(ast.IfExp(test=ast.UnaryOp(op=ast.Not(), operand=n.test), body=n.orelse, orelse=n.body), n)

class IsNotNone(ast.NodeTransformer):
    def visit_Compare(self, n):
        self.generic_visit(n)
        if len(n.ops) == 1 and isinstance(n.ops[0], ast.IsNot) and isinstance(n.comparators[0], ast.Constant) and n.comparators[0].value is None:
            return ast.copy_location(ast.UnaryOp(op=ast.Not(), operand=ast.Compare(left=n.left, ops=[ast.Is()], comparators=n.comparators)), n)
        return n

class LenTests(ast.NodeTransformer):
    """`if not xs:` on a Name -> `if len(xs) == 0:` is not generally equivalent (None); skip.  `x == 0` unchanged."""

class GuardToNested(ast.NodeTransformer):
    """`if a and b: S` (no else) -> `if a: if b: S`"""
    def visit_If(self, n):
        self.generic_visit(n)
        if not n.orelse and isinstance(n.test, ast.BoolOp) and isinstance(n.test.op, ast.And) and len(n.test.values) == 2:
            inner = ast.If(test=n.test.values[1], body=n.body, orelse=[])
            return ast.copy_location(ast.If(test=n.test.values[0], body=[ast.copy_location(inner, n)], orelse=[]), n)
        return n

class ReturnTemp(ast.NodeTransformer):
    """`return <call>` -> `result_ = <call>; return result_` (function bodies only, statement lists)"""
    def _fix(self, body):
        out = []
        for st in body:
            if isinstance(st, ast.Return) and isinstance(st.value, ast.Call):
                out.append(ast.copy_location(ast.Assign(targets=[ast.Name(id="result_", ctx=ast.Store())], value=st.value), st))
                out.append(ast.copy_location(ast.Return(value=ast.Name(id="result_", ctx=ast.Load())), st))
            else:
                out.append(st)
        return out
    def generic_visit(self, n):
        super().generic_visit(n)
        for f in ("body", "orelse", "finalbody"):
            v = getattr(n, f, None)
            if isinstance(v, list) and v and isinstance(v[0], ast.stmt):
                setattr(n, f, self._fix(v))
        return n

class EarlyReturnToElse(ast.NodeTransformer):
    """`if c: return A` followed by the rest -> `if c: return A else: <rest>` at the end of function bodies"""
    def visit_FunctionDef(self, n):
        self.generic_visit(n)
        body = n.body
        for i, st in enumerate(body[:-1]):
            if isinstance(st, ast.If) and not st.orelse and st.body and isinstance(st.body[-1], (ast.Return, ast.Raise)) and i >= len(body) - 3:
                st.orelse = body[i + 1:]
                n.body = body[:i + 1]
                break
        return n

class AppendToAug(ast.NodeTransformer):
    def visit_Expr(self, n):
        v = n.value
        if isinstance(v, ast.Call) and isinstance(v.func, ast.Attribute) and v.func.attr == "append" and isinstance(v.func.value, ast.Name) and len(v.args) == 1 and not v.keywords:
            return ast.copy_location(ast.AugAssign(target=ast.Name(id=v.func.value.id, ctx=ast.Store()), op=ast.Add(), value=ast.List(elts=[v.args[0]], ctx=ast.Load())), n)
        return n

class FlipCompare(ast.NodeTransformer):
    M = {ast.Lt: ast.Gt, ast.Gt: ast.Lt, ast.LtE: ast.GtE, ast.GtE: ast.LtE}
    def visit_Compare(self, n):
        self.generic_visit(n)
        if len(n.ops) == 1 and type(n.ops[0]) in self.M:
            return ast.copy_location(ast.Compare(left=n.comparators[0], ops=[self.M[type(n.ops[0])]()], comparators=[n.left]), n)
        return n

class DeMorgan(ast.NodeTransformer):
    def visit_UnaryOp(self, n):
        self.generic_visit(n)
        if isinstance(n.op, ast.Not) and isinstance(n.operand, ast.BoolOp):
            op = ast.And() if isinstance(n.operand.op, ast.Or) else ast.Or()
            return ast.copy_location(ast.BoolOp(op=op, values=[ast.UnaryOp(op=ast.Not(), operand=v) for v in n.operand.values]), n)
        return n

class KwToDictSpread(ast.NodeTransformer):
    """f(a=1, b=2) -> f(**{"a": 1, "b": 2}) for calls with >= 2 keywords and no spreads"""
    def visit_Call(self, n):
        self.generic_visit(n)
        if len(n.keywords) >= 2 and all(k.arg is not None for k in n.keywords):
            d = ast.Dict(keys=[ast.Constant(value=k.arg) for k in n.keywords], values=[k.value for k in n.keywords])
            return ast.copy_location(ast.Call(func=n.func, args=n.args, keywords=[ast.keyword(arg=None, value=d)]), n)
        return n

class CompAssignToLoop(ast.NodeTransformer):
    """`name = [elt for x in xs if c]` (single generator, simple target) -> `name = []; for x in xs: if c: name.append(elt)`"""
    def _fix(self, body):
        out = []
        for st in body:
            tgt = st.targets[0] if isinstance(st, ast.Assign) and len(st.targets) == 1 else None
            if isinstance(tgt, ast.Name) and isinstance(st.value, ast.ListComp) and len(st.value.generators) == 1 and not st.value.generators[0].is_async \
                    and not any(isinstance(x, ast.NamedExpr) for x in ast.walk(st.value)) \
                    and tgt.id not in {x.id for x in ast.walk(st.value.generators[0].target) if isinstance(x, ast.Name)}:
                g = st.value.generators[0]
                app = ast.Expr(value=ast.Call(func=ast.Attribute(value=ast.Name(id=tgt.id, ctx=ast.Load()), attr="append", ctx=ast.Load()), args=[st.value.elt], keywords=[]))
                inner = [app]
                for c in reversed(g.ifs):
                    inner = [ast.If(test=c, body=inner, orelse=[])]
                out.append(ast.copy_location(ast.Assign(targets=[ast.Name(id=tgt.id, ctx=ast.Store())], value=ast.List(elts=[], ctx=ast.Load())), st))
                out.append(ast.copy_location(ast.For(target=g.target, iter=g.iter, body=inner, orelse=[]), st))
            else:
                out.append(st)
        return out
    def generic_visit(self, n):
        super().generic_visit(n)
        for f in ("body", "orelse", "finalbody"):
            v = getattr(n, f, None)
            if isinstance(v, list) and v and isinstance(v[0], ast.stmt):
                setattr(n, f, self._fix(v))
        return n

class CompToTemp(ast.NodeTransformer):
    """a list comprehension used as a keyword argument of a call in a return statement is bound to a local first"""
    def _fix(self, body):
        out = []
        for st in body:
            if isinstance(st, ast.Return) and isinstance(st.value, ast.Call):
                k = 0
                for kw in st.value.keywords:
                    if isinstance(kw.value, ast.ListComp) and not any(isinstance(x, ast.NamedExpr) for x in ast.walk(kw.value)):
                        k += 1
                        nm = f"tmp_{kw.arg}_"
                        out.append(ast.copy_location(ast.Assign(targets=[ast.Name(id=nm, ctx=ast.Store())], value=kw.value), st))
                        kw.value = ast.Name(id=nm, ctx=ast.Load())
            out.append(st)
        return out
    def generic_visit(self, n):
        super().generic_visit(n)
        for f in ("body", "orelse", "finalbody"):
            v = getattr(n, f, None)
            if isinstance(v, list) and v and isinstance(v[0], ast.stmt):
                setattr(n, f, self._fix(v))
        return n

TR = {"kw2spread": KwToDictSpread, "comp2loop": CompAssignToLoop, "comp2temp": CompToTemp, "returntemp": ReturnTemp, "early2else": EarlyReturnToElse, "append2aug": AppendToAug, "flipcmp": FlipCompare, "demorgan": DeMorgan, "or2ifexp": OrToIfExp, "swapifelse": SwapIfElse, "isnotnone": IsNotNone, "guard2nested": GuardToNested}
which = sys.argv[1]
overlay = {}
for dp, dn, fn in os.walk('/repo/src/soundevent'):
    for f in fn:
        if f.endswith('.py'):
            p = os.path.join(dp, f); rel = os.path.relpath(p, '/repo')
            src = open(p).read()
            tree = TR[which]().visit(ast.parse(src))
            ast.fix_missing_locations(tree)
            new = ast.unparse(tree) + "\n"
            if new != ast.unparse(ast.parse(src)) + "\n":
                overlay[rel] = new
print(which, len(overlay), "files changed")
known = load_known()
for i in range(1, 21):
    prop = f"C{i:02d}"
    ctx = Ctx(prop, Index('/repo', overlay), 'quick')
    try:
        run_rules(importlib.import_module(f"rules.{prop.lower()}"), ctx, prop)
    except AnalysisError as e:
        print(prop, "ANALYSIS", e.rule, str(e)[:150]); continue
    except Exception as e:
        print(prop, "ERROR", type(e).__name__, str(e)[:150]); continue
    fs = [f for f in ctx.findings if not match_known(f, known)]
    und = list(ctx.undecided) + [rid for rid, n in ctx.floors.items() if ctx.count(rid) < n]
    if fs or und:
        print(prop, "FINDINGS", [(f.rule, f.func, f.construct[:40]) for f in fs][:4], "UNDEC", [str(u)[:100] for u in und][:3])
print("done")
