"""Print python sources with docstrings removed (reading aid, not part of the checks)."""
import ast, sys

def strip(src):
    tree = ast.parse(src)
    kill = set()
    for node in ast.walk(tree):
        if isinstance(node, (ast.Module, ast.ClassDef, ast.FunctionDef, ast.AsyncFunctionDef)):
            b = node.body
            if b and isinstance(b[0], ast.Expr) and isinstance(b[0].value, ast.Constant) and isinstance(b[0].value.value, str):
                for ln in range(b[0].lineno, b[0].end_lineno + 1):
                    kill.add(ln)
    out = []
    for i, line in enumerate(src.splitlines(), 1):
        if i in kill or not line.strip():
            continue
        out.append(f"{i:4d} {line}")
    return "\n".join(out)

for p in sys.argv[1:]:
    print("####", p)
    print(strip(open(p).read()))
