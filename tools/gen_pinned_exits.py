#!/venv/bin/python
"""Record, for every module-level function of src/soundevent on the reference tree, how many own rejections (raise events outside
exception handlers, helpers inlined) and how many None-answering paths its summary has.

  tools/gen_pinned_exits.py [root]      (default /repo) -> sa/pinned_exits.json

G.12 (rules/serves.py) applies its decision to the functions an entry point calls: a callee that had no rejection of its own on the
reference tree has no documented one, so every rejection / None answer it acquires must be dead for valid requests.  Regenerated
only by hand, together with the other reference tables, on a tree on which every check passes."""
import ast
import json
import os
import sys

VERIF = os.path.dirname(os.path.dirname(os.path.abspath(__file__)))
sys.path.insert(0, VERIF)
from sa.index import Index  # noqa: E402
from sa.report import Ctx  # noqa: E402
from sa.sym import FALSE, NONE  # noqa: E402

root = sys.argv[1] if len(sys.argv) > 1 else "/repo"
ctx = Ctx("C01", Index(root, None), "quick")
out = {}
for m in ctx.index.modules.values():
    for name, defs in m.defs.items():
        if not isinstance(defs[0], ast.FunctionDef):
            continue
        try:
            s = ctx.summ.of_func(m.name, name)
        except Exception:  # noqa: BLE001
            continue
        raises = [r for r in s.raises if not r.in_handler]
        nones = [r for r in s.raw_returns if not r.in_handler and r.term == NONE and isinstance(r.node, ast.Return)]
        out[f"{m.name}:{name}"] = {"raises": len(raises), "none_returns": len(nones), "falls_off": s.fall_live != FALSE, "generator": bool(s.is_generator)}
dst = os.path.join(VERIF, "sa", "pinned_exits.json")
json.dump(out, open(dst, "w"), indent=0, sort_keys=True)
print(len(out), "functions ->", dst)
