#!/venv/bin/python
"""Record the declarations of the reference tree: signatures (parameter order, defaults) of every function / method and the
pydantic declarations (model_config, field shapes, Field constraints, defaults) of every model class.

  tools/gen_pinned_decls.py [root]     (default /repo) -> sa/pinned_decls.json

rules/common.py compares the declarations of the code a property is anchored in with this table (rules G.4 / G.5).
Regenerated only by hand, together with the other pinned tables, on a tree on which every check passes.
"""
import ast, json, os, sys
sys.path.insert(0, os.path.dirname(os.path.dirname(os.path.abspath(__file__))))
from sa.index import Index, pick_def
from sa.models import Models
from rules.common import class_decl, func_decl, model_decl, module_constants, package_exports
from sa.sym import Summaries

root = sys.argv[1] if len(sys.argv) > 1 else "/repo"
ix = Index(root)
ms = Models(ix)
sm = Summaries(ix)
out = {"functions": {}, "models": {}, "constants": {}, "classes": {}, "exports": package_exports(ix)}
for m in ix.modules.values():
    for name, defs in m.defs.items():
        fns = [d for d in defs if isinstance(d, ast.FunctionDef)]
        if fns:
            out["functions"][f"{m.name}:{name}"] = func_decl(ix, m, pick_def(fns), None)
    out["constants"].update(module_constants(m))
    for ci in m.classes.values():
        for mn, fns in ci.methods.items():
            out["functions"][f"{m.name}:{ci.name}.{mn}"] = func_decl(ix, m, pick_def(fns), ci)
        out["classes"][ci.qual] = class_decl(ci)
        if ms.is_model(ci):
            out["models"][ci.qual] = model_decl(ix, ms, ci, sm)
dst = os.path.join(os.path.dirname(os.path.dirname(os.path.abspath(__file__))), "sa", "pinned_decls.json")
json.dump(out, open(dst, "w"), indent=0, sort_keys=True)
print(len(out["classes"]), "classes,", sum(len(v) for v in out["exports"].values()), "exports,", len(out["functions"]), "functions,", len(out["models"]), "models,", len(out["constants"]), "constants ->", dst)
