"""tools/show_summary.py <root> <module> <function> [x]: print the engine summary (events, path conditions, returns) of one function."""
import sys
sys.path.insert(0,'/verif')
from sa.index import Index
from sa.sym import Summaries, show, walk
root = sys.argv[1]; mod=sys.argv[2]; fn=sys.argv[3]
ix = Index(root); sm = Summaries(ix)
s = sm.of_func(mod, fn)
for e in s.events:
    print(e.idx, e.kind, 'L', e.loops, '|', show(e.live)[:150], '|', show(e.term)[:400], getattr(e,'inlined_from',''))
print('fall', show(s.fall_live))
if len(sys.argv)>4:
    for r in s.returns: print('RET', show(r.live)[:200], '=>', show(r.term)[:600])
