#!/venv/bin/python
"""Record the in-package call sites of every function and method of the reference tree.

  tools/gen_pinned_calls.py [root]     (default /repo) -> sa/pinned_calls.json

{ "mod:func" | "mod:Class.meth": {"params": [...], "sites": [{"caller": "mod:qual", "args": {param: term}}]} }

Argument terms are in the caller's vocabulary (loop / allocation ids canonicalised).  sa/alias.py uses the table to
recognise a renamed / re-parameterised helper.  Regenerated only by hand, together with sa/pinned_names.json.
"""
import ast, json, os, sys
sys.path.insert(0, os.path.dirname(os.path.dirname(os.path.abspath(__file__))))
from sa.index import Index, AnalysisError, pick_def
from sa import sym
from sa.alias import to_json, canon_ids

root = sys.argv[1] if len(sys.argv) > 1 else "/repo"
ix = Index(root)
sm = sym.Summaries(ix)
table = {}


def params_of(node, skip_first):
    a = node.args
    ps = [p.arg for p in list(a.posonlyargs) + list(a.args) + list(a.kwonlyargs)]
    return ps[1:] if skip_first else ps


for m in ix.modules.values():
    for name, defs in m.defs.items():
        fns = [d for d in defs if isinstance(d, ast.FunctionDef)]
        if fns:
            table[f"{m.name}:{name}"] = {"params": params_of(pick_def(fns), False), "sites": []}
    for ci in m.classes.values():
        for mn, fns in ci.methods.items():
            node = pick_def(fns)
            static = any(ast.unparse(d) == "staticmethod" for d in node.decorator_list)
            table[f"{m.name}:{ci.name}.{mn}"] = {"params": params_of(node, not static), "sites": [],
                                                  "recv": None if static else params_of(node, False)[:1][0]}

n = 0
for m in ix.modules.values():
    units = [(name, None, pick_def([d for d in defs if isinstance(d, ast.FunctionDef)])) for name, defs in m.defs.items()
             if any(isinstance(d, ast.FunctionDef) for d in defs)]
    for ci in m.classes.values():
        units += [(f"{ci.name}.{mn}", ci, pick_def(fns)) for mn, fns in ci.methods.items()]
    for qn, ci, fn in units:
        try:
            s = sm.of_node(m, fn, f"{m.name}:{qn}", ci)
        except (AnalysisError, RecursionError):
            continue
        for e in s.events:
            if e.kind != "call":
                continue
            f = e.term[1]
            key = None
            if f[0] == "global" and f[2] == "func" and f[1] in table:
                key = f[1]
            elif f[0] == "attr" and f[1] in (("param", "self"), ("param", "cls")) and ci is not None:
                found = ci.find_method(f[2])
                if found:
                    key = f"{found[0].module.name}:{found[0].name}.{f[2]}"
            if key is None or key not in table:
                continue
            bound, extra, spreads, too_many = sym.bind_args(e.term, table[key]["params"])
            if extra or spreads or too_many:
                continue
            table[key]["sites"].append({"caller": f"{m.name}:{qn}", "args": {p: to_json(canon_ids(t)) for p, t in bound.items()},
                                        "npos": len(e.term[2])})
            n += 1
table = {k: v for k, v in table.items() if v["sites"] or v.get("recv")}
dst = os.path.join(os.path.dirname(os.path.dirname(os.path.abspath(__file__))), "sa", "pinned_calls.json")
json.dump(table, open(dst, "w"), indent=0, sort_keys=True)
print(n, "call sites of", len(table), "functions ->", dst)
