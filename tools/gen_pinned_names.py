#!/usr/bin/env python3
"""Record the names of every function and method of src/soundevent on the reference tree.

  tools/gen_pinned_names.py [root]      (default /repo) -> sa/pinned_names.json

The engine inlines calls to same-module functions that are NOT in this table: such a function is a helper that a
later change extracted, and the rules, which know the reference tree's functions by name, must see through it.
The table is regenerated only by hand, on a tree on which every check passes.
"""
import ast
import json
import os
import sys

root = sys.argv[1] if len(sys.argv) > 1 else "/repo"
src = os.path.join(root, "src", "soundevent")
names = {}
assigns = {}
classes = {}
for dp, dn, fn in os.walk(src):
    for f in sorted(fn):
        if not f.endswith(".py"):
            continue
        p = os.path.join(dp, f)
        rel = os.path.relpath(p, os.path.join(root, "src"))
        mod = rel[:-3].replace(os.sep, ".")
        if mod.endswith(".__init__"):
            mod = mod[: -len(".__init__")]
        tree = ast.parse(open(p).read())
        out = set()

        def visit(body, prefix):
            for st in body:
                if isinstance(st, (ast.FunctionDef, ast.AsyncFunctionDef)):
                    out.add(prefix + st.name)
                elif isinstance(st, ast.ClassDef):
                    visit(st.body, prefix + st.name + ".")
                elif isinstance(st, (ast.If, ast.Try)):
                    visit(st.body, prefix)
                    visit(getattr(st, "orelse", []), prefix)

        visit(tree.body, "")
        names[mod] = sorted(out)
        classes[mod] = sorted(st.name for st in tree.body if isinstance(st, ast.ClassDef))
        assigns[mod] = sorted({t.id for st in tree.body if isinstance(st, ast.Assign) for t in st.targets if isinstance(t, ast.Name)}
                              | {st.target.id for st in tree.body if isinstance(st, ast.AnnAssign) and isinstance(st.target, ast.Name)})
dst = os.path.join(os.path.dirname(os.path.dirname(os.path.abspath(__file__))), "sa", "pinned_names.json")
json.dump(names, open(dst, "w"), indent=0, sort_keys=True)
json.dump(assigns, open(dst.replace("pinned_names", "pinned_assigns"), "w"), indent=0, sort_keys=True)
json.dump(classes, open(dst.replace("pinned_names", "pinned_classes"), "w"), indent=0, sort_keys=True)
print(sum(len(v) for v in names.values()), "functions in", len(names), "modules ->", dst)
print(sum(len(v) for v in assigns.values()), "module-level assignments ->", dst.replace("pinned_names", "pinned_assigns"))
