#!/usr/bin/env python3
"""Copy evaluated seeded changes from the sub-agents' scratch worktrees into /verif/seeded/<id>/ (patch.diff, demo.py, README.txt, meta.json)."""
import glob, json, os, shutil, sys
INITIAL_MISS = {"C03_2": "missed (R03.3 accepted either orientation for equal first/last time); rule tightened to idempotence",
                "C14_2": "missed (format spec inside the f-string was ignored by the summariser); ('fmt', value, spec) terms added",
                "C12_3": "undecided (exit 2: extra return path not classified); R12.4 now reports any non-delegating path",
                "C05_2": "undecided (exit 2: converter with two return paths); R05.2 now reports multi-path converters",
                "C01_3": "missed (truthiness filter inside a comprehension); R01.3 filter rule added",
                "C11_2": "missed (clip made conditional with a dropped case); R11.5 now requires the clip on every path / all three cases",
                "C15_2": "missed (early return fabricating zeros); R15.2 now requires every path to return the read frames",
                "C16_1": "missed (trim skipped in size mode); R16.1 now requires the trim in both modes"}
out_root = "/verif/seeded"
os.makedirs(out_root, exist_ok=True)
for f in sorted(glob.glob("/tmp/wt/results/*.json")):
    name = os.path.basename(f)[:-5]
    prop, k = name.split("_")
    try:
        d = json.load(open(f))
    except Exception:
        continue
    src = f"/tmp/wt/{prop}/out/{k}"
    fast = f"/tmp/wt/results_fast/{name}.json"
    if os.path.exists(fast):
        try:
            fd = json.load(open(fast))
            d["checks_reporting"] = fd.get("checks_reporting", d.get("checks_reporting"))
            d["detected_by_own_property"] = fd.get("detected_by_own_property")
            d["detected_by_any"] = fd.get("detected_by_any")
        except Exception:
            pass
    if not (d.get("demo_without_change") == 0 and d.get("demo_with_change") not in (0, None) and d.get("patch_applies")):
        print("skip (not confirmed)", name)
        continue
    if not d.get("suite_at_baseline") and d.get("unexpected_failures") not in ([], ["test_read_clip"]):
        print("skip (suite)", name, d.get("unexpected_failures"))
        continue
    dst = os.path.join(out_root, f"{prop}-{k}")
    os.makedirs(dst, exist_ok=True)
    for fn in ("patch.diff", "demo.py", "README.txt"):
        if os.path.exists(os.path.join(src, fn)):
            shutil.copy(os.path.join(src, fn), os.path.join(dst, fn))
    readme = open(os.path.join(src, "README.txt")).read() if os.path.exists(os.path.join(src, "README.txt")) else ""
    meta = {
        "breaks_property": prop,
        "origin": "independent sub-agent given only the property text and its own scratch worktree (no access to /verif)",
        "files_touched": d.get("files"),
        "needs_to_manifest": readme.strip()[:1200],
        "what_was_run": {
            "demo_exit_without_change": d.get("demo_without_change"),
            "demo_exit_with_change": d.get("demo_with_change"),
            "pytest_with_change": d.get("pytest"),
            "suite_at_baseline": bool(d.get("suite_at_baseline")) or d.get("unexpected_failures") == ["test_read_clip"],
            "note": "tests/test_audio/test_audio.py::test_read_clip is a hypothesis-deadline flake under load" if d.get("unexpected_failures") == ["test_read_clip"] else "",
            "command": "tools/eval_seeded.py <dir> --prop %s (scratch worktree of /repo under /tmp, removed afterwards)" % prop,
        },
        "checks_reporting_it": {p: v["reports"][:2] for p, v in d.get("checks_reporting", {}).items() if v["exit"] == 1},
        "detected_by_own_property_check": d.get("detected_by_own_property"),
        "detected_by_any_check": d.get("detected_by_any"),
        "first_evaluation": INITIAL_MISS.get(name, "detected on first evaluation"),
    }
    json.dump(meta, open(os.path.join(dst, "meta.json"), "w"), indent=1)
    print("kept", dst, "own" if meta["detected_by_own_property_check"] else ("other" if meta["detected_by_any_check"] else "MISS"))
