#!/venv/bin/python
"""Mutation audit of the checkers (a development tool, not part of any registered check).

  tools/mutate.py <Cnn> [--max N] [--tests] [--round2]      generate AST mutants of the functions the check of Cnn summarises, run the check on
                                                 each (in-memory overlay), list the SURVIVORS (check exits 0); with --tests the
                                                 survivors are also run against the unedited test-suite in scratch copies under /tmp
                                                 (removed afterwards) -- a survivor that passes the suite is a candidate hole of the
                                                 rules (or an equivalent / irrelevant mutant: to be judged by reading)

Mutation operators: comparison swaps, arithmetic swaps, boolean negation of `if` tests, swapped first two call arguments, constant
tweaks (0 <-> 1, n -> n + 1), swapped constant subscripts, deleted expression statements / augmented assignments, and/or swaps.
--round2 uses a second operator set instead: flipped comparisons (< -> >), sibling attributes / functions / string options (start_time <->
end_time, min <-> max, floor <-> ceil, 'right' <-> 'left', append <-> extend ...), a dropped or swapped keyword argument, a dropped
operand of and / or, continue -> pass, a dropped unary operator, an opened slice bound, swapped branches of a conditional expression,
a dropped comprehension filter.  --round4: a special case on a point value of a parameter as first statement of every summarised
function (a rejection / an answer of None / the parameter replaced).  --round3: a variable / attribute / keyword exchanged for its counterpart (start <-> end, low <-> high,
source <-> target, annotation <-> prediction, row <-> column ... when the counterpart exists in the same function), the first two
elements of a tuple swapped, a `+ 1` / `- 1` dropped.
"""
import ast
import copy
import importlib
import json
import os
import shutil
import subprocess
import sys
import tempfile
from concurrent.futures import ProcessPoolExecutor

VERIF = os.path.dirname(os.path.dirname(os.path.abspath(__file__)))
sys.path.insert(0, VERIF)
from sa.cli import anchor_files, run_rules  # noqa: E402
from sa.index import AnalysisError, Index  # noqa: E402
from sa.report import Ctx, load_known, match_known  # noqa: E402

ROOT = "/repo"
ROUND2 = "--round2" in sys.argv
ROUND3 = "--round3" in sys.argv
ROUND4 = "--round4" in sys.argv
TOKENS = [("start", "end"), ("start", "stop"), ("low", "high"), ("min", "max"), ("source", "target"), ("annotation", "prediction"), ("annotations", "predictions"),
          ("annotated", "predicted"), ("true", "predicted"), ("onset", "offset"), ("left", "right"), ("rows", "cols"), ("row", "column"), ("row", "col"),
          ("time", "freq"), ("time", "frequency"), ("x", "y"), ("first", "last"), ("width", "height"), ("index1", "index2"), ("geometry1", "geometry2"),
          ("se1", "se2"), ("match1", "match2"), ("start1", "start2"), ("stop1", "stop2"), ("lower", "upper"), ("before", "after"), ("key", "value"),
          ("hop", "window"), ("src", "dst"), ("old", "new"), ("aoef", "soundevent"), ("user", "tag"), ("clip", "recording")]


def counterparts(name):
    """names obtained by exchanging one token of a pair (whole name or an underscore-separated part)"""
    out = []
    parts = name.split("_")
    for a, b in TOKENS:
        for x, y in ((a, b), (b, a)):
            if name == x:
                out.append(y)
            for i, p_ in enumerate(parts):
                if p_ == x and len(parts) > 1:
                    out.append("_".join(parts[:i] + [y] + parts[i + 1:]))
    return out
CMP = {ast.Lt: ast.LtE, ast.LtE: ast.Lt, ast.Gt: ast.GtE, ast.GtE: ast.Gt, ast.Eq: ast.NotEq, ast.NotEq: ast.Eq, ast.Is: ast.IsNot, ast.IsNot: ast.Is,
       ast.In: ast.NotIn, ast.NotIn: ast.In}
FLIP = {ast.Lt: ast.Gt, ast.Gt: ast.Lt, ast.LtE: ast.GtE, ast.GtE: ast.LtE}
SIB_ATTR = {"start_time": "end_time", "end_time": "start_time", "low_freq": "high_freq", "high_freq": "low_freq", "source": "target", "target": "source",
            "annotations": "predictions", "predictions": "annotations", "min": "max", "max": "min", "append": "extend", "extend": "append",
            "floor": "ceil", "ceil": "floor", "start": "stop", "stop": "start", "onset_s": "offset_s", "offset_s": "onset_s", "first": "last",
            "time": "frequency", "frequency": "time", "argmax": "argmin", "any": "all", "all": "any", "sound_events": "sequences"}
SIB_NAME = {"min": "max", "max": "min", "floor": "ceil", "ceil": "floor", "any": "all", "all": "any", "sorted": "list", "int": "round", "round": "int"}
SIB_STR = {"right": "left", "left": "right", "start": "end", "end": "start", "after": "before", "before": "after"}
BIN = {ast.Add: ast.Sub, ast.Sub: ast.Add, ast.Mult: ast.Div, ast.Div: ast.Mult, ast.FloorDiv: ast.Div, ast.Mod: ast.FloorDiv}


def consulted_functions(prop):
    """{relpath: {function line numbers}} of the functions whose summaries the check of `prop` takes on the clean tree"""
    mod = importlib.import_module(f"rules.{prop.lower()}")
    ctx = Ctx(prop, Index(ROOT), "quick")
    run_rules(mod, ctx, prop)
    out = {}
    for sm in ctx.summ._cache.values():
        if isinstance(sm.node, (ast.FunctionDef, ast.AsyncFunctionDef)):
            out.setdefault(sm.module.relpath, set()).add((sm.node.name, sm.node.lineno))
    return out


def mutants_of(src, wanted):
    """yield (description, new source) for every mutation point inside the wanted functions"""
    tree = ast.parse(src)
    funcs = [n for n in ast.walk(tree) if isinstance(n, (ast.FunctionDef, ast.AsyncFunctionDef)) and (n.name, n.lineno) in wanted]
    if ROUND4:
        # special cases on a point value of a parameter, as the first statement of the function: a rejection, an answer of None
        # (a generator: nothing), the parameter replaced -- false on every sample point a rule evaluates, true for one valid request
        lines = src.split("\n")
        for fn in funcs:
            body0 = fn.body[1] if (isinstance(fn.body[0], ast.Expr) and isinstance(getattr(fn.body[0], "value", None), ast.Constant)
                                   and isinstance(fn.body[0].value.value, str) and len(fn.body) > 1) else fn.body[0]
            ind = " " * body0.col_offset
            is_gen = any(isinstance(x, (ast.Yield, ast.YieldFrom)) for x in ast.walk(fn))
            for a in fn.args.args + fn.args.kwonlyargs:
                if a.arg in ("self", "cls"):
                    continue
                for kind, stmt in (("guard", "raise ValueError('unsupported')"), ("shortcut", "return" if is_gen else "return None"), ("special", f"{a.arg} = {a.arg} * 2")):
                    new = list(lines)
                    new.insert(body0.lineno - 1, f"{ind}if {a.arg} == 12345:\n{ind}    {stmt}")
                    yield f"{fn.name}:{fn.lineno} {kind}: if {a.arg} == 12345: {stmt}", "\n".join(new)
        return
    points = []
    fn_names = {}
    all_attrs = {n.attr for n in ast.walk(tree) if isinstance(n, ast.Attribute)}
    for fn in funcs:
        nm = set()
        for n in ast.walk(fn):
            if isinstance(n, ast.Name):
                nm.add(n.id)
            elif isinstance(n, ast.arg):
                nm.add(n.arg)
        fn_names[fn.name] = nm
    for fn in funcs:
        doc = ast.get_docstring(fn)
        for node in ast.walk(fn):
            if isinstance(node, ast.Expr) and isinstance(node.value, ast.Constant) and isinstance(node.value.value, str):
                continue
            if ROUND3:
                if isinstance(node, ast.Name) and isinstance(node.ctx, ast.Load):
                    for cp in counterparts(node.id):
                        if cp in fn_names[fn.name] and cp != node.id:
                            points.append((fn.name, node, ("sibvar", cp)))
                            break
                if isinstance(node, ast.Attribute) and isinstance(node.ctx, ast.Load):
                    for cp in counterparts(node.attr):
                        if cp in all_attrs:
                            points.append((fn.name, node, ("sibattr3", cp)))
                            break
                if isinstance(node, ast.Tuple) and isinstance(node.ctx, ast.Load) and len(node.elts) >= 2 and ast.unparse(node.elts[0]) != ast.unparse(node.elts[1]):
                    points.append((fn.name, node, "tupleswap"))
                if isinstance(node, ast.BinOp) and isinstance(node.op, (ast.Add, ast.Sub)) and isinstance(node.right, ast.Constant) and node.right.value == 1:
                    points.append((fn.name, node, "dropone"))
                if isinstance(node, ast.keyword) and node.arg is not None:
                    for cp in counterparts(node.arg):
                        points.append((fn.name, node, ("kwname", cp)))
                        break
                continue
            if ROUND2:
                pass
            elif isinstance(node, ast.Compare) and len(node.ops) == 1 and type(node.ops[0]) in CMP:
                points.append((fn.name, node, "cmp"))
            elif isinstance(node, ast.BinOp) and type(node.op) in BIN:
                points.append((fn.name, node, "bin"))
            elif isinstance(node, ast.If):
                points.append((fn.name, node, "negate"))
            elif isinstance(node, ast.Call) and len(node.args) >= 2 and not any(isinstance(a, ast.Starred) for a in node.args[:2]):
                points.append((fn.name, node, "swapargs"))
            elif isinstance(node, ast.Constant) and isinstance(node.value, (int, float)) and not isinstance(node.value, bool):
                points.append((fn.name, node, "const"))
            elif isinstance(node, ast.BoolOp):
                points.append((fn.name, node, "boolop"))
            elif isinstance(node, ast.Subscript) and isinstance(node.slice, ast.Constant) and isinstance(node.slice.value, int):
                points.append((fn.name, node, "index"))
            if ROUND2:
                if isinstance(node, ast.Compare) and len(node.ops) == 1 and type(node.ops[0]) in FLIP:
                    points.append((fn.name, node, "flip"))
                if isinstance(node, ast.Attribute) and node.attr in SIB_ATTR:
                    points.append((fn.name, node, "sibattr"))
                if isinstance(node, ast.Name) and node.id in SIB_NAME and isinstance(node.ctx, ast.Load):
                    points.append((fn.name, node, "sibname"))
                if isinstance(node, ast.Constant) and isinstance(node.value, str) and node.value in SIB_STR:
                    points.append((fn.name, node, "sibstr"))
                if isinstance(node, ast.Call) and node.keywords:
                    for i_, kw_ in enumerate(node.keywords):
                        if kw_.arg is not None:
                            points.append((fn.name, node, ("dropkw", i_)))
                    named = [i_ for i_, kw_ in enumerate(node.keywords) if kw_.arg is not None]
                    if len(named) >= 2:
                        points.append((fn.name, node, ("swapkw", named[0], named[1])))
                if isinstance(node, ast.BoolOp) and len(node.values) >= 2:
                    for i_ in range(len(node.values)):
                        points.append((fn.name, node, ("dropconj", i_)))
                if isinstance(node, ast.Continue):
                    points.append((fn.name, node, "continue2pass"))
                if isinstance(node, ast.UnaryOp) and isinstance(node.op, (ast.Not, ast.USub, ast.Invert)):
                    points.append((fn.name, node, "dropunary"))
                if isinstance(node, ast.Slice) and (node.lower is not None or node.upper is not None):
                    points.append((fn.name, node, "slice"))
                if isinstance(node, ast.IfExp):
                    points.append((fn.name, node, "ifexp"))
                if isinstance(node, ast.comprehension) and node.ifs:
                    points.append((fn.name, node, "dropfilter"))
                if isinstance(node, ast.Return) and node.value is not None and isinstance(node.value, ast.Call) and fn.name != "__init__":
                    pass
                continue
            if isinstance(node, (ast.Expr, ast.AugAssign)) and not (isinstance(node, ast.Expr) and isinstance(node.value, ast.Constant)):
                points.append((fn.name, node, "delete"))
    for k, (fname, node, kind) in enumerate(points):
        t2 = copy.deepcopy(tree)
        # locate the same node in the copy by position in a parallel walk
        twin = None
        for a, b in zip(ast.walk(tree), ast.walk(t2)):
            if a is node:
                twin = b
                break
        if twin is None:
            continue
        desc = None
        if kind == "cmp":
            twin.ops = [CMP[type(twin.ops[0])]()]
            desc = f"{ast.unparse(node)} -> {ast.unparse(twin)}"
        elif kind == "bin":
            twin.op = BIN[type(twin.op)]()
            desc = f"{ast.unparse(node)} -> {ast.unparse(twin)}"
        elif kind == "negate":
            twin.test = ast.UnaryOp(op=ast.Not(), operand=twin.test)
            desc = f"if {ast.unparse(node.test)} -> if not (...)"
        elif kind == "swapargs":
            twin.args[0], twin.args[1] = twin.args[1], twin.args[0]
            if ast.unparse(node) == ast.unparse(twin):
                continue
            desc = f"{ast.unparse(node)[:60]} -> args swapped"
        elif kind == "const":
            v = node.value
            twin.value = (1 if v == 0 else 0) if v in (0, 1) else (v + 1 if isinstance(v, int) else v * 2)
            desc = f"constant {v!r} -> {twin.value!r}"
        elif kind == "boolop":
            twin.op = ast.Or() if isinstance(twin.op, ast.And) else ast.And()
            desc = f"{ast.unparse(node)[:60]} -> and/or swapped"
        elif kind == "index":
            v = node.slice.value
            twin.slice = ast.Constant(value={0: 1, 1: 0, 2: 3, 3: 2, -1: 0}.get(v, v + 1))
            desc = f"{ast.unparse(node)[:50]} -> [{twin.slice.value}]"
        elif isinstance(kind, tuple) and kind[0] == "sibvar":
            twin.id = kind[1]
            desc = f"{node.id} -> {kind[1]}"
        elif isinstance(kind, tuple) and kind[0] == "sibattr3":
            twin.attr = kind[1]
            desc = f"{ast.unparse(node)[:50]} -> .{kind[1]}"
        elif kind == "tupleswap":
            twin.elts[0], twin.elts[1] = twin.elts[1], twin.elts[0]
            desc = f"({ast.unparse(node)[:50]}): first two elements swapped"
        elif kind == "dropone":
            for parent in ast.walk(t2):
                for field, val in ast.iter_fields(parent):
                    if val is twin:
                        setattr(parent, field, twin.left)
                    elif isinstance(val, list) and any(v is twin for v in val):
                        val[[i for i, v in enumerate(val) if v is twin][0]] = twin.left
            desc = f"{ast.unparse(node)[:50]}: the +/- 1 dropped"
        elif isinstance(kind, tuple) and kind[0] == "kwname":
            desc = f"keyword {node.arg}= -> {kind[1]}="
            twin.arg = kind[1]
        elif kind == "flip":
            twin.ops = [FLIP[type(twin.ops[0])]()]
            desc = f"{ast.unparse(node)} -> {ast.unparse(twin)}"
        elif kind == "sibattr":
            twin.attr = SIB_ATTR[twin.attr]
            desc = f"{ast.unparse(node)[:50]} -> .{twin.attr}"
        elif kind == "sibname":
            twin.id = SIB_NAME[twin.id]
            desc = f"{node.id} -> {twin.id}"
        elif kind == "sibstr":
            twin.value = SIB_STR[twin.value]
            desc = f"{node.value!r} -> {twin.value!r}"
        elif isinstance(kind, tuple) and kind[0] == "dropkw":
            dropped = twin.keywords.pop(kind[1])
            desc = f"{ast.unparse(node)[:50]}: keyword {dropped.arg}= dropped"
        elif isinstance(kind, tuple) and kind[0] == "swapkw":
            a_, b_ = twin.keywords[kind[1]], twin.keywords[kind[2]]
            a_.value, b_.value = b_.value, a_.value
            if ast.unparse(node) == ast.unparse(twin):
                continue
            desc = f"{ast.unparse(node)[:50]}: values of {a_.arg}= and {b_.arg}= swapped"
        elif isinstance(kind, tuple) and kind[0] == "dropconj":
            dropped = twin.values.pop(kind[1])
            if len(twin.values) == 1:
                # replace the BoolOp by its remaining operand
                for parent in ast.walk(t2):
                    for field, val in ast.iter_fields(parent):
                        if val is twin:
                            setattr(parent, field, twin.values[0])
                        elif isinstance(val, list) and any(v is twin for v in val):
                            val[[i for i, v in enumerate(val) if v is twin][0]] = twin.values[0]
            desc = f"{ast.unparse(node)[:60]}: operand `{ast.unparse(dropped)[:30]}` dropped"
        elif kind == "continue2pass":
            for parent in ast.walk(t2):
                for field, val in ast.iter_fields(parent):
                    if isinstance(val, list) and any(v is twin for v in val):
                        val[[i for i, v in enumerate(val) if v is twin][0]] = ast.Pass()
            desc = "continue -> pass"
        elif kind == "dropunary":
            for parent in ast.walk(t2):
                for field, val in ast.iter_fields(parent):
                    if val is twin:
                        setattr(parent, field, twin.operand)
                    elif isinstance(val, list) and any(v is twin for v in val):
                        val[[i for i, v in enumerate(val) if v is twin][0]] = twin.operand
            desc = f"{ast.unparse(node)[:50]}: unary operator dropped"
        elif kind == "slice":
            if twin.lower is not None:
                twin.lower = None
            else:
                twin.upper = None
            desc = f"slice {ast.unparse(node)[:30]} -> {ast.unparse(twin)[:30]}"
        elif kind == "ifexp":
            twin.body, twin.orelse = twin.orelse, twin.body
            desc = f"{ast.unparse(node)[:60]}: branches swapped"
        elif kind == "dropfilter":
            twin.ifs = twin.ifs[1:]
            desc = f"comprehension filter `{ast.unparse(node.ifs[0])[:50]}` dropped"
        elif kind == "delete":
            for parent in ast.walk(t2):
                for field, val in ast.iter_fields(parent):
                    if isinstance(val, list) and twin in val:
                        i = val.index(twin)
                        val[i] = ast.Pass()
            desc = f"delete `{ast.unparse(node)[:60]}`"
        ast.fix_missing_locations(t2)
        try:
            new = ast.unparse(t2) + "\n"
            compile(new, "<mutant>", "exec")
        except Exception:  # noqa: BLE001
            continue
        kname = kind if isinstance(kind, str) else kind[0]
        yield f"{fname}:{getattr(node, 'lineno', 0)} {kname}: {desc}", new


def run_one(args):
    prop, rel, desc, new = args
    try:
        mod = importlib.import_module(f"rules.{prop.lower()}")
        ctx = Ctx(prop, Index(ROOT, {rel: new}), "quick")
        run_rules(mod, ctx, prop)
    except AnalysisError as e:
        return rel, desc, "undecided", str(e)[:80]
    except Exception as e:  # noqa: BLE001
        return rel, desc, "error", f"{type(e).__name__}: {e}"[:80]
    known = load_known()
    new_f = [f for f in ctx.findings if not match_known(f, known)]
    und = [u for u in ctx.undecided] + [rid for rid, n in ctx.floors.items() if ctx.count(rid) < n]
    if new_f:
        return rel, desc, "killed", new_f[0].rule
    if und:
        return rel, desc, "undecided", ""
    return rel, desc, "survived", ""


def test_one(args):
    rel, desc, new = args
    d = tempfile.mkdtemp(prefix="mut_", dir="/tmp")
    try:
        for sub in ("src", "tests"):
            shutil.copytree(os.path.join(ROOT, sub), os.path.join(d, sub))
        shutil.copy(os.path.join(ROOT, "pyproject.toml"), d)
        if os.path.isdir(os.path.join(ROOT, "docs")):
            os.symlink(os.path.join(ROOT, "docs"), os.path.join(d, "docs"))
        open(os.path.join(d, rel), "w").write(new)
        r = subprocess.run(["/venv/bin/python", "-m", "pytest", "-q", "-x", "-p", "no:cacheprovider", "--deselect",
                            "tests/test_audio/test_audio.py::test_can_load_clip_from_24_bit_depth_wav", "--deselect", "tests/test_audio/test_io.py::test_audio_to_bytes",
                            "--deselect", "tests/test_audio/test_media_info.py::test_can_read_media_info", "tests"],
                           cwd=d, env=dict(os.environ, PYTHONPATH=os.path.join(d, "src")), capture_output=True, text=True, timeout=600)
        tail = (r.stdout.strip().splitlines() or ["?"])[-1]
        return rel, desc, r.returncode == 0, tail[:80]
    finally:
        shutil.rmtree(d, ignore_errors=True)


def main():
    prop = sys.argv[1]
    mx = int(sys.argv[sys.argv.index("--max") + 1]) if "--max" in sys.argv else 10 ** 9
    funcs = consulted_functions(prop)
    anchors = set(anchor_files(prop))
    jobs = []
    for rel, wanted in sorted(funcs.items()):
        if rel not in anchors:
            continue
        src = open(os.path.join(ROOT, rel)).read()
        for desc, new in mutants_of(src, wanted):
            jobs.append((prop, rel, desc, new))
    jobs = jobs[:mx]
    with ProcessPoolExecutor(16) as ex:
        res = list(ex.map(run_one, jobs, chunksize=4))
    tally = {}
    for r in res:
        tally[r[2]] = tally.get(r[2], 0) + 1
    print(prop, "mutants:", len(jobs), tally)
    surv = [(j, r) for j, r in zip(jobs, res) if r[2] == "survived"]
    if "--tests" in sys.argv and surv:
        with ProcessPoolExecutor(12) as ex:
            tr = list(ex.map(test_one, [(j[1], j[2], j[3]) for j, _ in surv]))
        passing = [t for t in tr if t[2]]
        print(f"{prop} survivors: {len(surv)}, of which {len(passing)} pass the unedited test-suite:")
        for rel, desc, ok, tail in passing:
            print("  CANDIDATE", rel, desc)
    else:
        for j, r in surv:
            print("  survived", j[1], j[2])


if __name__ == "__main__":
    main()
