#!/venv/bin/python
"""tools/seed_one.py <Cnn> <seeded id>...   -- run the check of Cnn on /repo + the stored change and print findings / undecided in full."""
import importlib
import os
import sys

VERIF = os.path.dirname(os.path.dirname(os.path.abspath(__file__)))
sys.path.insert(0, VERIF)
from sa.cli import run_rules  # noqa: E402
from sa.index import AnalysisError, Index  # noqa: E402
from sa.report import Ctx, load_known, match_known  # noqa: E402
from selftest.harness import apply_patch  # noqa: E402

prop = sys.argv[1]
for name in sys.argv[2:]:
    overlay = apply_patch("/repo", open(os.path.join(VERIF, "seeded", name, "patch.diff"), encoding="utf-8").read())
    print("==", name, "stale" if overlay is None else sorted(overlay))
    if overlay is None:
        continue
    ctx = Ctx(prop, Index("/repo", overlay), "quick")
    try:
        run_rules(importlib.import_module(f"rules.{prop.lower()}"), ctx, prop)
    except AnalysisError as e:
        print("  ANALYSIS", e.rule, e.site, e)
        continue
    known = load_known()
    for f in ctx.findings:
        if not match_known(f, known):
            print("  FINDING", f.rule, f.func, "|", f.construct[:80], "|", f.message[:300])
    for u in ctx.undecided:
        print("  UNDEC", u.rule, u.site, u.reason[:300])
    for rid, n in ctx.floors.items():
        if ctx.count(rid) < n:
            print("  VACUITY", rid, ctx.count(rid), "<", n)
