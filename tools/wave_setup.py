#!/venv/bin/python
"""tools/wave_setup.py <agents.json> <wave dir>  -- for every agent of the file ({id, prop, places, style, defects}) create the scratch
worktree <wave dir>/<id> of /repo (detached HEAD) and the brief <wave dir>/<id>.full.txt from tools/wave9_brief.txt (or tools/$BRIEF); the property part
of a brief is the property's title, statement and quantifier text from /verif/properties.jsonl -- nothing else of /verif reaches an agent.
Afterwards: tools/wave_eval.py (see there), `git -C /repo worktree remove --force <dir>` for every worktree, `git -C /repo worktree prune`."""
import json, os, subprocess, sys
VERIF = os.path.dirname(os.path.dirname(os.path.abspath(__file__)))
agents = json.load(open(sys.argv[1]))
wd = sys.argv[2]
os.makedirs(wd, exist_ok=True)
props = {json.loads(l)["id"]: json.loads(l) for l in open(os.path.join(VERIF, "properties.jsonl"))}
tmpl = open(os.path.join(VERIF, "tools", os.environ.get("BRIEF", "wave9_brief.txt"))).read()
for a in agents:
    wt = os.path.join(wd, a["id"])
    if not os.path.isdir(wt):
        subprocess.run(["git", "-C", "/repo", "worktree", "add", "--detach", wt, "HEAD"], check=True, capture_output=True)
    p = props[a["prop"]]
    text = f"{p['title']}.\n\n{p['statement']}\n\nThis must hold {p['quantifier']['text']}."
    brief = tmpl.replace("{WT}", wt).replace("{PROPERTY}", text).replace("{STYLE}", a["style"]).replace("{DEFECTS}", a["defects"]).replace("{PLACES}", a["places"])
    open(os.path.join(wd, a["id"] + ".full.txt"), "w").write(brief)
    print(a["id"], a["prop"], wt)
