#!/bin/bash
# run all 20 checks at a tier (default thorough) in parallel without touching evidence; print the summary lines
T=${1:-thorough}
seq -w 1 20 | xargs -P 10 -I{} sh -c "/verif/check C{} --tier $T --no-evidence > /tmp/runall_C{}.txt 2>&1; echo C{} \$? \$(grep -E 'self-test' /tmp/runall_C{}.txt | cut -c1-150)" | sort
