"""F17: with freq_buffer=0 buffer_shapely_geometry scales frequencies by a constant before the unit buffer; with 1e9 the
scaled ordinates near the top of the valid range (MAX_FREQUENCY = 5e6 -> 5e15) are more than one unit apart as doubles,
the unit circle collapses, and the result is narrower than requested IN TIME.  Repaired by scaling with 1e7."""
from soundevent import data
from soundevent.geometry import buffer_geometry, compute_bounds
for f in (1e3, 1e6, 2.6e6, 4.0e6, 4.9e6):
    b = compute_bounds(buffer_geometry(data.Point(coordinates=[10.0, f]), time_buffer=1.0, freq_buffer=0))
    ok = b[0] <= 9.0 and b[2] >= 11.0
    print(f"F17 Point(10 s, {f:g} Hz), time_buffer=1, freq_buffer=0 -> time bounds [{b[0]:.6f}, {b[2]:.6f}]", "OK" if ok else "SHORT")
