"""K01 (known finding, not repaired): clip_classification and clip_multilabel_classification wrap each clip's result in
data.ClipEvaluation(annotations=<the whole ClipAnnotation>, predictions=<the whole ClipPrediction>) without matches, while
ClipEvaluation's validator requires every annotated and predicted sound event of those objects to appear in a match.  For a clip
whose annotation (or prediction) also carries sound events -- the normal case for annotated data -- the task raises a
ValidationError instead of returning the clip-level metrics.  A repair needs a design decision (emit one-sided matches for the
sound events, or evaluate copies without sound events, or relax the validator), so it is recorded, not repaired."""
import sys
from pathlib import Path

from soundevent import data
from soundevent.evaluation import clip_classification, clip_multilabel_classification

tags = [data.Tag(term=data.term_from_key("species"), value=v) for v in ("a", "b", "c")]
rec = data.Recording(path=Path("r.wav"), duration=10, channels=1, samplerate=8000)
clip = data.Clip(recording=rec, start_time=0, end_time=1)
se = data.SoundEventAnnotation(sound_event=data.SoundEvent(recording=rec, geometry=data.TimeInterval(coordinates=[0.1, 0.2])))
ann = data.ClipAnnotation(clip=clip, tags=[tags[0]], sound_events=[se])
pred = data.ClipPrediction(clip=clip, tags=[data.PredictedTag(tag=tags[0], score=0.9)])
bad = 0
for task in (clip_classification, clip_multilabel_classification):
    try:
        ev = task([pred], [ann], tags)
        print("OK   ", task.__name__, "score", ev.score)
    except Exception as e:  # noqa: BLE001
        bad += 1
        print("WRONG", task.__name__, "->", type(e).__name__, str(e).splitlines()[1].strip() if len(str(e).splitlines()) > 1 else e,
              "| required: the clip-level metrics (the task reads clip tags only)")
sys.exit(1 if bad else 0)
