"""F15: extend_dim_width / adjust_dim_width can return width + 1 samples (float np.arange with computed stop)."""
import numpy as np, xarray as xr
from soundevent.arrays import create_range_dim
from soundevent.arrays.operations import adjust_dim_width
t = create_range_dim("time", 0, 0.1, step=0.01)
arr = xr.DataArray(np.ones(t.size), dims=["time"], coords={"time": t})
bad = []
for w in range(t.size + 1, 60):
    for pos in ("start", "center", "end"):
        out = adjust_dim_width(arr, "time", w, position=pos)
        if out.sizes["time"] != w:
            bad.append((w, pos, out.sizes["time"]))
print("F15 wrong widths:", len(bad), "of", 3 * (60 - t.size - 1), "requests; first:", bad[:2], "OK" if not bad else "WIDTH-MISMATCH")
