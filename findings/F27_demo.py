"""F27: create_range_dim read `coords[-1]` of the np.arange it had just built without checking that it is non-empty.  For a range
shorter than half a step -- create_range_dim("x", 0, 0, 1), create_time_range(1.0, 1.0, samplerate=44100), and through load_clip a
clip shorter than one sample -- that raised IndexError where an axis with zero coordinates (zero frames) is the answer.
Repaired: the trailing-element test is guarded by `coords.size > 0`."""
import sys
import tempfile
from pathlib import Path

import numpy as np
import soundfile as sf

from soundevent import audio, data
from soundevent.arrays import create_range_dim, create_time_range

bad = 0
for label, fn in (("create_range_dim('x', 0, 0, 1)", lambda: create_range_dim("x", 0, 0, 1)),
                  ("create_time_range(1.0, 1.0, samplerate=44100)", lambda: create_time_range(1.0, 1.0, samplerate=44100)),
                  ("create_range_dim('x', 0, 0.4, 1)", lambda: create_range_dim("x", 0, 0.4, 1))):
    try:
        v = fn()
        ok = v.attrs.get("step") is not None and v.size in (0, 1)
        print("OK   " if ok else "WRONG", label, "->", v.size, "coordinate(s), step", v.attrs.get("step"))
    except Exception as e:  # noqa: BLE001
        ok = False
        print("WRONG", label, "->", type(e).__name__, e, "| required: an axis (with zero coordinates)")
    bad += not ok
try:
    wav = Path(tempfile.mkdtemp()) / "a.wav"
    sf.write(wav, np.zeros(20), 10)
    rec = data.Recording.from_file(wav)
    clip = data.Clip(recording=rec, start_time=0.5, end_time=0.55)
    arr = audio.load_clip(clip)
    ok = arr.sizes["time"] == 0
    print("OK   " if ok else "WRONG", "load_clip(clip of 0.05 s at 10 Hz) ->", arr.sizes["time"], "frames | required floor(0.05 * 10) = 0")
except Exception as e:  # noqa: BLE001
    ok = "Format not recognised" in str(e) or "LibsndfileError" in type(e).__name__
    print("SKIP " if ok else "WRONG", "load_clip:", type(e).__name__, str(e)[:80])
bad += not ok
sys.exit(1 if bad else 0)
