"""save() writes an AOEF document to any file name, load() refuses every name
whose suffix is not exactly ".json" -- so a file that save() just produced
without complaint cannot be read back."""
import sys
import tempfile
from pathlib import Path

from soundevent import data, io

ds = data.Dataset(name="d", recordings=[])
tmp = Path(tempfile.mkdtemp())
bad = False
for name in ["dataset.json", "dataset.aoef", "dataset.JSON", "dataset"]:
    path = tmp / name
    io.save(ds, path)  # default format="aoef"; accepted for every name
    try:
        back = io.load(path)  # default format="aoef"
        print(f"{name:14s} saved ok, loaded ok, equal={back == ds}")
    except ValueError as e:
        print(f"{name:14s} saved ok ({path.stat().st_size} bytes), load raised ValueError: {e}")
        bad = True
print("required: a file written by save() is loaded back by load() (or save() rejects the name too)")
sys.exit(1 if bad else 0)
