"""The AOEF file is written/read with the *locale* encoding (Path.write_text /
read_text without encoding=), not UTF-8.  Under a non-UTF-8 locale (the default
on Windows: cp1252; here simulated with LC_ALL=C and UTF-8 mode off) a
collection with non-ASCII text cannot be saved at all, and where the locale can
encode it the file is not UTF-8 JSON and is unreadable on another machine."""
import os
import subprocess
import sys
import tempfile
from pathlib import Path

CHILD = r'''
import locale, sys
from pathlib import Path
from soundevent import data, io
print("  locale encoding:", locale.getpreferredencoding(False), "| utf8_mode:", sys.flags.utf8_mode)
ds = data.Dataset(name="Grabaci\u00f3n \u65e5\u672c\u8a9e", recordings=[])  # "Grabacion" with o-acute + 3 kanji
path = Path(sys.argv[1])
try:
    io.save(ds, path)
except Exception as e:
    print("  save raised", type(e).__name__ + ":", ascii(str(e))); sys.exit(1)
back = io.load(path)
print("  round trip equal:", back == ds); sys.exit(0 if back == ds else 1)
'''

tmp = Path(tempfile.mkdtemp())
results = {}
for label, extra in [
    ("UTF-8 locale (control)", {"PYTHONUTF8": "1"}),
    ("non-UTF-8 locale", {"LC_ALL": "C", "LANG": "C", "PYTHONUTF8": "0", "PYTHONCOERCECLOCALE": "0"}),
]:
    env = dict(os.environ, **extra)
    print(label)
    p = subprocess.run([sys.executable, "-c", CHILD, str(tmp / "ds.json")], env=env, text=True,
                       capture_output=True, encoding="utf-8", errors="replace")
    print(p.stdout.rstrip() or p.stderr[-400:])
    results[label] = p.returncode
print("required: the same dataset round-trips regardless of the process locale (JSON text is UTF-8)")
sys.exit(1 if results["non-UTF-8 locale"] != 0 and results["UTF-8 locale (control)"] == 0 else 0)
