"""Aware timestamps whose UTC offset is not a whole number of minutes come back
shifted: the offset is written as +HH:MM only, so the instant moves by up to
59 s.  Such offsets are what zoneinfo yields for local-mean-time eras, e.g.
Europe/Amsterdam before 1937 (+00:19:32) or Asia/Kolkata before 1906."""
import datetime as dt
import json
import sys
import tempfile
from pathlib import Path

from soundevent import data, io

tz = dt.timezone(dt.timedelta(minutes=19, seconds=32))  # Amsterdam mean time
stamp = dt.datetime(1936, 5, 1, 6, 0, 0, tzinfo=tz)
rec = data.Recording(
    path="wax_cylinder.wav", duration=60, channels=1, samplerate=8000,
    date=stamp.date(), time=stamp.timetz(),
    notes=[data.Note(message="digitised", created_on=stamp)],
)
ds = data.Dataset(name="archive", recordings=[rec], created_on=stamp)

path = Path(tempfile.mkdtemp()) / "ds.json"
io.save(ds, path)
back = io.load(path, type="dataset")
doc = json.loads(path.read_text())["data"]
print("on disk   :", doc["created_on"], "|", doc["recordings"][0]["time"])
bad = False
for label, a, b in [
    ("dataset.created_on", ds.created_on, back.created_on),
    ("note.created_on   ", rec.notes[0].created_on, back.recordings[0].notes[0].created_on),
    ("recording.time    ", rec.time, back.recordings[0].time),
]:
    same = a == b
    print(f"{label}: saved {a.isoformat()}  loaded {b.isoformat()}  equal={same}")
    bad |= not same
print("shift of the instant:", back.created_on - ds.created_on)
print("required: every timestamp equal after the round trip")
sys.exit(1 if bad or back != ds else 0)
