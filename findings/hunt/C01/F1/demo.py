"""Evaluation.clip_evaluations: a repeated entry is collapsed by save/load.

Every other list of every collection keeps repeated entries
(AnnotationSet.clip_annotations, PredictionSet.clip_predictions,
RecordingSet.recordings, AnnotationProject.tasks, ...); only the
evaluation's own list is written through the adapter's de-duplicated store.
"""
import sys
import tempfile
from pathlib import Path

from soundevent import data, io

rec = data.Recording(path="a.wav", duration=1, channels=1, samplerate=8000)
clip = data.Clip(recording=rec, start_time=0, end_time=1)


def clip_evaluation():
    return data.ClipEvaluation(
        annotations=data.ClipAnnotation(clip=clip),
        predictions=data.ClipPrediction(clip=clip),
    )


a, b = clip_evaluation(), clip_evaluation()
tmp = Path(tempfile.mkdtemp())
bad = False

# control: the analogous lists of the other collections keep the repetition
ann = data.AnnotationSet(clip_annotations=[a.annotations, b.annotations, a.annotations])
io.save(ann, tmp / "ann.json")
print("annotation_set  [A, B, A] ->", len(io.load(tmp / "ann.json").clip_annotations), "items (control)")
prd = data.PredictionSet(clip_predictions=[a.predictions, b.predictions, a.predictions])
io.save(prd, tmp / "prd.json")
print("prediction_set  [A, B, A] ->", len(io.load(tmp / "prd.json").clip_predictions), "items (control)")

ev = data.Evaluation(evaluation_task="t", clip_evaluations=[a, b, a])
io.save(ev, tmp / "ev.json")
back = io.load(tmp / "ev.json", type="evaluation")
print("evaluation      [A, B, A] ->", len(back.clip_evaluations), "items:",
      [("A" if c.uuid == a.uuid else "B") for c in back.clip_evaluations])
print("required: 3 items [A, B, A] (list order and length are part of the round trip)")
if back != ev or [c.uuid for c in back.clip_evaluations] != [a.uuid, b.uuid, a.uuid]:
    print("VIOLATION: loaded evaluation differs from the saved one")
    bad = True
sys.exit(1 if bad else 0)
