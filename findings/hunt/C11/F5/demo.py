"""The round end caps are 8-segment-per-quadrant polygons whose vertices are
placed relative to the line direction, so an oblique line is extended by a
little less than the requested buffer on every side."""
import sys
import warnings

warnings.simplefilter("ignore")
from soundevent import data
from soundevent.geometry import buffer_geometry, compute_bounds

line = data.LineString(coordinates=[[1, 1000], [2, 1100]])
t0, f0, t1, f1 = compute_bounds(buffer_geometry(line, time_buffer=1, freq_buffer=1000))
print("input :", line.coordinates, "time_buffer=1 freq_buffer=1000")
print("observed bounds:", (t0, f0, t1, f1))
print("required bounds: start <= 0, low <= 0, end >= 3.0, high >= 2100")
short = max(t0 / 1, f0 / 1000, (3.0 - t1) / 1, (2100 - f1) / 1000)
print("largest shortfall relative to the buffer: %.4f" % short)
sys.exit(1 if short > 1e-3 else 0)
