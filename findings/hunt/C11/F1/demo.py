"""buffer_geometry crashes with KeyError on an ordinary ultrasonic LineString
when only a time buffer is requested (freq_buffer left at its default 0)."""
import sys
import warnings

warnings.simplefilter("ignore")
from soundevent import data
from soundevent.geometry import buffer_geometry

line = data.LineString(coordinates=[[0.1, 1000], [0.5, 100], [1.0, 100_000]])
print("input :", line.coordinates, "time_buffer=0.5, freq_buffer=0 (default)")
print("required: a valid Polygon/MultiPolygon containing the line, "
      "time bounds [0, 1.5]")
try:
    out = buffer_geometry(line, time_buffer=0.5)
except Exception as err:  # documented: ValueError (negative), NotImplementedError
    print("observed:", type(err).__name__, err)
    sys.exit(1)
print("observed:", out.type, "- no crash")
sys.exit(0)
