"""A larger frequency buffer gives a result that is NOT a superset of the
smaller one (mitre joins in the anisotropically scaled space)."""
import sys
import warnings

warnings.simplefilter("ignore")
from soundevent import data
from soundevent.geometry import buffer_geometry
from soundevent.geometry.conversion import geometry_to_shapely

poly = data.Polygon(coordinates=[[[1, 1000], [2, 2000], [4, 4100]]])
small = geometry_to_shapely(buffer_geometry(poly, time_buffer=0.1, freq_buffer=500))
large = geometry_to_shapely(buffer_geometry(poly, time_buffer=0.1, freq_buffer=5000))
print("input :", poly.coordinates)
print("bounds with (0.1 s,  500 Hz):", small.bounds)
print("bounds with (0.1 s, 5000 Hz):", large.bounds)
outside = small.difference(large)
print("part of the small result outside the large one: area", outside.area,
      "bounds", outside.bounds if not outside.is_empty else None)
print("required: the (0.1, 5000) result covers the (0.1, 500) result")
violated = small.bounds[0] < large.bounds[0] - 1e-3 or small.bounds[2] > large.bounds[2] + 1e-3
sys.exit(1 if violated else 0)
