"""Same pipeline as F1, but instead of crashing it silently returns a coarse,
grid-snapped polygon: the original is not contained / the bounds fall short."""
import sys
import warnings

warnings.simplefilter("ignore")
from shapely.geometry import Point
from soundevent import data
from soundevent.geometry import buffer_geometry, compute_bounds
from soundevent.geometry.conversion import geometry_to_shapely

bad = False

# (a) containment lost
line = data.LineString(coordinates=[[0.1, 1000], [0.5, 100], [2.0, 100_000]])
out = buffer_geometry(line, time_buffer=0.5)
shp = geometry_to_shapely(out)
print("(a) input", line.coordinates, "time_buffer=0.5")
print("    result bounds (t0, f0, t1, f1):", shp.bounds)
print("    required: contains every vertex; time bounds [0, 2.5]")
for vertex in line.coordinates:
    inside = shp.covers(Point(vertex))
    print("    vertex", vertex, "inside result:", inside)
    bad |= not inside

# (b) audible-range line touching 0 Hz: end bound short by 40 % of the buffer
line = data.LineString(coordinates=[[0.2, 50_000], [0.3, 0], [1.2, 1000]])
out = buffer_geometry(line, time_buffer=0.5)
t0, f0, t1, f1 = compute_bounds(out)
print("(b) input", line.coordinates, "time_buffer=0.5")
print("    result time bounds:", (t0, t1), " required: end >= 1.2 + 0.5 = 1.7")
bad |= t1 < 1.7 - 1e-6

sys.exit(1 if bad else 0)
