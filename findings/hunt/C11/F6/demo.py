"""A zero buffer is implemented as a 1e-7 buffer, so it is LARGER than any
positive buffer below 1e-7: monotonicity breaks between 0 and tiny buffers."""
import sys
import warnings

warnings.simplefilter("ignore")
from soundevent import data
from soundevent.geometry import buffer_geometry
from soundevent.geometry.conversion import geometry_to_shapely

point = data.Point(coordinates=[1, 1000])
zero = geometry_to_shapely(buffer_geometry(point, time_buffer=0, freq_buffer=0))
tiny = geometry_to_shapely(buffer_geometry(point, time_buffer=1e-9, freq_buffer=1e-9))
print("buffer (0, 0)       bounds:", zero.bounds)
print("buffer (1e-9, 1e-9) bounds:", tiny.bounds)
print("required: the (1e-9, 1e-9) result covers the (0, 0) result")
print("observed: covers =", tiny.covers(zero))
sys.exit(0 if tiny.covers(zero) else 1)
