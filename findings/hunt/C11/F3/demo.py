"""A LineString that retraces itself (allowed: times are only required to be
non-decreasing) gets no buffer beyond its turning point."""
import sys
import warnings

warnings.simplefilter("ignore")
from soundevent import data
from soundevent.geometry import buffer_geometry, compute_bounds

line = data.LineString(coordinates=[[1, 1000], [1, 2000], [1, 500]])
out = buffer_geometry(line, time_buffer=0.1, freq_buffer=100)
t0, f0, t1, f1 = compute_bounds(out)
print("input :", line.coordinates, "time_buffer=0.1 freq_buffer=100")
print("observed bounds:", (t0, f0, t1, f1))
print("required bounds: at least (0.9, 400, 1.1, 2100)")
sys.exit(1 if f1 < 2100 - 1e-6 else 0)
