"""Polygons that data.Polygon accepts but that are not simple (bow-tie) or have
zero area (collinear ring) lose part of themselves when buffered."""
import sys
import warnings

warnings.simplefilter("ignore")
from shapely.geometry import Point
from soundevent import data
from soundevent.geometry import buffer_geometry
from soundevent.geometry.conversion import geometry_to_shapely

bad = False
for name, ring in (
    ("bow-tie  ", [[0, 0], [2, 2], [2, 0], [0, 2]]),
    ("collinear", [[1, 1], [2, 2], [3, 3]]),
):
    poly = data.Polygon(coordinates=[ring])
    shp = geometry_to_shapely(buffer_geometry(poly, time_buffer=0.1, freq_buffer=0.1))
    print(name, ring, "-> bounds", shp.bounds)
    for vertex in ring:
        inside = shp.covers(Point(vertex))
        print("   vertex", vertex, "inside buffered result:", inside)
        bad |= not inside
print("required: every vertex of the original lies inside the buffered geometry")
sys.exit(1 if bad else 0)
