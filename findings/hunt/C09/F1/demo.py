"""F1: an unlabelled item whose predicted scores sum to 1 crashes the single-label tasks."""
import sys
import warnings
from pathlib import Path

from soundevent import data
from soundevent.evaluation import (
    clip_classification,
    sound_event_classification,
    sound_event_detection,
)

warnings.simplefilter("ignore")

rec = data.Recording(path=Path("rec.wav"), duration=10.0, channels=1, samplerate=44100)
clip = data.Clip(recording=rec, start_time=0.0, end_time=1.0)
tags = [data.Tag(key="species", value=v) for v in ("a", "b", "c")]
scores = [0.33, 0.6, 0.07]  # 0.33 + 0.6 + 0.07 <= 1 (0.9999999999999999 in float64)
assert sum(scores) <= 1
predicted = [data.PredictedTag(tag=t, score=s) for t, s in zip(tags, scores)]
sound_event = data.SoundEvent(
    recording=rec, geometry=data.TimeInterval(coordinates=[0.1, 0.5])
)

# the item carries no tag of the vocabulary -> it belongs to the 'none' class,
# its true-class probability is 1 - sum(scores) = 0 (up to rounding)
annotations = [
    data.ClipAnnotation(
        clip=clip,
        tags=[],
        sound_events=[data.SoundEventAnnotation(sound_event=sound_event, tags=[])],
    )
]
predictions = [
    data.ClipPrediction(
        clip=clip,
        tags=predicted,
        sound_events=[
            data.SoundEventPrediction(sound_event=sound_event, score=0.9, tags=predicted)
        ],
    )
]
clip_only_annotations = [data.ClipAnnotation(clip=clip, tags=[])]
clip_only_predictions = [data.ClipPrediction(clip=clip, tags=predicted)]

failed = False
for task, pred, ann in (
    (clip_classification, clip_only_predictions, clip_only_annotations),
    (sound_event_classification, predictions, annotations),
    (sound_event_detection, predictions, annotations),
):
    try:
        evaluation = task(pred, ann, tags)
        print(task.__name__, "ok:", [(m.term.label, m.value) for m in evaluation.metrics])
    except Exception as error:  # noqa: BLE001
        failed = True
        print(task.__name__, "raised", type(error).__name__, ":", str(error).splitlines()[2].strip())

print("required: an evaluation whose metrics are accuracy 0.0 (the item is 'none', "
      "predicted 'b'), true class probability ~0.0")
sys.exit(1 if failed else 0)
