"""F5: the clip-level tasks crash when the evaluated clips also carry sound events."""
import sys
import warnings
from pathlib import Path

from soundevent import data
from soundevent.evaluation import clip_classification, clip_multilabel_classification

warnings.simplefilter("ignore")

rec = data.Recording(path=Path("rec.wav"), duration=10.0, channels=1, samplerate=44100)
clip = data.Clip(recording=rec, start_time=0.0, end_time=1.0)
tags = [data.Tag(key="species", value=v) for v in ("a", "b")]
event = data.SoundEvent(recording=rec, geometry=data.TimeInterval(coordinates=[0.1, 0.5]))

annotations = [
    data.ClipAnnotation(
        clip=clip,
        tags=[tags[0]],
        # an ordinary annotated clip: clip-level tag plus an annotated sound event
        sound_events=[data.SoundEventAnnotation(sound_event=event, tags=[tags[0]])],
    )
]
predictions = [
    data.ClipPrediction(
        clip=clip,
        tags=[data.PredictedTag(tag=tags[0], score=0.9), data.PredictedTag(tag=tags[1], score=0.1)],
    )
]

failed = False
for task in (clip_classification, clip_multilabel_classification):
    try:
        evaluation = task(predictions, annotations, tags)
        print(task.__name__, "ok:", [(m.term.label, m.value) for m in evaluation.metrics])
    except Exception as error:  # noqa: BLE001
        failed = True
        print(task.__name__, "raised", type(error).__name__, ":", str(error).splitlines()[1].strip()[:90])

print("required: the clip-level metrics (Accuracy 1.0 ... / Mean Average Precision) computed "
      "from the clip tags and predicted clip tag scores; sound events are irrelevant to these tasks")
sys.exit(1 if failed else 0)
