"""F2: a vocabulary with a single tag crashes all four evaluation tasks."""
import sys
import warnings
from pathlib import Path

from soundevent import data
from soundevent.evaluation import (
    clip_classification,
    clip_multilabel_classification,
    sound_event_classification,
    sound_event_detection,
)

warnings.simplefilter("ignore")

rec = data.Recording(path=Path("rec.wav"), duration=10.0, channels=1, samplerate=44100)
clips = [data.Clip(recording=rec, start_time=i, end_time=i + 1.0) for i in range(2)]
bat = data.Tag(key="species", value="bat")
vocabulary = [bat]
events = [
    data.SoundEvent(recording=rec, geometry=data.TimeInterval(coordinates=[i + 0.1, i + 0.5]))
    for i in range(2)
]
truth = [[bat], []]  # first item is a bat, second is not
scores = [0.7, 0.2]  # both predicted correctly (0.7 > 0.3 'none', 0.2 < 0.8 'none')

clip_annotations = [data.ClipAnnotation(clip=c, tags=t) for c, t in zip(clips, truth)]
clip_predictions = [
    data.ClipPrediction(clip=c, tags=[data.PredictedTag(tag=bat, score=s)])
    for c, s in zip(clips, scores)
]
se_annotations = [
    data.ClipAnnotation(
        clip=c, sound_events=[data.SoundEventAnnotation(sound_event=e, tags=t)]
    )
    for c, e, t in zip(clips, events, truth)
]
se_predictions = [
    data.ClipPrediction(
        clip=c,
        sound_events=[
            data.SoundEventPrediction(
                sound_event=e, score=0.9, tags=[data.PredictedTag(tag=bat, score=s)]
            )
        ],
    )
    for c, e, s in zip(clips, events, scores)
]

failed = False
for task, pred, ann in (
    (clip_classification, clip_predictions, clip_annotations),
    (clip_multilabel_classification, clip_predictions, clip_annotations),
    (sound_event_classification, se_predictions, se_annotations),
    (sound_event_detection, se_predictions, se_annotations),
):
    try:
        evaluation = task(pred, ann, vocabulary)
        print(task.__name__, "ok:", [(m.term.label, m.value) for m in evaluation.metrics])
    except Exception as error:  # noqa: BLE001
        failed = True
        print(task.__name__, "raised", type(error).__name__, ":", str(error)[:100])

print("required: Accuracy 1.0, Balanced Accuracy 1.0, Top 3 Accuracy 1.0 (two classes: "
      "'bat' and 'none'), Mean Average Precision 1.0, Jaccard Index 1.0 / 0 per clip")
sys.exit(1 if failed else 0)
