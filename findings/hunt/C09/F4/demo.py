"""F4: Accuracy 1.0 together with Top 3 Accuracy 0.0 on the same item (tied scores)."""
import sys
import warnings
from pathlib import Path

from soundevent import data
from soundevent.evaluation import clip_classification

warnings.simplefilter("ignore")

rec = data.Recording(path=Path("rec.wav"), duration=10.0, channels=1, samplerate=44100)
clip = data.Clip(recording=rec, start_time=0.0, end_time=1.0)
tags = [data.Tag(key="species", value=v) for v in ("a", "b", "c", "d")]

# an uninformative model: the same score for every class
annotations = [data.ClipAnnotation(clip=clip, tags=[tags[0]])]
predictions = [
    data.ClipPrediction(
        clip=clip, tags=[data.PredictedTag(tag=t, score=0.25) for t in tags]
    )
]
evaluation = clip_classification(predictions, annotations, tags)
metrics = {m.term.label: m.value for m in evaluation.metrics}
print("observed:", metrics)
print("required: Top 3 Accuracy >= Accuracy for any independent definition "
      "(a class that is the top-1 prediction is among the top 3)")
sys.exit(1 if metrics["Top 3 Accuracy"] < metrics["Accuracy"] else 0)
