"""F3: sound_event_detection crashes when no evaluated item carries a vocabulary tag."""
import sys
import warnings
from pathlib import Path

from soundevent import data
from soundevent.evaluation import sound_event_classification, sound_event_detection

warnings.simplefilter("ignore")

rec = data.Recording(path=Path("rec.wav"), duration=10.0, channels=1, samplerate=44100)
clip = data.Clip(recording=rec, start_time=0.0, end_time=1.0)
tags = [data.Tag(key="species", value=v) for v in ("a", "b", "c")]
event = data.SoundEvent(recording=rec, geometry=data.TimeInterval(coordinates=[0.1, 0.5]))

# one clip without annotated sound events, the model predicted one (a false positive)
annotations = [data.ClipAnnotation(clip=clip, sound_events=[])]
predictions = [
    data.ClipPrediction(
        clip=clip,
        sound_events=[
            data.SoundEventPrediction(
                sound_event=event,
                score=0.9,
                tags=[data.PredictedTag(tag=tags[0], score=0.8)],
            )
        ],
    )
]

failed = False
try:
    evaluation = sound_event_detection(predictions, annotations, tags)
    print("false positive only:", [(m.term.label, m.value) for m in evaluation.metrics])
except Exception as error:  # noqa: BLE001
    failed = True
    print("false positive only: raised", type(error).__name__, ":", str(error)[:110])

# same with a matched pair whose annotation has no tag of the vocabulary
annotations = [
    data.ClipAnnotation(
        clip=clip,
        sound_events=[data.SoundEventAnnotation(sound_event=event, tags=[])],
    )
]
try:
    evaluation = sound_event_detection(predictions, annotations, tags)
    print("untagged annotation:", [(m.term.label, m.value) for m in evaluation.metrics])
except Exception as error:  # noqa: BLE001
    failed = True
    print("untagged annotation: raised", type(error).__name__, ":", str(error)[:110])

reference = sound_event_classification(predictions, annotations, tags)
print("sound_event_classification on the same input:",
      [(m.term.label, m.value) for m in reference.metrics])
print("required: an evaluation with Accuracy 0.0, Balanced Accuracy 0.0, Top 3 Accuracy 1.0 "
      "over the 'none' class (one evaluated item); unlabelled items are only 'left out of' "
      "mean average precision")
sys.exit(1 if failed else 0)
