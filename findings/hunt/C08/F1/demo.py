import sys, warnings
warnings.simplefilter("ignore")
from soundevent import data
from soundevent.evaluation import sound_event_detection

rec = data.Recording(path="a.wav", duration=10, channels=1, samplerate=44100)
clip = data.Clip(recording=rec, start_time=0, end_time=10)
term = data.Term(name="species", label="species", definition="species")
A, B, C, D = [data.Tag(term=term, value=v) for v in "abcd"]


def ann(geometry, tags):
    return data.SoundEventAnnotation(
        sound_event=data.SoundEvent(geometry=geometry, recording=rec),
        tags=list(tags),
    )


def pred(geometry, scores):
    return data.SoundEventPrediction(
        sound_event=data.SoundEvent(geometry=geometry, recording=rec),
        score=1.0,
        tags=[data.PredictedTag(tag=t, score=s) for t, s in scores],
    )


def box(t0, t1, f0=1000, f1=2000):
    return data.BoundingBox(coordinates=[t0, f0, t1, f1])

# Prediction: two clicks (MultiPoint) at 0.5 s and 3.0 s.
# Annotation: a time interval 1.0 s - 2.0 s, i.e. entirely inside the silent
# gap between the two clicks (more than 0.4 s away from either, the matching
# buffer being 0.01 s).  The two geometries share no instant of time.
violations = 0
for name, geometry in [
    ("MultiPoint", data.MultiPoint(coordinates=[[0.5, 1000], [3.0, 1000]])),
    (
        "MultiLineString",
        data.MultiLineString(
            coordinates=[[[0.4, 1000], [0.5, 1200]], [[3.0, 1000], [3.1, 1200]]]
        ),
    ),
    (
        "MultiPolygon",
        data.MultiPolygon(
            coordinates=[
                [[[0.4, 1000], [0.5, 1000], [0.5, 2000], [0.4, 2000], [0.4, 1000]]],
                [[[3.0, 1000], [3.1, 1000], [3.1, 2000], [3.0, 2000], [3.0, 1000]]],
            ]
        ),
    ),
]:
    evaluation = sound_event_detection(
        [data.ClipPrediction(clip=clip, sound_events=[pred(geometry, [(A, 0.8)])])],
        [
            data.ClipAnnotation(
                clip=clip,
                sound_events=[ann(data.TimeInterval(coordinates=[1.0, 2.0]), [A])],
            )
        ],
        tags=[A, B],
    )
    matches = evaluation.clip_evaluations[0].matches
    print(f"prediction {name} (parts at ~0.5 s and ~3.0 s) vs annotation TimeInterval [1, 2]:")
    for m in matches:
        print(
            "   match: prediction=%s annotation=%s affinity=%.4f score=%.4f"
            % (m.source is not None, m.target is not None, m.affinity, m.score)
        )
    print("   clip score = %.4f, overall score = %.4f" % (evaluation.clip_evaluations[0].score, evaluation.score))
    paired = [m for m in matches if m.source is not None and m.target is not None]
    if paired:
        violations += 1

print()
print("required: the geometries do not overlap, so 2 matches (one unpaired")
print("          prediction, one unpaired annotation), affinity 0, score 0.")
if violations:
    print("observed: paired with positive affinity and score in %d/3 cases -> VIOLATION" % violations)
    sys.exit(1)
print("observed: as required")
