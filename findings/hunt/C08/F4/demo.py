import sys, warnings
warnings.simplefilter("ignore")
from soundevent import data
from soundevent.evaluation import sound_event_detection

rec = data.Recording(path="a.wav", duration=10, channels=1, samplerate=44100)
clip = data.Clip(recording=rec, start_time=0, end_time=10)
term = data.Term(name="species", label="species", definition="species")
A, B, C, D = [data.Tag(term=term, value=v) for v in "abcd"]


def ann(geometry, tags):
    return data.SoundEventAnnotation(
        sound_event=data.SoundEvent(geometry=geometry, recording=rec),
        tags=list(tags),
    )


def pred(geometry, scores):
    return data.SoundEventPrediction(
        sound_event=data.SoundEvent(geometry=geometry, recording=rec),
        score=1.0,
        tags=[data.PredictedTag(tag=t, score=s) for t, s in scores],
    )


def box(t0, t1, f0=1000, f1=2000):
    return data.BoundingBox(coordinates=[t0, f0, t1, f1])

# The prediction spreads its probability over the four classes of the vocabulary:
# 0.3 + 0.4 + 0.1 + 0.2, which is exactly 1.0 (also in double precision).
# It sits exactly on an annotated sound event whose species is not in the
# vocabulary (an "other" event; the same happens for an untagged annotation).
scores = [(A, 0.3), (B, 0.4), (C, 0.1), (D, 0.2)]
print("sum of predicted scores =", repr(sum(s for _, s in scores)), "(<= 1 as the quantifier demands)")
other = data.Tag(term=term, value="other species")
predictions = [
    data.ClipPrediction(
        clip=clip,
        sound_events=[pred(box(1, 2), scores), pred(box(3, 4), [(A, 1.0)])],
    )
]
annotations = [
    data.ClipAnnotation(
        clip=clip,
        sound_events=[ann(box(1, 2), [other]), ann(box(3, 4), [A])],
    )
]
print("required: an Evaluation with two pairs: affinity 1.0 each; the pair on the")
print("          out-of-vocabulary annotation gets score 0 (nothing is left for 'none"
      " of the classes'), the other score 1.0; clip score 0.5")
try:
    evaluation = sound_event_detection(predictions, annotations, tags=[A, B, C, D])
except Exception as error:  # noqa
    print("observed: raised %s: %s" % (type(error).__name__, " ".join(str(error).split())[:200]))
    print("-> VIOLATION")
    sys.exit(1)
print("observed:", [(m.affinity, m.score) for m in evaluation.clip_evaluations[0].matches], evaluation.score)
