import sys, warnings
warnings.simplefilter("ignore")
from soundevent import data
from soundevent.evaluation import sound_event_detection

rec = data.Recording(path="a.wav", duration=10, channels=1, samplerate=44100)
clip = data.Clip(recording=rec, start_time=0, end_time=10)
term = data.Term(name="species", label="species", definition="species")
A, B, C, D = [data.Tag(term=term, value=v) for v in "abcd"]


def ann(geometry, tags):
    return data.SoundEventAnnotation(
        sound_event=data.SoundEvent(geometry=geometry, recording=rec),
        tags=list(tags),
    )


def pred(geometry, scores):
    return data.SoundEventPrediction(
        sound_event=data.SoundEvent(geometry=geometry, recording=rec),
        score=1.0,
        tags=[data.PredictedTag(tag=t, score=s) for t, s in scores],
    )


def box(t0, t1, f0=1000, f1=2000):
    return data.BoundingBox(coordinates=[t0, f0, t1, f1])

clip2 = data.Clip(recording=rec, start_time=0, end_time=5)
cases = {
    "no clip in common (both inputs empty)": ([], []),
    "clips present on one side only": (
        [data.ClipPrediction(clip=clip, sound_events=[pred(box(1, 2), [(A, 0.5)])])],
        [data.ClipAnnotation(clip=clip2, sound_events=[ann(box(1, 2), [A])])],
    ),
    "one common clip without any sound event": (
        [data.ClipPrediction(clip=clip)],
        [data.ClipAnnotation(clip=clip)],
    ),
    "one common clip, one prediction, no annotation": (
        [data.ClipPrediction(clip=clip, sound_events=[pred(box(1, 2), [(A, 0.5)])])],
        [data.ClipAnnotation(clip=clip)],
    ),
    "one common clip, prediction on an annotation of a species outside the vocabulary": (
        [data.ClipPrediction(clip=clip, sound_events=[pred(box(1, 2), [(A, 0.5)])])],
        [data.ClipAnnotation(clip=clip, sound_events=[ann(box(1, 2), [D])])],
    ),
}
expected = {
    "no clip in common (both inputs empty)": "0 clip evaluations, overall score 0.0",
    "clips present on one side only": "0 clip evaluations, overall score 0.0",
    "one common clip without any sound event": "1 clip evaluation with 0 matches, clip score 0.0, overall 0.0",
    "one common clip, one prediction, no annotation": "1 clip evaluation, 1 match (unpaired prediction, affinity 0, score 0), overall 0.0",
    "one common clip, prediction on an annotation of a species outside the vocabulary": "1 clip evaluation, 1 match pairing the two events with affinity 1",
}
failed = 0
for name, (predictions, annotations) in cases.items():
    print(name)
    print("   required:", expected[name])
    try:
        evaluation = sound_event_detection(predictions, annotations, tags=[A, B])
        print("   observed: %d clip evaluations, matches %s, overall score %s" % (
            len(evaluation.clip_evaluations),
            [[(m.affinity, m.score) for m in c.matches] for c in evaluation.clip_evaluations],
            evaluation.score))
    except Exception as error:  # noqa
        failed += 1
        print("   observed: raised %s: %s" % (type(error).__name__, str(error)[:80]))

if failed:
    print("\n%d/%d inputs of the quantifier give an exception instead of an Evaluation -> VIOLATION" % (failed, len(cases)))
    sys.exit(1)
