import sys, warnings
warnings.simplefilter("ignore")
from soundevent import data
from soundevent.evaluation import sound_event_detection

rec = data.Recording(path="a.wav", duration=10, channels=1, samplerate=44100)
clip = data.Clip(recording=rec, start_time=0, end_time=10)
term = data.Term(name="species", label="species", definition="species")
A, B, C, D = [data.Tag(term=term, value=v) for v in "abcd"]


def ann(geometry, tags):
    return data.SoundEventAnnotation(
        sound_event=data.SoundEvent(geometry=geometry, recording=rec),
        tags=list(tags),
    )


def pred(geometry, scores):
    return data.SoundEventPrediction(
        sound_event=data.SoundEvent(geometry=geometry, recording=rec),
        score=1.0,
        tags=[data.PredictedTag(tag=t, score=s) for t, s in scores],
    )


def box(t0, t1, f0=1000, f1=2000):
    return data.BoundingBox(coordinates=[t0, f0, t1, f1])

# A one-species detector: the vocabulary holds a single tag.
# One clip, one annotated event of that species, one prediction exactly on it.
def build(n_pairs):
    preds = [pred(box(i, i + 0.5), [(A, 0.9)]) for i in range(n_pairs)]
    anns = [ann(box(i, i + 0.5), [A] if i % 2 == 0 else [B]) for i in range(n_pairs)]
    return (
        [data.ClipPrediction(clip=clip, sound_events=preds)],
        [data.ClipAnnotation(clip=clip, sound_events=anns)],
    )


failed = 0
for n_pairs in (1, 2, 6):
    predictions, annotations = build(n_pairs)
    try:
        evaluation = sound_event_detection(predictions, annotations, tags=[A])
        print(n_pairs, "pair(s), vocabulary [a]: ok, matches =",
              [(m.affinity, m.score) for m in evaluation.clip_evaluations[0].matches])
    except Exception as error:  # noqa
        failed += 1
        print(n_pairs, "pair(s), vocabulary [a]: raised %s: %s" % (type(error).__name__, str(error)[:90]))

# the very same data with a second (unused) tag in the vocabulary is fine
predictions, annotations = build(1)
evaluation = sound_event_detection(predictions, annotations, tags=[A, C])
print("same data, vocabulary [a, c]: matches =",
      [(m.affinity, round(m.score, 6)) for m in evaluation.clip_evaluations[0].matches],
      "score =", round(evaluation.score, 6))

print()
print("required: for EVERY tag vocabulary an Evaluation whose single match pairs the two")
print("          events with affinity 1.0 and score 0.9 (clip score 0.9, overall 0.9)")
if failed:
    print("observed: ValueError for the one-tag vocabulary (%d/3 data sets) -> VIOLATION" % failed)
    sys.exit(1)
print("observed: as required")
