"""C06 / F2: the buffered LineString sticks out up to 5 x time_buffer beyond a sharp
vertex (join_style="mitre"), so affinity is non-zero for pairs that are disjoint in
time and differs from the IoU of the buffered time extents."""
import sys

from soundevent import data
from soundevent.evaluation import compute_affinity

tb, fb = 0.1, 100
# '>'-shaped contour, not self-intersecting; time extent [1, 2]
line = data.LineString(coordinates=[[1.0, 1000], [2.0, 1100], [1.0, 1200]])
lo, hi = 1.0 - tb, 2.0 + tb  # time extent buffered by time_buffer: [0.9, 2.1]

failed = False


def check(label, observed, required):
    global failed
    bad = abs(observed - required) > 5e-3  # tolerance: round caps are 32-gons
    failed |= bad
    print(f"{label}: observed {observed:.6f}, required {required:.6f}" + ("   <-- VIOLATION" if bad else ""))


# 1. time-only partner covering exactly the buffered time extent -> IoU of time extents is 1
check("TimeInterval[0.9, 2.1] vs line", compute_affinity(data.TimeInterval(coordinates=[lo, hi]), line, tb, fb), 1.0)
# 2. partners that start 0.1 s after the buffered line ends: disjoint in time -> 0
check("TimeInterval[2.2, 2.6] vs line", compute_affinity(data.TimeInterval(coordinates=[2.2, 2.6]), line, tb, fb), 0.0)
check("BoundingBox[2.2..2.6] vs line ", compute_affinity(data.BoundingBox(coordinates=[2.2, 1000, 2.6, 1200]), line, tb, fb), 0.0)
check("TimeStamp 2.35 vs line        ", compute_affinity(data.TimeStamp(coordinates=2.35), line, tb, fb), 0.0)
# 3. shift invariance: the line buffered by 0.1 s starts at 0.15 > 0, yet a common shift changes the value
l0 = data.LineString(coordinates=[[1.25, 1000], [0.25, 1100], [1.25, 1200]])
b0 = data.BoundingBox(coordinates=[0.05, 900, 1.0, 1300])
l1 = data.LineString(coordinates=[[11.25, 1000], [10.25, 1100], [11.25, 1200]])
b1 = data.BoundingBox(coordinates=[10.05, 900, 11.0, 1300])
check("shift by 10 s                 ", compute_affinity(l1, b1, tb, fb), compute_affinity(l0, b0, tb, fb))

if failed:
    sys.exit(1)
print("ok")
