"""C06 / F1: compute_affinity(g, g) raises (or is far below 1) for a valid MultiPoint
whose buffered disc touches the corner (time 0, frequency 0) of the clipping rectangle."""
import sys

from soundevent import data
from soundevent.evaluation import compute_affinity

# default buffers: time_buffer=0.01 s, freq_buffer=100 Hz
g = data.MultiPoint(coordinates=[[0.0, 100.0], [0.015, 50.0]])
h = data.MultiPoint(coordinates=[[0.0, 4999900.0], [0.0, 100.0], [0.015, 0.0]])

failed = False
for name, geom in [("g", g), ("h", h)]:
    try:
        value = compute_affinity(geom, geom)
        print(f"compute_affinity({name}, {name}) = {value!r}   (required: 1)")
        if abs(value - 1) > 1e-9:
            failed = True
    except Exception as error:  # noqa: BLE001
        print(
            f"compute_affinity({name}, {name}) raised "
            f"{type(error).__name__}: {str(error)[:90]}   (required: 1)"
        )
        failed = True

if failed:
    print("VIOLATION: a geometry of non-zero extent compared with itself must give 1")
    sys.exit(1)
print("ok")
