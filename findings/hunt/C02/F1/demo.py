"""C02 / F1: an object listed twice in the collection is DEFINED twice in the
written document (identifiers not unique within their top-level list)."""
import json
import sys
import tempfile
import warnings
from collections import Counter
from pathlib import Path

warnings.simplefilter("ignore")

from soundevent import data, io

rec = data.Recording(path="/a/r.wav", duration=1, channels=1, samplerate=8000)
clip = data.Clip(recording=rec, start_time=0, end_time=1)
ann = data.ClipAnnotation(clip=clip)
pred = data.ClipPrediction(clip=clip)
task = data.AnnotationTask(clip=clip)
ev = data.ClipEvaluation(annotations=ann, predictions=pred)

cases = [
    ("recordings", data.RecordingSet(recordings=[rec, rec])),
    ("recordings", data.Dataset(name="d", recordings=[rec, rec])),
    ("clip_annotations", data.AnnotationSet(clip_annotations=[ann, ann])),
    ("clip_annotations", data.EvaluationSet(name="e", clip_annotations=[ann, ann])),
    ("clip_annotations", data.AnnotationProject(name="p", clip_annotations=[ann, ann], tasks=[task])),
    ("clip_predictions", data.PredictionSet(clip_predictions=[pred, pred])),
    ("clip_predictions", data.ModelRun(name="m", clip_predictions=[pred, pred])),
    # for comparison: this collection type does de-duplicate
    ("clip_evaluations", data.Evaluation(evaluation_task="t", clip_evaluations=[ev, ev])),
]

tmp = Path(tempfile.mkdtemp())
violations = 0
for key, obj in cases:
    path = tmp / "doc.json"
    io.save(obj, path)
    doc = json.loads(path.read_text())["data"]
    ids = [entry["uuid"] for entry in doc[key]]
    dup = [i for i, n in Counter(ids).items() if n > 1]
    status = "VIOLATION" if dup else "ok"
    violations += bool(dup)
    print(f"{type(obj).__name__:18s} data.{key}: {len(ids)} entries, "
          f"{len(set(ids))} distinct ids -> {status}")

print()
print("required: every identifier is defined exactly once / identifiers are")
print("          unique within their top-level list (1 entry in each case)")
print(f"observed: {violations} collection types write the same definition twice")
sys.exit(1 if violations else 0)
