"""C16 / F3: a range with zero steps (start == stop) crashes with IndexError
instead of giving an empty dimension."""
import sys

from soundevent.arrays import create_range_dim, create_time_range

failed = False
for label, fn in [
    ("create_range_dim('x', 0, 0, 1)", lambda: create_range_dim("x", 0, 0, 1)),
    ("create_time_range(1.0, 1.0, samplerate=44100)",
     lambda: create_time_range(1.0, 1.0, samplerate=44100)),
]:
    try:
        var = fn()
        observed = f"{len(var)} coordinates, step attr {var.attrs.get('step')}"
        ok = len(var) == 0
    except Exception as exc:  # noqa: BLE001
        observed = f"{type(exc).__name__}: {exc}"
        ok = False
    failed |= not ok
    print(f"{label}\n   observed: {observed}\n   required: 0 coordinates "
          f"((stop - start)/step == 0 is a whole number), step recorded")

sys.exit(1 if failed else 0)
