"""C16 / F1: create_range_dim drops the last coordinate whenever the distance
from it to `stop` is at most half a step (non-whole (stop-start)/step)."""
import sys

from soundevent.arrays import (
    create_frequency_range,
    create_range_dim,
    create_time_range,
)

cases = [
    ("create_range_dim('x', 0, 2.5, 1)",
     create_range_dim("x", 0, 2.5, 1).data.tolist(), [0.0, 1.0, 2.0]),
    ("create_range_dim('x', 0, 0.4, 1)",
     create_range_dim("x", 0, 0.4, 1).data.tolist(), [0.0]),
    ("create_time_range(0, 1.0, step=0.4)",
     create_time_range(0, 1.0, step=0.4).data.tolist(), [0.0, 0.4, 0.8]),
    ("create_frequency_range(0, 1000, step=300)",
     create_frequency_range(0, 1000, step=300).data.tolist(),
     [0.0, 300.0, 600.0, 900.0]),
]

failed = False
for label, observed, required in cases:
    ok = observed == required
    failed |= not ok
    print(f"{label}\n   observed: {observed}\n   required: {required}  "
          f"(every start + i*step inside [start, stop))  {'ok' if ok else 'VIOLATION'}")

sys.exit(1 if failed else 0)
