"""C16 / F2: np.arange builds the axis as start + i*delta with
delta = fl(start + step) - start, so the rounding of ONE addition is multiplied
by i.  With a start that is large compared with the step the coordinates drift
by whole steps, run past `stop`, and the half-step clean-up then removes an
element, so the count is wrong although (stop - start)/step is whole."""
import sys

import numpy as np

from soundevent.arrays import create_time_range

failed = False


def check(label, start, stop, samplerate, dtype):
    global failed
    n = round((stop - start) * samplerate)
    step = 1.0 / samplerate
    coords = create_time_range(start, stop, samplerate=samplerate, dtype=dtype).data
    m = min(n, len(coords))
    ideal = (start + step * np.arange(m)).astype(dtype)
    drift = float(np.abs(coords[:m].astype(float) - ideal.astype(float)).max() / step)
    print(label)
    print(f"   observed: {len(coords)} coordinates, last = {coords[-1]!r}, "
          f"max deviation from start+i*step = {drift:.2f} steps")
    print(f"   required: {n} coordinates, all < {stop}, each equal to start+i*step "
          f"up to rounding of the dtype")
    bad = len(coords) != n or coords.max() >= stop or drift >= 0.5
    print("   VIOLATION" if bad else "   ok")
    failed |= bad


# float64: a 10 s clip taken 10 h into a 384 kHz (bat detector) recording
check("create_time_range(36000, 36010, samplerate=384000)",
      36000, 36010, 384000, np.float64)
# float32 (an accepted dtype): 1 s starting at t = 10 s, 44.1 kHz
check("create_time_range(10, 11, samplerate=44100, dtype=float32)",
      10, 11, 44100, np.float32)

sys.exit(1 if failed else 0)
