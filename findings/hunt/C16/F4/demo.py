"""C16 / F4: get_coord_index(..., raise_error=False) does not clamp a value
beyond the upper edge to the last index; it returns len(dim), which is not an
index of the dimension."""
import sys

import numpy as np
import xarray as xr

from soundevent.arrays import create_range_dim, get_coord_index

arr = xr.DataArray(np.zeros(5), dims=["x"],
                   coords={"x": create_range_dim("x", 0, 5, 1)})

below = get_coord_index(arr, "x", -3.0, raise_error=False)
edge = get_coord_index(arr, "x", 4.0, raise_error=False)
above = get_coord_index(arr, "x", 4.5, raise_error=False)
print("coords:", arr.x.data.tolist())
print(f"value -3.0 -> {below}   (required 0, clamped to first index)")
print(f"value  4.0 -> {edge}   (required 4, last index at the upper edge)")
print(f"value  4.5 -> {above}   (required 4, clamped to last index)")

failed = above != arr.sizes["x"] - 1
if failed:
    try:
        arr.isel(x=above)
    except IndexError as exc:
        print(f"arr.isel(x={above}) -> IndexError: {exc}")
    print("VIOLATION: clamped result is not a valid index of the dimension")
sys.exit(1 if failed else 0)
