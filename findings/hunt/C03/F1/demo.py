"""C03 / F1: geometry_validate(obj, mode="attributes") skips every coordinate
check when the attribute object happens to be an instance of the geometry class.
"""
import sys
from types import SimpleNamespace

from soundevent import data

# an attribute object: type tag + coordinates that break three rules at once
# (negative time, frequency > MAX_FREQUENCY, reversed box)
bad = [3.0, 6_000_000.0, -1.0, 2.0]

# obtained with ordinary pydantic API (plain attribute assignment
# `box.coordinates = bad` or BoundingBox.model_construct(coordinates=bad)
# give the same result)
obj = data.BoundingBox(coordinates=[1, 2, 3, 4]).model_copy(
    update={"coordinates": bad}
)
twin = SimpleNamespace(type=obj.type, coordinates=obj.coordinates)


def attempt(o):
    try:
        return data.geometry_validate(o, mode="attributes")
    except ValueError as err:
        return err


r_twin = attempt(twin)
r_obj = attempt(obj)
print("plain attribute object :", repr(r_twin)[:90])
print("BoundingBox instance   :", repr(r_obj)[:90])

violations = []
if isinstance(r_obj, data.BoundingBox):
    violations.append(
        "accepted coordinates %r (time < 0, frequency > MAX_FREQUENCY)"
        % (r_obj.coordinates,)
    )
    t0, f0, t1, f1 = r_obj.coordinates
    if not (t0 <= t1 and f0 <= f1):
        violations.append("accepted bounding box is not in normal form")
    try:
        data.geometry_validate(r_obj.model_dump_json(), mode="json")
    except ValueError:
        violations.append("JSON dump of the accepted geometry does not re-validate")
if isinstance(r_twin, ValueError) and not isinstance(r_obj, ValueError):
    violations.append(
        "two attribute objects with identical type / coordinates attributes: "
        "one rejected, one accepted"
    )

print()
print("required: a validation error (ValueError) for both objects")
for v in violations:
    print("VIOLATION:", v)
sys.exit(1 if violations else 0)
