"""C03 / F2: wrong nesting that is deep enough makes geometry_validate raise
RecursionError instead of the documented ValueError (the constructor rejects
the same coordinates with a ValidationError).
"""
import json
import sys
from types import SimpleNamespace

from soundevent import data

DEPTH = 3000  # >= 1496 is enough with the default recursion limit of 1000
coords = 1
for _ in range(DEPTH):
    coords = [coords]
text = '{"type": "Point", "coordinates": ' + "[" * DEPTH + "1" + "]" * DEPTH + "}"

entries = {
    "constructor": lambda: data.Point(coordinates=coords),
    "dict": lambda: data.geometry_validate(
        {"type": "Point", "coordinates": coords}, mode="dict"
    ),
    "attributes": lambda: data.geometry_validate(
        SimpleNamespace(type="Point", coordinates=coords), mode="attributes"
    ),
    "json": lambda: data.geometry_validate(text, mode="json"),
}

bad = False
for name, fn in entries.items():
    try:
        fn()
        outcome = "ACCEPTED"
        bad = True
    except ValueError as err:
        outcome = "ValueError (%s)" % type(err).__name__
    except BaseException as err:  # noqa: BLE001
        outcome = "%s: %s" % (type(err).__name__, str(err)[:70])
        bad = True
    print("%-12s -> %s" % (name, outcome))

print()
print("required: a validation error (ValueError) from every entry point")
sys.exit(1 if bad else 0)
