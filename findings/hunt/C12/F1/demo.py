"""have_temporal_overlap is not reachable through the public package
soundevent.geometry, although its siblings are."""
import sys

import soundevent.geometry as geometry
from soundevent import data

names = ["intervals_overlap", "have_temporal_overlap", "have_frequency_overlap", "is_in_clip"]
present = {name: hasattr(geometry, name) for name in names}
print("exported from soundevent.geometry:", present)
print("duplicates in __all__:", sorted({n for n in geometry.__all__ if geometry.__all__.count(n) > 1}))

a = data.TimeInterval(coordinates=[0.0, 2.0])
b = data.TimeInterval(coordinates=[1.0, 3.0])
try:
    result = geometry.have_temporal_overlap(a, b)
    print("observed: geometry.have_temporal_overlap([0,2],[1,3]) =", result)
    failed = result is not True
except AttributeError as err:
    print("observed: AttributeError:", err)
    failed = True
print("required: soundevent.geometry.have_temporal_overlap([0,2],[1,3]) is True "
      "(same as intervals_overlap((0,2),(1,3)) =", geometry.intervals_overlap((0, 2), (1, 3)), ")")
sys.exit(1 if failed else 0)
