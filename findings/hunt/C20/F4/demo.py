"""C20 / F4: 64-bit integer values above 2**53 are altered (they travel through a C double)."""
import sys
import numpy as np
import xarray as xr
from soundevent import data
from soundevent.geometry import rasterize

template = xr.DataArray(np.zeros((2, 2)), dims=("time", "frequency"),
                        coords={"time": [0.0, 1.0], "frequency": [0.0, 1.0]})
box = data.BoundingBox(coordinates=[0, 0, 1, 1])     # covers exactly cell (0, 0)

bad = False
for value, dtype in [(2**53 + 1, np.int64), (2**64 - 1, np.uint64)]:
    out = rasterize([box], template, values=value, dtype=dtype)
    got = int(out.values[0, 0])
    print(f"dtype={np.dtype(dtype).name} value={value}: cell holds {got} -- required {value}")
    if got != value:
        bad = True
if bad:
    print("VIOLATION: the covered cell does not hold the geometry's value although the dtype can represent it")
    sys.exit(1)
print("ok")
