"""C20 / F3: for a LineString, all_touched=True REMOVES cells that all_touched=False marks."""
import sys
import numpy as np
import xarray as xr
from soundevent import data
from soundevent.geometry import rasterize

t = np.arange(4) * 1.0   # bins 0..3
f = np.arange(2) * 1.0   # bins 0..1
template = xr.DataArray(np.zeros((4, 2)), dims=("time", "frequency"), coords={"time": t, "frequency": f})
line = data.LineString(coordinates=[[0, 0], [3, 1]])   # from bin (t=0,f=0) to bin (t=3,f=1)

plain = rasterize([line], template).values.astype(bool)
touched = rasterize([line], template, all_touched=True).values.astype(bool)
print("all_touched=False (rows: frequency 0,1; columns: time 0..3)\n", plain.T.astype(int))
print("all_touched=True\n", touched.T.astype(int))
lost = np.argwhere(plain & ~touched)
print("cells marked without all_touched but NOT with it (time, freq):", lost.tolist())
print("required: all_touched only ever adds cells -> this list must be empty")
if len(lost):
    print("VIOLATION (the bin holding the line's end point, (3, 1), is among the lost cells)")
    sys.exit(1)
print("ok")
