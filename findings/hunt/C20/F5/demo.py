"""C20 / F5: dtype=bool (the natural dtype for a mask) and float16 are refused."""
import sys
import numpy as np
import xarray as xr
from soundevent import data
from soundevent.geometry import rasterize

template = xr.DataArray(np.zeros((2, 2)), dims=("time", "frequency"),
                        coords={"time": [0.0, 1.0], "frequency": [0.0, 1.0]})
box = data.BoundingBox(coordinates=[0, 0, 1, 1])
bad = False
for dtype in [bool, np.float16]:
    try:
        out = rasterize([box], template, values=1, fill=0, dtype=dtype)
        print(np.dtype(dtype).name, "->", out.values.tolist())
    except Exception as e:
        print(np.dtype(dtype).name, "-> raised", type(e).__name__ + ":", e)
        bad = True
print("required: an array of the requested dtype with the covered cell set (values 1 / fill 0 are representable)")
if bad:
    sys.exit(1)
print("ok")
