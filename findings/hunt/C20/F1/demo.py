"""C20 / F1: positions inside the LAST bin of an axis are treated as lying past the axis."""
import sys
import numpy as np
import xarray as xr
from soundevent import data
from soundevent.geometry import rasterize

# 10 time bins [0.0,0.1) ... [0.9,1.0) and 2 frequency bins [0,100) [100,200)
t = np.arange(10) * 0.1
f = np.arange(2) * 100.0
template = xr.DataArray(np.zeros((10, 2)), dims=("time", "frequency"), coords={"time": t, "frequency": f})

bad = False

# (a) a point in the middle of the last time bin (time 0.95 is inside [0.9, 1.0))
m = rasterize([data.Point(coordinates=[0.95, 50])], template)
print("(a) Point(0.95, 50): marked cells =", int((m.values != 0).sum()), "-- required: exactly cell time=0.9,freq=0")
if m.values[9, 0] != 1:
    bad = True
# the same point one bin earlier is marked
m = rasterize([data.Point(coordinates=[0.85, 50])], template)
print("    Point(0.85, 50): marked cells =", int((m.values != 0).sum()), "(bin 8, as expected)")

# (b) a box that STARTS inside the last time bin: start bin 9 is inclusive -> bin 9 must be marked
m = rasterize([data.BoundingBox(coordinates=[0.95, 0, 2.0, 150])], template)
print("(b) Box t=[0.95,2.0]: time bins marked =", np.flatnonzero(m.values.any(axis=1)).tolist(), "-- required: [9]")
if not m.values[9, 0]:
    bad = True
m = rasterize([data.BoundingBox(coordinates=[0.85, 0, 2.0, 150])], template)
print("    Box t=[0.85,2.0]: time bins marked =", np.flatnonzero(m.values.any(axis=1)).tolist(), "(start bin 8 inclusive, fine)")

# (c) a box that ENDS inside the last time bin: end bin is exclusive -> bin 9 must NOT be marked
m = rasterize([data.BoundingBox(coordinates=[0.75, 0, 0.95, 150])], template)
print("(c) Box t=[0.75,0.95]: time bins marked =", np.flatnonzero(m.values.any(axis=1)).tolist(), "-- required: [7, 8]")
if m.values[9, 0]:
    bad = True
m = rasterize([data.BoundingBox(coordinates=[0.65, 0, 0.85, 150])], template)
print("    Box t=[0.65,0.85]: time bins marked =", np.flatnonzero(m.values.any(axis=1)).tolist(), "(end bin 8 exclusive, fine)")

if bad:
    print("VIOLATION: the last bin of the axis is handled differently from every other bin")
    sys.exit(1)
print("ok")
