"""C20 / F2: a numpy array (or any non list/tuple sequence) of values is silently treated as ONE scalar."""
import sys
import numpy as np
import xarray as xr
from soundevent import data
from soundevent.geometry import rasterize

t = np.arange(4) * 1.0
f = np.arange(2) * 1.0
template = xr.DataArray(np.zeros((4, 2)), dims=("time", "frequency"), coords={"time": t, "frequency": f})
g1 = data.BoundingBox(coordinates=[0, 0, 2, 1])
g2 = data.BoundingBox(coordinates=[2, 0, 4, 1])

ref = rasterize([g1, g2], template, values=[3, 2], fill=-1)
print("values=[3, 2] (list):\n", ref.values.T)

bad = False
got = rasterize([g1, g2], template, values=np.array([3, 2]), fill=-1)
print("values=np.array([3, 2]):\n", got.values.T, "\n  required: same as the list (or a rejection)")
if not np.array_equal(got.values, ref.values):
    bad = True

try:
    got = rasterize([g1, g2], template, values=np.array([3, 2, 1]), fill=-1)
    print("values=np.array([3, 2, 1]) with 2 geometries: accepted, result\n", got.values.T,
          "\n  required: ValueError (length differs from the geometry list)")
    bad = True
except ValueError as e:
    print("values=np.array([3,2,1]) rejected:", e)

if bad:
    print("VIOLATION: value sequence not honoured / length mismatch not rejected")
    sys.exit(1)
print("ok")
