"""extend_dim: an OPEN end that falls on a lattice point is frequently included
(np.arange length is computed in floating point), so the result has one sample
too many, lying on / beyond the excluded edge."""
import sys

import numpy as np
import xarray as xr

from soundevent.arrays import create_time_range, extend_dim

# A 10 Hz time axis made by the library itself: 0.0, 0.1, ..., 0.9 (step attr 0.1)
time = create_time_range(0, 1, samplerate=10)
arr = xr.DataArray(np.arange(10) + 1.0, dims=["time"], coords={"time": time})

violations = 0

# 1. default flags: [start, stop) -- right end open
out = extend_dim(arr, "time", stop=1.1)
coords = out.time.values
print("extend_dim(stop=1.1)  (interval [0, 1.1), right end open)")
print("  observed coords :", coords)
print("  required        : 0.0 ... 1.0 (11 samples); 1.1 is excluded")
if len(coords) != 11 or coords[-1] >= 1.1:
    violations += 1

# 2. left end open
out = extend_dim(arr, "time", start=-0.4, left_closed=False)
coords = out.time.values
print("extend_dim(start=-0.4, left_closed=False)  (interval (-0.4, 0.9])")
print("  observed first coords :", coords[:5])
print("  required              : starts at -0.3 (13 samples); -0.4 is excluded")
if len(coords) != 13 or coords[0] <= -0.4:
    violations += 1

# 3. how often: every open stop on the lattice, k = 1..40 steps past the end
wrong = []
for k in range(1, 41):
    stop = round(0.9 + 0.1 * k, 10)
    n = extend_dim(arr, "time", stop=stop).sizes["time"]
    if n != 10 + k - 1:
        wrong.append(stop)
print(f"open stop on the lattice, 40 cases: {len(wrong)} return one sample too many:", wrong)
if wrong:
    violations += 1

if violations:
    print("VIOLATION: extend_dim includes the lattice point at an open end")
    sys.exit(1)
print("no violation")
