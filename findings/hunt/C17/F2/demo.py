"""crop_dim / extend_dim: the fixed absolute eps (1e-5) vanishes in floating point
once |coordinate| > ~2e11 (e.g. integer epoch-millisecond axes), so open ends of
crop_dim become closed and closed ends of extend_dim become open."""
import sys

import numpy as np
import xarray as xr

from soundevent.arrays import crop_dim, extend_dim

base = 10**12  # e.g. milliseconds since the epoch; step 1, exact integers
x = base + np.arange(10)
arr = xr.DataArray(np.arange(10) + 1.0, dims=["x"], coords={"x": x})

violations = 0

out = crop_dim(arr, "x", start=base + 2, stop=base + 7)  # [start, stop)
got = (out.x.values - base).tolist()
print("crop_dim [base+2, base+7)        observed offsets:", got, " required: [2, 3, 4, 5, 6]")
if got != [2, 3, 4, 5, 6]:
    violations += 1

out = crop_dim(arr, "x", start=base + 2, stop=base + 7, left_closed=False, right_closed=True)
got = (out.x.values - base).tolist()
print("crop_dim (base+2, base+7]        observed offsets:", got, " required: [3, 4, 5, 6, 7]")
if got != [3, 4, 5, 6, 7]:
    violations += 1

out = extend_dim(arr, "x", start=base - 3, stop=base + 12, right_closed=True)  # [start, stop]
got = (out.x.values - base).tolist()
print("extend_dim [base-3, base+12]     observed offsets:", got[:2], "...", got[-2:], f"({len(got)} samples)",
      " required: -3 ... 12 (16 samples)")
if len(got) != 16 or got[0] != -3 or got[-1] != 12:
    violations += 1

# the same calls on a small-magnitude copy of the axis are right
small = xr.DataArray(np.arange(10) + 1.0, dims=["x"], coords={"x": np.arange(10)})
print("same request at base 0           :", crop_dim(small, "x", 2, 7).x.values.tolist())

if violations:
    print("VIOLATION: closedness flags are ignored for coordinates of large magnitude")
    sys.exit(1)
print("no violation")
