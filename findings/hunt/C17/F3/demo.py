"""BORDERLINE (floating-point representation): crop_dim has an eps guard on open
ends but none on CLOSED ends, so a closed end on a lattice point of a fractional
axis loses that sample whenever the stored coordinate is one ulp beyond the edge.
extend_dim does guard closed ends, so extend(closed) -> crop(closed) with the very
same numbers does not give the extended array back."""
import sys

import numpy as np
import xarray as xr

from soundevent.arrays import create_time_range, crop_dim, extend_dim

time = create_time_range(0, 1, samplerate=10)  # 0.0, 0.1, ..., 0.9
arr = xr.DataArray(np.arange(10) + 1.0, dims=["time"], coords={"time": time})

violations = 0

out = crop_dim(arr, "time", start=0.1, stop=0.3, right_closed=True)
print("crop_dim [0.1, 0.3] on 0.0,0.1,...,0.9")
print("  observed :", out.time.values, out.values)
print("  required : samples at 0.1, 0.2, 0.3 (values 2, 3, 4); stored coordinate of the third is", repr(float(time.values[3])))
if out.sizes["time"] != 3:
    violations += 1

# round trip with identical numbers: extend to the closed stop 1.3, crop to the closed stop 1.3
ext = extend_dim(arr, "time", stop=1.3, right_closed=True)   # lattice points up to "1.3"
print("extend_dim(stop=1.3, right_closed=True) ->", ext.sizes["time"], "samples, last", repr(float(ext.time.values[-1])))
try:
    back = crop_dim(ext, "time", stop=1.3, right_closed=True)    # same closed interval
    print("crop_dim of that with the same closed stop ->", back.sizes["time"], "samples; required:", ext.sizes["time"])
    if back.sizes["time"] != ext.sizes["time"]:
        violations += 1
except ValueError as err:
    print("crop_dim of that with the same closed stop -> ValueError:", err)
    print("  required: the 14 samples back (the interval [0, 1.3] is the one extend_dim was asked to fill)")
    violations += 1

if violations:
    print("VIOLATION (borderline): closed end of crop_dim drops the lattice point on the edge")
    sys.exit(1)
print("no violation")
