"""An explicit `term` switches off tag_mapping and key_mapping."""
import sys

from crowsetta import BBox

from soundevent import data
import soundevent.io.crowsetta as cio

term = data.Term(name="x:species", label="species", definition="d")
mapped = data.Tag(key="animal", value="Canis lupus")
tag_mapping = {"dog": mapped}

violations = 0


def check(name, observed, required):
    global violations
    bad = observed != required
    violations += bad
    print(f"{name}\n    observed: {observed}\n    required: {required}"
          f"{'   <-- VIOLATION' if bad else ''}")


# the mapping works when combined with the (deprecated) explicit key ...
check("key + tag_mapping",
      cio.label_to_tags("dog", key="species", tag_mapping=tag_mapping), [mapped])
# ... but is ignored when combined with the explicit term
check("term + tag_mapping",
      cio.label_to_tags("dog", term=term, tag_mapping=tag_mapping), [mapped])
check("term + key_mapping",
      cio.label_to_tags("dog", term=term, key_mapping={"dog": "animal"}),
      [data.Tag(key="animal", value="dog")])

# same through a conversion function
recording = data.Recording(path="a.wav", duration=10, channels=1, samplerate=44100)
box = BBox(onset=1.0, offset=2.0, low_freq=100.0, high_freq=200.0, label="dog")
check("bbox_to_annotation(term=..., tag_mapping=...)",
      cio.bbox_to_annotation(box, recording, term=term, tag_mapping=tag_mapping).tags,
      [mapped])

if violations:
    print(f"VIOLATION: {violations} mapped labels resolved by the explicit term instead")
    sys.exit(1)
print("ok")
