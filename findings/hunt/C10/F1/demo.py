"""select_by_key combined with an explicit value_only raises TypeError."""
import sys

from soundevent import data
import soundevent.io.crowsetta as cio

tags = [data.Tag(key="animal", value="dog"), data.Tag(key="sex", value="male")]
recording = data.Recording(path="a.wav", duration=10, channels=1, samplerate=44100)
annotation = data.SoundEventAnnotation(
    sound_event=data.SoundEvent(
        geometry=data.TimeInterval(coordinates=[1, 2]), recording=recording
    ),
    tags=tags,
)

print("select_by_key alone:", cio.label_from_tags(tags, select_by_key="animal"))

violations = 0
cases = [
    ("label_from_tags value_only=True", "dog",
     lambda: cio.label_from_tags(tags, select_by_key="animal", value_only=True)),
    ("label_from_tags value_only=False", "animal:dog",
     lambda: cio.label_from_tags(tags, select_by_key="animal", value_only=False)),
    ("segment_from_annotation value_only=True", "dog",
     lambda: cio.segment_from_annotation(
         annotation, select_by_key="animal", value_only=True).label),
    ("sequence_from_annotations ignore_errors=True value_only=True", "dog",
     lambda: cio.sequence_from_annotations(
         [annotation], ignore_errors=True, select_by_key="animal",
         value_only=True).segments[0].label),
]
for name, required, call in cases:
    try:
        observed = repr(call())
    except Exception as exc:  # noqa: BLE001
        observed = f"{type(exc).__name__}: {exc}"
        violations += 1
    print(f"{name}\n    observed: {observed}\n    required: {required!r}")

if violations:
    print(f"VIOLATION: {violations} option combinations raise TypeError")
    sys.exit(1)
print("ok")
