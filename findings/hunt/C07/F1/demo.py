"""match_geometries raises KeyError for a valid LineString when freq_buffer=0."""
import sys
import warnings

from soundevent import data
from soundevent.evaluation import match_geometries

warnings.simplefilter("ignore")

# A three-point frequency-modulated (bat-like) contour; all values are valid.
call = data.LineString(
    coordinates=[[0.0, 40000.0], [0.01, 20000.0], [0.02, 120000.0]]
)
box = data.BoundingBox(coordinates=[0.0, 20000.0, 0.02, 120000.0])

print("default buffers   :", list(match_geometries([call], [box])))

try:
    result = list(match_geometries([call], [box], freq_buffer=0))
except Exception as error:  # noqa: BLE001
    print("freq_buffer=0     : raised", repr(error))
    print(
        "required          : one entry per source index and per target index "
        "(e.g. [(0, 0, a)] or [(0, None, 0.0), (None, 0, 0.0)])"
    )
    sys.exit(1)

sources = sorted(s for s, _, _ in result if s is not None)
targets = sorted(t for _, t, _ in result if t is not None)
print("freq_buffer=0     :", result)
if sources != [0] or targets != [0]:
    sys.exit(1)
print("no violation")
