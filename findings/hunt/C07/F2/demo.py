"""match_geometries raises GEOSException for a self-crossing Polygon."""
import sys

from soundevent import data
from soundevent.evaluation import match_geometries

# A hand-drawn "bow-tie" outline: accepted by data.Polygon, edges cross once.
bowtie = data.Polygon(
    coordinates=[[[0, 0], [2, 2000], [2, 0], [0, 2000], [0, 0]]]
)
box = data.BoundingBox(coordinates=[0, 0, 2, 2000])

try:
    result = list(match_geometries([bowtie], [box]))
except Exception as error:  # noqa: BLE001
    print("observed : raised", type(error).__name__, str(error)[:70])
    print(
        "required : every source and target index mentioned exactly once, "
        "e.g. [(0, 0, 0.5)]"
    )
    sys.exit(1)

print("observed :", result)
sources = sorted(s for s, _, _ in result if s is not None)
targets = sorted(t for _, t, _ in result if t is not None)
if sources != [0] or targets != [0]:
    sys.exit(1)
print("no violation")
