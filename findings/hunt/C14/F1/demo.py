"""C14 / F1: a complete final window is lost when duration/hop are not binary fractions."""
import sys

from soundevent import data
from soundevent.operations import segment_clip

rec = data.Recording(path="a.wav", duration=60, channels=1, samplerate=44100)
bad = False
for end, dur, expected in [(0.3, 0.1, 3), (3.0, 0.1, 30), (3.0, 0.2, 15), (10.0, 0.05, 200)]:
    clip = data.Clip(recording=rec, start_time=0.0, end_time=end)
    segs = list(segment_clip(clip, duration=dur))  # hop = duration, include_incomplete=False
    last = (segs[-1].start_time, segs[-1].end_time)
    print(f"clip [0, {end}] duration=hop={dur}: {len(segs)} segments, last={last}; "
          f"required {expected} segments ending at {end}")
    if len(segs) != expected:
        bad = True
if bad:
    print("VIOLATION: the last window, which fits in the clip, is not produced "
          "(the tail of the clip is never covered with include_incomplete=False)")
    sys.exit(1)
print("ok")
