"""C14 / F2: include_incomplete yields a spurious sub-sample sliver after the clip has been tiled exactly."""
import sys

from soundevent import data
from soundevent.operations import segment_clip

rec = data.Recording(path="a.wav", duration=60, channels=1, samplerate=44100)
clip = data.Clip(recording=rec, start_time=0.0, end_time=2.1)
segs = list(segment_clip(clip, duration=0.7, include_incomplete=True))
for s in segs:
    print(s.start_time, s.end_time, "length", s.end_time - s.start_time)
print("required: 3 segments [0,0.7] [0.7,1.4] [1.4,2.1] (window 3 would start at the clip end, not inside it)")
# the sibling case is handled the other way round: 3 * 0.3 also rounds below 0.9 but no sliver is produced
sib = list(segment_clip(data.Clip(recording=rec, start_time=0.0, end_time=0.9), duration=0.3, include_incomplete=True))
print("clip [0,0.9] duration 0.3:", [(s.start_time, s.end_time) for s in sib])
if len(segs) != 3:
    print(f"VIOLATION: {len(segs)} segments, the last one lasts {segs[-1].end_time - segs[-1].start_time:.3g} s "
          f"({(segs[-1].end_time - segs[-1].start_time) * 44100:.3g} samples)")
    sys.exit(1)
print("ok")
