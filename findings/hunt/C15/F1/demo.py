"""load_clip on a clip shorter than one sample (floor(duration*samplerate) == 0)."""
import os
import sys
import tempfile

import numpy as np
import soundfile as sf

from soundevent import data
from soundevent.audio import load_clip

path = os.path.join(tempfile.mkdtemp(), "a.wav")
sf.write(path, np.linspace(-0.5, 0.5, 20).reshape(-1, 1), 10, subtype="PCM_16")
recording = data.Recording.from_file(path, compute_hash=False)  # 10 Hz, 2 s

failed = False
for start, end in [(0.5, 0.5), (0.5, 0.55), (0.0, 0.0)]:
    clip = data.Clip(recording=recording, start_time=start, end_time=end)
    expected = int(np.floor((end - start) * recording.samplerate))
    try:
        wav = load_clip(clip)
        print(f"clip {start}-{end}: shape {wav.shape}, required ({expected}, 1)")
        if wav.shape != (expected, 1):
            failed = True
    except Exception as err:  # noqa: BLE001
        print(
            f"clip {start}-{end}: raised {type(err).__name__}: {err}; "
            f"required: an array with exactly {expected} frames"
        )
        failed = True

if failed:
    print("VIOLATION: load_clip must return floor(duration*samplerate) frames for every clip")
    sys.exit(1)
print("ok")
