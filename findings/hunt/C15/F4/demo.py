"""compute_spectrogram with a window longer than the audio: scipy silently
shrinks the window to the signal length, the step attributes (and therefore
the advertised axes) still describe the window that was asked for."""
import os
import sys
import tempfile
import warnings

import numpy as np
import soundfile as sf

from soundevent import data
from soundevent.audio import compute_spectrogram, load_clip

SR = 44100
path = os.path.join(tempfile.mkdtemp(), "a.wav")
rng = np.random.default_rng(0)
sf.write(path, rng.uniform(-0.5, 0.5, (2 * SR, 1)), SR, subtype="PCM_16")
recording = data.Recording.from_file(path, compute_hash=False)

# a 10 ms clip (441 samples) analysed with a 20 ms window and a 15 ms hop
clip = data.Clip(recording=recording, start_time=1.0, end_time=1.01)
wav = load_clip(clip)
with warnings.catch_warnings():
    warnings.simplefilter("ignore")
    spec = compute_spectrogram(wav, window_size=0.02, hop_size=0.015)

failed = False
for dim in ("time", "frequency"):
    coords = spec[dim].values
    step = spec[dim].attrs["step"]
    ideal = coords[0] + np.arange(len(coords)) * step
    dev = np.abs(coords - ideal).max() / step
    print(f"{dim}: coords {coords[:3]} ..., advertised step {step:.6g}, "
          f"actual spacing {np.diff(coords)[0]:.6g}, "
          f"largest distance from first + i*step = {dev:.2f} steps")
    if dev > 1 or not np.isclose(np.diff(coords)[0], step, rtol=1e-3):
        failed = True

if failed:
    print("VIOLATION: coordinates must agree with the advertised step "
          "(every coordinate within one step of first + i*step)")
    sys.exit(1)
print("ok")
