"""load_recording of a time-expanded file whose effective rate
(file rate x time_expansion) is not a whole number."""
import os
import sys
import tempfile

import numpy as np
import soundfile as sf

from soundevent import data
from soundevent.audio import load_recording

tmp = tempfile.mkdtemp()
failed = False
# (file rate, time expansion): 11025 x 0.5 = 5512.5 Hz is not a whole number;
# 44100 x 0.7 = 30870 Hz is, but the float product 30869.999999999996 is truncated.
for file_rate, te in [(11025, 1), (11025, 2), (11025, 0.5), (44100, 0.7)]:
    path = os.path.join(tmp, f"{file_rate}.wav")
    frames = 3 * file_rate
    sf.write(path, np.zeros((frames, 1)), file_rate, subtype="PCM_16")
    recording = data.Recording.from_file(path, time_expansion=te, compute_hash=False)
    true_rate = round(file_rate * te, 6)
    try:
        wav = load_recording(recording)
    except Exception as err:  # noqa: BLE001
        print(f"{file_rate} Hz file, time_expansion={te}: Recording.samplerate={recording.samplerate} "
              f"(true {true_rate}), load_recording raised {type(err).__name__}: {err}")
        print(f"   required: {frames} frames, times i/{true_rate}")
        failed = True
        continue
    t = wav.time.values
    dev = np.abs(t - np.arange(frames) / true_rate).max() * true_rate
    print(f"{file_rate} Hz file, time_expansion={te}: shape {wav.shape}, largest time error {dev:.3g} steps")
    if wav.shape[0] != frames or dev > 1:
        failed = True

if failed:
    print("VIOLATION: load_recording must give one strictly increasing time "
          "coordinate per frame for every time-expansion factor")
    sys.exit(1)
print("ok")
