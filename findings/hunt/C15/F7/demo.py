"""resample applied to the output of resample: the second time axis disagrees
with its advertised step by several samples."""
import sys

import numpy as np
import xarray as xr

from soundevent.arrays import create_time_range
from soundevent.audio import resample

SR = 48000
n = 4799  # just under 0.1 s
audio = xr.DataArray(
    np.sin(2 * np.pi * 440 * np.arange(n) / SR).reshape(-1, 1),
    dims=("time", "channel"),
    coords={
        "time": create_time_range(start_time=0, end_time=n / SR, samplerate=SR),
        "channel": [0],
    },
)


def report(name, arr):
    t = arr.time.values
    step = arr.time.attrs["step"]
    dev = np.abs(t - (t[0] + np.arange(len(t)) * step)).max() / step
    print(f"{name}: {len(t)} frames, advertised step 1/{1 / step:.0f} s, "
          f"actual spacing 1/{1 / np.diff(t).mean():.2f} s, "
          f"largest distance from first + i*step = {dev:.2f} steps")
    return dev


down = resample(audio, 12000)
back = resample(down, SR)
d0 = report("load    48000", audio)
d1 = report("resample 12000", down)
d2 = report("resample 48000", back)

if max(d0, d1, d2) > 1:
    print("VIOLATION: every coordinate must lie within one step of first + i*step")
    sys.exit(1)
print("ok")
