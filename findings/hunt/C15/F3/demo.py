"""load_clip far into a long, high-rate recording: the time axis drifts and
finally loses an element, so the clip cannot be loaded at all.

A 16-bit mono 500 kHz WAV of 2065 s is created as a *sparse* file (header +
truncate; it occupies no disk space, the samples read back as zeros)."""
import os
import struct
import sys
import tempfile

import numpy as np

from soundevent import data
from soundevent.audio import load_clip

SR = 500_000
FILE_SECONDS = 2065
frames = SR * FILE_SECONDS

tmp = tempfile.mkdtemp()
path = os.path.join(tmp, "long.wav")
nbytes = frames * 2
with open(path, "wb") as fp:
    fp.write(
        struct.pack(
            "<4sI4s4sIHHIIHH4sI",
            b"RIFF", nbytes + 36, b"WAVE", b"fmt ", 16, 1, 1, SR, SR * 2, 2, 16,
            b"data", nbytes,
        )
    )
    fp.truncate(44 + nbytes)

recording = data.Recording.from_file(path, compute_hash=False)
print("recording:", recording.samplerate, "Hz,", recording.duration, "s")

failed = False
for start, end in [(2050.0, 2055.0), (2050.0, 2060.0)]:
    clip = data.Clip(recording=recording, start_time=start, end_time=end)
    offset = int(start * SR)
    expected = int((end - start) * SR)
    try:
        wav = load_clip(clip)
    except Exception as err:  # noqa: BLE001
        print(f"clip {start}-{end}: load_clip raised {type(err).__name__}: {err}")
        print(f"   required: {expected} frames with times (offset + i)/samplerate")
        failed = True
        continue
    t = wav.time.values
    step = wav.time.attrs["step"]
    ref = (offset + np.arange(len(t))) / SR
    dev = np.abs(t - ref).max() / step
    print(
        f"clip {start}-{end}: {wav.shape[0]} frames (required {expected}); "
        f"largest error of a time coordinate = {dev:.3f} steps"
    )
    if wav.shape[0] != expected or dev > 1:
        failed = True

os.remove(path)
if failed:
    print("VIOLATION: time axis of load_clip is not (offset + i)/samplerate")
    sys.exit(1)
print("ok")
