"""compute_spectrogram with a hop of exactly one sample."""
import sys

import numpy as np
import xarray as xr

from soundevent.arrays import create_time_range
from soundevent.audio import compute_spectrogram

SR = 44100
n = 4410
audio = xr.DataArray(
    np.random.default_rng(0).normal(size=(n, 1)),
    dims=("time", "channel"),
    coords={
        "time": create_time_range(start_time=0, end_time=n / SR, samplerate=SR),
        "channel": [0],
    },
)

failed = False
for window, hop in [(16, 1), (15, 1), (30, 1)]:
    try:
        spec = compute_spectrogram(audio, window_size=window / SR, hop_size=hop / SR)
        step = spec.time.attrs["step"] * SR
        print(f"window {window} samples, hop {hop} sample: {spec.sizes['time']} frames, step {step:.3f} samples")
    except Exception as err:  # noqa: BLE001
        print(f"window {window} samples, hop {hop} sample: raised {type(err).__name__}: {err}; "
              f"required: a spectrogram with strictly increasing times one sample apart")
        failed = True

if failed:
    print("VIOLATION: a hop that is a whole number of samples is inside the quantifier")
    sys.exit(1)
print("ok")
