"""load_clip on a clip that starts after the last frame of the file."""
import os
import sys
import tempfile

import numpy as np
import soundfile as sf

from soundevent import data
from soundevent.audio import load_clip

path = os.path.join(tempfile.mkdtemp(), "a.wav")
sf.write(path, np.linspace(-0.5, 0.5, 20).reshape(-1, 1), 10, subtype="PCM_16")
recording = data.Recording.from_file(path, compute_hash=False)  # 10 Hz, 20 frames, 2 s

failed = False
# 1.9-2.5 straddles the end, 2.0-2.5 starts exactly at the end: both are zero filled.
# 2.1-2.5 starts one frame after the end.
for start, end in [(1.9, 2.5), (2.0, 2.5), (2.1, 2.5), (3.0, 4.0)]:
    clip = data.Clip(recording=recording, start_time=start, end_time=end)
    expected = int(np.floor((end - start) * recording.samplerate))
    try:
        wav = load_clip(clip)
        tail = wav.data[max(0, 20 - int(np.floor(start * 10))):]
        print(f"clip {start}-{end}: shape {wav.shape}, zero filled: {bool((tail == 0).all())}")
        if wav.shape != (expected, 1) or not (tail == 0).all():
            failed = True
    except Exception as err:  # noqa: BLE001
        print(
            f"clip {start}-{end}: raised {type(err).__name__}: {err}; "
            f"required: {expected} zero frames with times from {np.floor(start * 10) / 10}"
        )
        failed = True

if failed:
    print("VIOLATION: frames past the end of the file must be zero filled for every clip")
    sys.exit(1)
print("ok")
