"""C18 / F1: a recording that lies OUTSIDE the audio directory (path written with '..')
is saved without error, and the stored path escapes the audio directory."""
import json, os, sys, tempfile
from pathlib import Path
from soundevent import data, io

audio_dir = Path("/data/audio")
rec_path = Path("/data/audio/../private/x.wav")          # == /data/private/x.wav, outside /data/audio
assert not os.path.normpath(rec_path).startswith(str(audio_dir) + "/")

obj = data.RecordingSet(recordings=[
    data.Recording(path=rec_path, duration=1, channels=1, samplerate=8000)])
out = Path(tempfile.mkdtemp()) / "set.json"

try:
    io.save(obj, out, audio_dir=audio_dir)
except ValueError as e:
    print("save raised ValueError as the property requires:", e)
    sys.exit(0)

stored = json.loads(out.read_text())["data"]["recordings"][0]["path"]
loaded = io.load(out, audio_dir="/mnt/new").recordings[0].path
print("recording path          :", rec_path, "(normalised:", os.path.normpath(rec_path) + ")")
print("audio_dir               :", audio_dir)
print("observed                : save succeeded, stored path =", repr(stored))
print("loaded under /mnt/new   :", loaded, "->", os.path.normpath(loaded), "(outside /mnt/new)")
print("required                : save must fail with an error (recording lies outside audio_dir), nothing written")
sys.exit(1)
