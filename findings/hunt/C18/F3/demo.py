"""C18 / F3 (environment dependent): the JSON document is written / read with the locale's
preferred encoding instead of UTF-8, so a unicode file name does not survive save -> load when the
process does not run with a UTF-8 locale (Windows default code page; POSIX 'C' locale without coercion).
The script re-runs itself in such an environment."""
import os, subprocess, sys, tempfile
from pathlib import Path

if os.environ.get("C18_CHILD") != "1":
    env = dict(os.environ, C18_CHILD="1", LC_ALL="C", LANG="C", PYTHONUTF8="0", PYTHONCOERCECLOCALE="0")
    env.pop("PYTHONIOENCODING", None)
    sys.exit(subprocess.call([sys.executable, __file__], env=env))

import locale
from soundevent import data, io

print("preferred encoding of this process:", locale.getpreferredencoding(False))
name = "/data/audio/café/文件.wav"
obj = data.RecordingSet(recordings=[data.Recording(path=name, duration=1, channels=1, samplerate=8000)])
out = Path(tempfile.mkdtemp()) / "set.json"
out.write_text("PREVIOUS CONTENT")
bad = False
try:
    io.save(obj, out, audio_dir="/data/audio")
    got = io.load(out, audio_dir="/mnt/new").recordings[0].path
    print("loaded:", ascii(str(got)))
    bad = got != Path("/mnt/new/café/文件.wav")
except UnicodeError as e:
    print("observed : save raised", type(e).__name__, "-", e)
    print("           target file now has", out.stat().st_size, "bytes (previous content destroyed)")
    bad = True
# a valid UTF-8 document produced elsewhere cannot be loaded either
doc = ('{"version":"1.1.0","created_on":"2024-01-01T00:00:00","data":{"uuid":"%s","collection_type":"recording_set",'
       '"recordings":[{"uuid":"%s","path":"café/x.wav","duration":1.0,"channels":1,"samplerate":8000}]}}'
       % (obj.uuid, obj.recordings[0].uuid))
out.write_bytes(doc.encode("utf-8"))
try:
    got = io.load(out, audio_dir="/mnt/new").recordings[0].path
    print("loaded utf-8 document:", ascii(str(got)))
    bad = bad or got != Path("/mnt/new/café/x.wav")
except UnicodeError as e:
    print("observed : load of a UTF-8 document raised", type(e).__name__, "-", e)
    bad = True
print("required : A/caf\\xe9/\\u6587\\u4ef6.wav saved under A and loaded under B gives B/caf\\xe9/\\u6587\\u4ef6.wav (unicode file names are in the quantifier)")
sys.exit(1 if bad else 0)
