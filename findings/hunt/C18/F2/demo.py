"""C18 / F2: audio_dir given as a path object that is not a concrete pathlib.Path
(PurePosixPath, an os.PathLike accepted by save) makes load fail with a ValidationError."""
import sys, tempfile
from pathlib import Path, PurePosixPath
from soundevent import data, io

obj = data.RecordingSet(recordings=[
    data.Recording(path="/data/audio/sub/x.wav", duration=1, channels=1, samplerate=8000)])
out = Path(tempfile.mkdtemp()) / "set.json"

io.save(obj, out, audio_dir=PurePosixPath("/data/audio"))     # accepted, stores "sub/x.wav"
print("save with PurePosixPath audio_dir: ok")
try:
    loaded = io.load(out, audio_dir=PurePosixPath("/mnt/new"))
except Exception as e:
    print("observed : load raised", type(e).__name__, "-", str(e).splitlines()[1:3])
    print("required : Recording.path == Path('/mnt/new/sub/x.wav') (audio_dir joined with stored path),")
    print("           as it is for audio_dir='/mnt/new' or Path('/mnt/new')")
    sys.exit(1)
print("loaded path:", loaded.recordings[0].path)
sys.exit(0 if loaded.recordings[0].path == Path("/mnt/new/sub/x.wav") else 1)
