"""C05 / F4 (theoretical): the centre positions overflow to inf for finite times above ~9e307 s."""
import sys

from soundevent import data
from soundevent.geometry import compute_bounds, get_geometry_point

geom = data.TimeInterval(coordinates=[1e308, 1.5e308])  # finite, accepted
start, low, end, high = compute_bounds(geom)
required = start / 2 + end / 2  # 1.25e308, the centre of the bounds
bad = 0
for position in ("center", "top-center", "bottom-center"):
    t, f = get_geometry_point(geom, position)
    print(position, "->", (t, f), " required time", required)
    bad += t != required
print("bounds:", (start, low, end, high))
if bad:
    print("VIOLATION: centre time is inf, not the midpoint of a finite interval")
    sys.exit(1)
print("ok")
