"""C05 / F2: the centroid of an accepted (self-crossing) polygon lies outside its bounds."""
import sys

from soundevent import data
from soundevent.geometry import compute_bounds, get_geometry_point

# four points, ring crosses itself once (a "bow tie" with lobes of unequal size)
geom = data.Polygon(coordinates=[[[0, 0], [0, 2], [1, 0], [2, 1]]])  # accepted

start, low, end, high = compute_bounds(geom)
t, f = get_geometry_point(geom, "centroid")
print("coordinates:", geom.coordinates)
print("bounds     :", (start, low, end, high))
print("centroid   :", (t, f))
print("required   : start <= t <= end and low <= f <= high")

if not (start <= t <= end and low <= f <= high):
    print("VIOLATION: centroid outside the bounds (here even a negative time)")
    sys.exit(1)
print("ok")
