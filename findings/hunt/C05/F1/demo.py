"""C05 / F1: bounds (and everything derived from them) ignore the coordinates of polygon holes."""
import sys

from soundevent import data
from soundevent.geometry import (
    compute_bounds,
    compute_geometric_features,
    get_geometry_point,
)

# shell: the square [1,3] x [1,3]; second ring (a "hole") reaches out to time 4
shell = [[1, 1], [3, 1], [3, 3], [1, 3]]
hole = [[2, 2], [4, 2], [2, 2.5]]
geom = data.Polygon(coordinates=[shell, hole])  # accepted by the model

pts = [p for ring in geom.coordinates for p in ring]
required = (
    min(p[0] for p in pts),
    min(p[1] for p in pts),
    max(p[0] for p in pts),
    max(p[1] for p in pts),
)
observed = compute_bounds(geom)
duration = compute_geometric_features(geom)[0].value
top_right = get_geometry_point(geom, "top-right")

print("coordinates        :", geom.coordinates)
print("compute_bounds     :", observed)
print("min/max over coords:", required)
print("duration feature   :", duration, "(required", required[2] - required[0], ")")
print("top-right          :", top_right, "(required", (required[2], required[3]), ")")

# same thing inside a MultiPolygon
multi = data.MultiPolygon(coordinates=[[shell, hole]])
print("MultiPolygon bounds:", compute_bounds(multi))

if tuple(observed) != required:
    print("VIOLATION: compute_bounds is not the min/max over the coordinates")
    sys.exit(1)
print("ok")
