"""C05 / F3 (floating-point level): centroid of a zero-extent geometry is 1 ulp outside its bounds."""
import sys

from soundevent import data
from soundevent.geometry import compute_bounds, get_geometry_point

cases = [
    data.LineString(coordinates=[[0, 0.1], [0.1, 0.1]]),  # constant tone at 0.1 Hz
    data.BoundingBox(coordinates=[0, 0.1, 0.1, 0.1]),
    data.MultiPoint(coordinates=[[0, 0.1], [0, 0.1], [0, 0.1]]),
    data.TimeStamp(coordinates=3.5667921623141554),
]
bad = 0
for geom in cases:
    start, low, end, high = compute_bounds(geom)
    t, f = get_geometry_point(geom, "centroid")
    inside = start <= t <= end and low <= f <= high
    print(geom.type, geom.coordinates)
    print("   bounds  :", (start, low, end, high))
    print("   centroid:", (t, f), "inside" if inside else "OUTSIDE")
    bad += not inside

print("required: centroid inside the bounds (for a zero extent: equal to the coordinate)")
if bad:
    print("VIOLATION in", bad, "of", len(cases), "cases (by 1 ulp)")
    sys.exit(1)
print("ok")
