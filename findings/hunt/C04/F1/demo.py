"""A malformed entry in `matches` escapes as AttributeError, not ValidationError."""
import json
import sys

import pydantic

from soundevent import data

rec = data.Recording(path="a.wav", duration=10, channels=1, samplerate=44100)
clip = data.Clip(recording=rec, start_time=0, end_time=1)
evaluation = data.ClipEvaluation(
    annotations=data.ClipAnnotation(clip=clip),
    predictions=data.ClipPrediction(clip=clip),
)
doc = json.loads(evaluation.model_dump_json())
doc["matches"] = [None]  # a match with neither source nor target, spelled `null`

violations = 0


def attempt(label, func):
    global violations
    try:
        func()
        print(f"{label}: ACCEPTED (must be rejected)")
        violations += 1
    except pydantic.ValidationError as err:
        print(f"{label}: pydantic.ValidationError ({err.errors()[0]['msg']}) -- as required")
    except Exception as err:  # noqa: BLE001
        print(f"{label}: {type(err).__name__}: {err}  <-- not a ValidationError")
        violations += 1


# control: the same "two null sides" match spelled as an object is rejected properly
ok_doc = dict(doc, matches=[{"source": None, "target": None}])
attempt("json  matches=[{source:null,target:null}]", lambda: data.ClipEvaluation.model_validate_json(json.dumps(ok_doc)))

attempt("json  matches=[null]", lambda: data.ClipEvaluation.model_validate_json(json.dumps(doc)))
attempt("dict  matches=[None]", lambda: data.ClipEvaluation.model_validate(doc))
attempt(
    "ctor  matches=[None]",
    lambda: data.ClipEvaluation(
        annotations=evaluation.annotations,
        predictions=evaluation.predictions,
        matches=[None],
    ),
)
attempt("json  Match <- null", lambda: data.Match.model_validate_json("null"))
attempt("json  Match <- []", lambda: data.Match.model_validate_json("[]"))
# every other anchored model reports the same malformed input as a ValidationError
attempt("json  Clip  <- null (control)", lambda: data.Clip.model_validate_json("null"))

print()
print("required: every malformed match is rejected with pydantic.ValidationError,")
print("          identically through constructor, dict validation and JSON validation")
print(f"observed: {violations} path(s) leaked an AttributeError")
sys.exit(1 if violations else 0)
