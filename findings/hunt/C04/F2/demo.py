"""AOEF loading accepts a clip evaluation whose match names a foreign prediction."""
import json
import sys
import tempfile
from pathlib import Path

import pydantic

from soundevent import data, io

REC, CLIP, SE, ANN, CANN, CPRED, MATCH, CEVAL, EVAL, FOREIGN, GHOST = (
    f"00000000-0000-0000-0000-{i:012d}" for i in range(1, 12)
)

# One clip, one annotated sound event, NO predicted sound events.  The only match
# pairs the annotation with a prediction (FOREIGN) that is not a prediction of the clip.
aoef_doc = {
    "version": "1.1.0",
    "created_on": "2024-01-01T00:00:00",
    "data": {
        "collection_type": "evaluation",
        "uuid": EVAL,
        "evaluation_task": "demo",
        "recordings": [{"uuid": REC, "path": "a.wav", "duration": 10, "channels": 1, "samplerate": 44100}],
        "clips": [{"uuid": CLIP, "recording": REC, "start_time": 0, "end_time": 1}],
        "sound_events": [{"uuid": SE, "recording": REC, "geometry": {"type": "TimeInterval", "coordinates": [0, 1]}}],
        "sound_event_annotations": [{"uuid": ANN, "sound_event": SE}],
        "clip_annotations": [{"uuid": CANN, "clip": CLIP, "sound_events": [ANN]}],
        "clip_predictions": [{"uuid": CPRED, "clip": CLIP}],
        "matches": [{"uuid": MATCH, "source": FOREIGN, "target": ANN, "affinity": 0.5}],
        "clip_evaluations": [
            {"uuid": CEVAL, "annotations": CANN, "predictions": CPRED, "matches": [MATCH, GHOST]}
        ],
    },
}

# --- the same arrangement through the constructor -------------------------------------------
rec = data.Recording(uuid=REC, path="a.wav", duration=10, channels=1, samplerate=44100)
clip = data.Clip(uuid=CLIP, recording=rec, start_time=0, end_time=1)
se = data.SoundEvent(uuid=SE, recording=rec, geometry=data.TimeInterval(coordinates=[0, 1]))
ann = data.SoundEventAnnotation(uuid=ANN, sound_event=se)
foreign = data.SoundEventPrediction(uuid=FOREIGN, sound_event=se, score=0.5)
try:
    data.ClipEvaluation(
        annotations=data.ClipAnnotation(uuid=CANN, clip=clip, sound_events=[ann]),
        predictions=data.ClipPrediction(uuid=CPRED, clip=clip),
        matches=[data.Match(uuid=MATCH, source=foreign, target=ann, affinity=0.5)],
    )
    ctor = "accepted"
except pydantic.ValidationError as err:
    ctor = "rejected: " + err.errors()[0]["msg"]
print("constructor :", ctor)

# --- through AOEF loading -------------------------------------------------------------------
path = Path(tempfile.mkdtemp()) / "evaluation.json"
path.write_text(json.dumps(aoef_doc))
try:
    loaded = io.load(path)
    ce = loaded.clip_evaluations[0]
    described = [
        (m.source.uuid if m.source else None, m.target.uuid if m.target else None)
        for m in ce.matches
    ]
    aoef = f"accepted, matches (source, target) = {described}"
    accepted = True
except (pydantic.ValidationError, ValueError) as err:
    aoef = f"rejected: {type(err).__name__}"
    accepted = False
print("io.load     :", aoef)

print()
print("required: a clip evaluation whose match names a sound event that is not predicted for the")
print("          clip (and that lists a match that does not exist) is rejected on every path")
if accepted and ctor.startswith("rejected"):
    print("observed: io.load accepts it, silently turning the two-sided match into an unmatched")
    print("          annotation (source=None) and dropping the unknown match id")
    sys.exit(1)
sys.exit(0)
