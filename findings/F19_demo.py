"""F19: Clip._validate_times ran as a `before` model validator, i.e. on the raw input.  pydantic (lax mode) turns numeric strings
into floats only afterwards, so the ordering test compared STRINGS: Clip(start_time="10", end_time="2") was constructed with
start_time 10.0 > end_time 2.0 (a clip that starts after it ends), the valid ("2", "10") was rejected, a missing key left as
KeyError and mixed str / number input as TypeError -- through the constructor, dict validation and JSON validation alike.
Repaired: the validator runs in `after` mode on the validated attributes."""
import json
from pathlib import Path

from pydantic import ValidationError

from soundevent import data

r = data.Recording(path=Path("a.wav"), duration=100, channels=1, samplerate=44100)
bad = 0


def attempt(label, fn):
    try:
        c = fn()
        return f"accepted ({c.start_time}, {c.end_time})"
    except ValidationError:
        return "ValidationError"
    except Exception as e:  # noqa: BLE001
        return type(e).__name__


rj = json.loads(r.model_dump_json())
cases = [
    ("start='10' end='2' (starts after it ends)", {"start_time": "10", "end_time": "2"}, "ValidationError"),
    ("start='2' end='10' (valid)", {"start_time": "2", "end_time": "10"}, "accepted (2.0, 10.0)"),
    ("start='10' end=2 (starts after it ends)", {"start_time": "10", "end_time": 2}, "ValidationError"),
    ("end_time missing", {"start_time": 1}, "ValidationError"),
    ("start=3 end=1 (numbers)", {"start_time": 3, "end_time": 1}, "ValidationError"),
    ("start=1 end=1 (equal)", {"start_time": 1, "end_time": 1}, "accepted (1.0, 1.0)"),
]
for label, kw, want in cases:
    outs = {
        "constructor": attempt(label, lambda: data.Clip(recording=r, **kw)),
        "dict": attempt(label, lambda: data.Clip.model_validate({"recording": r, **kw})),
        "json": attempt(label, lambda: data.Clip.model_validate_json(json.dumps({"recording": rj, **kw}))),
    }
    ok = all(v == want for v in outs.values())
    bad += not ok
    print(("OK   " if ok else "WRONG"), label, "->", outs, "| expected", want)
raise SystemExit(1 if bad else 0)
