"""F10: sound_event_classification labels three different run metrics 'Balanced Accuracy'.
F11: a clip without sound events makes sound_event_classification fail (np.mean([]) = NaN -> ValidationError)."""
from soundevent import data
from soundevent.evaluation import sound_event_classification
rec = data.Recording(path="a.wav", duration=10, channels=1, samplerate=44100)
clip = data.Clip(recording=rec, start_time=0, end_time=10)
clip2 = data.Clip(recording=rec, start_time=0, end_time=5)
TAGS = [data.Tag(term=data.term_from_key("species"), value=v) for v in "abcd"]
se = data.SoundEvent(recording=rec, geometry=data.TimeStamp(coordinates=1))
ann = data.SoundEventAnnotation(sound_event=se, tags=[TAGS[0]])
pred = data.SoundEventPrediction(sound_event=se, score=1, tags=[data.PredictedTag(tag=TAGS[0], score=0.9)])
ev = sound_event_classification([data.ClipPrediction(clip=clip, sound_events=[pred])], [data.ClipAnnotation(clip=clip, sound_events=[ann])], tags=TAGS)
labels = [m.term.label for m in ev.metrics]
print("F10 run metric labels:", labels, "DISTINCT" if len(set(labels)) == len(labels) else "DUPLICATED")
try:
    ev = sound_event_classification([data.ClipPrediction(clip=clip, sound_events=[pred]), data.ClipPrediction(clip=clip2)],
                                    [data.ClipAnnotation(clip=clip, sound_events=[ann]), data.ClipAnnotation(clip=clip2)], tags=TAGS)
    print("F11 empty clip: OK score", ev.clip_evaluations[1].score)
except Exception as e:
    print("F11 empty clip: RAISES", type(e).__name__)
