"""F16: rasterize takes the raster shape from array.shape, so a non-square template laid out (time, frequency) fails."""
import numpy as np, xarray as xr
from soundevent import data
from soundevent.arrays import create_time_range, create_frequency_range
from soundevent.geometry import rasterize
t = create_time_range(0, 5, step=1.0); f = create_frequency_range(0, 8, step=1.0)
box = data.BoundingBox(coordinates=[1, 2, 3, 5])
for dims, shape in ((("frequency", "time"), (8, 5)), (("time", "frequency"), (5, 8))):
    arr = xr.DataArray(np.zeros(shape), dims=dims, coords={"time": t, "frequency": f})
    try:
        out = rasterize([box], arr)
        print("F16 template dims", dims, "->", dict(out.sizes), "marked", int(out.sum()), "OK")
    except Exception as e:
        print("F16 template dims", dims, "-> RAISES", type(e).__name__)
