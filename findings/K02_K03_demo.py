"""K02 / K03 (known findings, not repaired).  The data models accept a collection whose own list names the same object twice
(Dataset(recordings=[r, r])).  C02 demands identifiers unique within every top-level list of the document, C01 demands that the
loaded collection equals the saved one.  For such an input the two cannot both hold:
  K02  RecordingSet / Dataset, AnnotationSet / EvaluationSet / AnnotationProject, PredictionSet / ModelRun write their own list
       element by element: the document lists the same uuid twice (C02 violated, C01 kept);
  K03  Evaluation writes clip_evaluations through the sub-adapter's values(): the document is unique, the loaded list is shorter
       than the saved one (C01 violated, C02 kept).
Either repair moves the violation to the other property, so both are recorded."""
import json
import sys
import tempfile
from pathlib import Path

from soundevent import data, io

rec = data.Recording(path=Path("r.wav"), duration=10, channels=1, samplerate=8000)
clip = data.Clip(recording=rec, start_time=0, end_time=1)
ce = data.ClipEvaluation(annotations=data.ClipAnnotation(clip=clip), predictions=data.ClipPrediction(clip=clip), score=0.5)
tmp = Path(tempfile.mkdtemp())
bad = 0

ds = data.Dataset(name="d", recordings=[rec, rec])
io.save(ds, tmp / "ds.json")
ids = [r["uuid"] for r in json.loads((tmp / "ds.json").read_text())["data"]["recordings"]]
ok = len(ids) == len(set(ids))
bad += not ok
print("OK   " if ok else "K02  ", "Dataset(recordings=[r, r]) -> document lists", len(ids), "recordings,", len(set(ids)), "distinct uuid(s) | C02 requires unique identifiers")

ev = data.Evaluation(evaluation_task="t", clip_evaluations=[ce, ce], score=0.5)
io.save(ev, tmp / "ev.json")
back = io.load(tmp / "ev.json")
ok = len(back.clip_evaluations) == len(ev.clip_evaluations)
bad += not ok
print("OK   " if ok else "K03  ", "Evaluation(clip_evaluations=[A, A]) -> loaded with", len(back.clip_evaluations), "clip evaluation(s) | C01 requires", len(ev.clip_evaluations))
sys.exit(1 if bad else 0)
