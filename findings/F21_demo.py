"""F21: label_from_tags(tags, select_by_key=k, value_only=...) raised TypeError("label_from_tag() got multiple values for keyword
argument 'value_only'"): the option travels in **kwargs and the select_by_key branch also passed value_only=True explicitly.  It
showed through segment_from_annotation / sequence_from_annotations / bbox_from_annotation too (ignore_errors only catches
ValueError).  Repaired: the caller's value_only overrides the branch's default."""
import sys

from soundevent import data
from soundevent.io.crowsetta.labels import label_from_tags

tags = [data.Tag(term=data.term_from_key("animal"), value="dog"), data.Tag(term=data.term_from_key("sex"), value="f")]
bad = 0
for kw, want in (({}, "dog"), ({"value_only": True}, "dog"), ({"value_only": False}, "animal:dog")):
    try:
        got = label_from_tags(tags, select_by_key="animal", **kw)
    except Exception as e:  # noqa: BLE001
        got = f"{type(e).__name__}: {e}"
    ok = got == want
    bad += not ok
    print("OK   " if ok else "WRONG", f"label_from_tags(tags, select_by_key='animal', **{kw}) ->", repr(got), "| required", repr(want))
sys.exit(1 if bad else 0)
