"""F20: RecordingAdapter.assemble_aoef decided "inside the audio directory" with Path.relative_to alone, which is a purely lexical
prefix test: a recording at audio_dir/../private/x.wav (outside the directory) was saved without error, its stored path was
'../private/x.wav', and loading under another directory B gave B/../private/x.wav -- outside B as well.  Repaired: a relative
path that climbs out of the directory after normalisation is rejected; paths with an inner 'sub/../' that stay inside are kept
as they are (so the round trip stays literal)."""
import json
import os
import sys
import tempfile
from pathlib import Path

from soundevent import data, io

audio_dir = Path("/data/audio")
bad = 0
for rec_path, outside in [("/data/audio/../private/x.wav", True), ("/data/audio/a/../../b/x.wav", True),
                          ("/data/audio/sub/../x.wav", False), ("/data/audio/..x/x.wav", False), ("/data/audio/x.wav", False)]:
    obj = data.RecordingSet(recordings=[data.Recording(path=Path(rec_path), duration=1, channels=1, samplerate=8000)])
    out = Path(tempfile.mkdtemp()) / "set.json"
    try:
        io.save(obj, out, audio_dir=audio_dir)
        saved = json.loads(out.read_text())["data"]["recordings"][0]["path"]
        back = io.load(out, audio_dir=audio_dir).recordings[0].path
        res = f"saved as {saved!r}, reloaded as {str(back)!r}"
        ok = (not outside) and str(back) == rec_path
    except ValueError:
        res = "ValueError (nothing written)" if not out.exists() else "ValueError (but a file was written)"
        ok = outside and not out.exists()
    bad += not ok
    print("OK   " if ok else "WRONG", rec_path, "(normalised", os.path.normpath(rec_path) + ")", "->", res, "| required:",
          "rejected" if outside else "stored relative, round trip literal")
sys.exit(1 if bad else 0)
