"""K04 / K05 (known findings, not repaired) -- both need geometries that the validators accept although they are degenerate or
invalid in the OGC sense.
  K04  compute_bounds is shapely's `.bounds`, the envelope of the exterior rings: for a polygon whose interior ring reaches
       outside the shell the bounds are not min / max over its coordinates (duration, bandwidth and positions follow).
  K05  position 'centroid' is the GEOS centroid as computed: 1-3 ulp outside the bounds on a zero-extent axis, and outside
       them altogether for a self-crossing ring.
Whether to repair in compute_bounds / get_geometry_point (coordinate min / max, clamping) or in the validators (reject such
rings) is the maintainers' decision."""
import sys

from soundevent import data
from soundevent.geometry import compute_bounds, get_geometry_point

bad = 0
poly = data.Polygon(coordinates=[[[1, 1], [3, 1], [3, 3], [1, 3]], [[2, 2], [4, 2], [2, 2.5]]])
b = compute_bounds(poly)
ok = b == (1.0, 1.0, 4.0, 3.0)
bad += not ok
print("OK   " if ok else "K04  ", "bounds of a polygon whose hole reaches t=4:", b, "| min / max over its coordinates: (1, 1, 4, 3)")
line = data.LineString(coordinates=[[0, 0.1], [0.1, 0.1]])
c, lb = get_geometry_point(line, "centroid"), compute_bounds(line)
ok = lb[0] <= c[0] <= lb[2] and lb[1] <= c[1] <= lb[3]
bad += not ok
print("OK   " if ok else "K05  ", "centroid of a zero-bandwidth line:", c, "bounds", lb)
bow = data.Polygon(coordinates=[[[0, 0], [0, 2], [1, 0], [2, 1]]])
c, lb = get_geometry_point(bow, "centroid"), compute_bounds(bow)
ok = lb[0] <= c[0] <= lb[2] and lb[1] <= c[1] <= lb[3]
bad += not ok
print("OK   " if ok else "K05  ", "centroid of a self-crossing ring:", c, "bounds", lb)
sys.exit(1 if bad else 0)
