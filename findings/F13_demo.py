"""F13: segment_clip's loop bound floor(duration / hop) cuts the hop lattice short."""
from soundevent import data
from soundevent.operations import segment_clip
rec = data.Recording(path="a.wav", duration=20, channels=1, samplerate=8000)
clip = data.Clip(recording=rec, start_time=0, end_time=10)
a = [(c.start_time, c.end_time) for c in segment_clip(clip, duration=3, hop=3, include_incomplete=True)]
b = [(c.start_time, c.end_time) for c in segment_clip(clip, duration=1, hop=4)]
print("F13 incomplete:", a, "OK" if a == [(0, 3), (3, 6), (6, 9), (9, 10)] else "LAST-SECOND-MISSING")
print("F13 hop 4 dur 1:", b, "OK" if b == [(0, 1), (4, 5), (8, 9)] else "WINDOW-AT-8-MISSING")
