"""F26: io.aoef.save / load wrote and read the document with write_text / read_text and no explicit encoding, i.e. in the
locale's preferred encoding.  Under a non-UTF-8 locale a recording with a non-ASCII file name could not be saved
(UnicodeEncodeError after the target had been truncated) and a UTF-8 document could not be loaded.  The demo re-executes itself
with LC_ALL=C PYTHONUTF8=0 PYTHONCOERCECLOCALE=0.  Repaired: encoding="utf-8" on both sides."""
import os
import subprocess
import sys
import tempfile
from pathlib import Path

if os.environ.get("F26_CHILD") != "1":
    env = dict(os.environ, LC_ALL="C", LANG="C", PYTHONUTF8="0", PYTHONCOERCECLOCALE="0", F26_CHILD="1")
    sys.exit(subprocess.run([sys.executable, __file__], env=env).returncode)

from soundevent import data, io  # noqa: E402

name = "café/文件.wav"
audio_dir = Path("/data/audio")
obj = data.RecordingSet(recordings=[data.Recording(path=audio_dir / name, duration=1, channels=1, samplerate=8000)])
out = Path(tempfile.mkdtemp()) / "set.json"
try:
    io.save(obj, out, audio_dir=audio_dir)
    back = io.load(out, audio_dir="/mnt/new").recordings[0].path
    ok = back == Path("/mnt/new") / name
    print("OK   " if ok else "WRONG", "saved and reloaded under a non-UTF-8 locale:", ascii(str(back)))
except Exception as e:  # noqa: BLE001
    ok = False
    print("WRONG", type(e).__name__, "under LC_ALL=C; target file size", out.stat().st_size if out.exists() else None,
          "| required: the relative path is stored and relocated whatever the locale")
sys.exit(0 if ok else 1)
