"""F7/F8/F9 against the real sound_event_detection.
F7: indices of geometry-filtered lists are applied to the unfiltered lists (wrong events credited).
F8: a geometry-less sound event is never matched -> ClipEvaluation validator raises.
F9: a two-sided match always reports affinity 1 instead of the geometric affinity."""
from soundevent import data
from soundevent.evaluation import sound_event_detection

rec = data.Recording(path="a.wav", duration=10, channels=1, samplerate=44100)
clip = data.Clip(recording=rec, start_time=0, end_time=10)
tag = data.Tag(term=data.term_from_key("species"), value="x")
TAGS = [tag] + [data.Tag(term=data.term_from_key("species"), value=v) for v in "abc"]
box = lambda a, b, c, d: data.BoundingBox(coordinates=[a, b, c, d])
se = lambda g: data.SoundEvent(recording=rec, geometry=g)

# F9: half-overlapping boxes
ann = data.SoundEventAnnotation(sound_event=se(box(0, 1000, 2, 2000)), tags=[tag])
pred = data.SoundEventPrediction(sound_event=se(box(1, 1000, 3, 2000)), score=1, tags=[data.PredictedTag(tag=tag, score=0.9)])
ev = sound_event_detection([data.ClipPrediction(clip=clip, sound_events=[pred])], [data.ClipAnnotation(clip=clip, sound_events=[ann])], tags=TAGS)
m = [m for m in ev.clip_evaluations[0].matches if m.source is not None and m.target is not None][0]
print("F9 affinity of half-overlapping boxes:", round(m.affinity, 3), "OK" if abs(m.affinity - 1 / 3) < 1e-6 else "WRONG (expected 0.333)")

# F8: a geometry-less annotation
ann0 = data.SoundEventAnnotation(sound_event=se(None), tags=[tag])
try:
    ev = sound_event_detection([data.ClipPrediction(clip=clip, sound_events=[pred])], [data.ClipAnnotation(clip=clip, sound_events=[ann0, ann])], tags=TAGS)
    ms = ev.clip_evaluations[0].matches
    print("F8 geometry-less annotation:", "OK" if sum(1 for m in ms if m.target is not None and m.target.uuid == ann0.uuid) == 1 else "NOT-COVERED")
    # F7: with ann0 first, the matched annotation must be `ann` (index 1), not ann0
    two = [m for m in ms if m.source is not None and m.target is not None]
    print("F7 matched annotation is the overlapping one:", "OK" if two and two[0].target.uuid == ann.uuid else "WRONG-EVENT")
except Exception as e:
    print("F8 geometry-less annotation: RAISES", type(e).__name__)
    print("F7 (masked by F8 crash)")
