"""F3: a tag that occurs only in EvaluationSet.evaluation_tags is referenced but not defined in the document."""
import json
from soundevent import data
from soundevent.io import aoef

tag = data.Tag(term=data.term_from_key("species"), value="Myotis")
es = data.EvaluationSet(name="x", evaluation_tags=[tag])
doc = json.loads(aoef.to_aeof(es).model_dump_json(exclude_none=True))["data"]
print("evaluation_tags:", doc.get("evaluation_tags"), " tags defined:", doc.get("tags"))
back = aoef.to_soundevent(aoef.AOEFObject.model_validate_json(aoef.to_aeof(es).model_dump_json(exclude_none=True)))
print("F3:", "CLOSED" if back.evaluation_tags == [tag] else f"DANGLING (loaded evaluation_tags={list(back.evaluation_tags)})")
