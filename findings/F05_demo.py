"""F5: compute_affinity of a buffered LineString with itself exceeds 1 (and Match(affinity=...) then rejects it)."""
from soundevent import data
from soundevent.evaluation import compute_affinity
g = data.LineString(coordinates=[[3.1869, 17566.9], [5.8090, 31877.99]])
a = compute_affinity(g, g)
print("F5 affinity:", repr(a), "IN-RANGE" if 0 <= a <= 1 else "EXCEEDS-1")
