"""Demonstrates F1 (Recording.license lost) and F2 (prediction-set sequences lost) against the real code.
Run: /venv/bin/python findings/F01_F02_demo.py   (prints LOST / KEPT per case)"""
import tempfile, os
from soundevent import data, io

rec = data.Recording(path="/a/b.wav", duration=1, channels=1, samplerate=8000, license="CC-BY")
with tempfile.TemporaryDirectory() as d:
    p = os.path.join(d, "rs.json")
    io.save(data.RecordingSet(recordings=[rec]), p)
    back = io.load(p)
    print("F1 license:", "KEPT" if back.recordings[0].license == "CC-BY" else f"LOST ({back.recordings[0].license!r})")

    se = data.SoundEvent(recording=rec, geometry=data.TimeStamp(coordinates=0.5))
    seq = data.Sequence(sound_events=[se])
    clip = data.Clip(recording=rec, start_time=0, end_time=1)
    cp = data.ClipPrediction(clip=clip, sequences=[data.SequencePrediction(sequence=seq, score=0.5)])
    p2 = os.path.join(d, "ps.json")
    io.save(data.PredictionSet(clip_predictions=[cp]), p2)
    back = io.load(p2)
    n = len(back.clip_predictions[0].sequences)
    print("F2 prediction-set sequences:", "KEPT" if n == 1 else f"LOST ({n} of 1)")
