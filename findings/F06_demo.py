"""F6: two disjoint boxes are reported as a match with affinity 0.0 instead of two one-sided entries."""
from soundevent import data
from soundevent.evaluation import match_geometries
a = data.BoundingBox(coordinates=[0, 1000, 1, 2000])
b = data.BoundingBox(coordinates=[5, 5000, 6, 6000])
out = list(match_geometries([a], [b]))
print("F6 matches:", out, "OK" if sorted(out, key=str) == sorted([(0, None, 0.0), (None, 0, 0.0)], key=str) else "PAIRED-WITHOUT-OVERLAP")
