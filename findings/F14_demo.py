"""F14: compute_spectrogram advertises the requested hop as the time step, but the coordinates advance by the truncated hop."""
import numpy as np, xarray as xr
from soundevent.arrays import create_time_range
from soundevent.audio.spectrograms import compute_spectrogram
sr = 44100
t = create_time_range(0, 3, samplerate=sr)
audio = xr.DataArray(np.random.default_rng(0).normal(size=(t.size, 1)), dims=("time", "channel"), coords={"time": t, "channel": [0]})
spec = compute_spectrogram(audio, window_size=0.01, hop_size=0.0033)
times = spec.time.data
step = spec.time.attrs["step"]
drift = max(abs(times[i] - (times[0] + i * step)) for i in range(len(times)))
print(f"F14 advertised step {step:.7f}, realised {np.diff(times).mean():.7f}, max deviation from first + i*step = {drift / step:.2f} steps",
      "OK" if drift <= step else "AXIS-DISAGREES-WITH-STEP")
