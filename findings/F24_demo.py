"""F24: soundevent.geometry did not export have_temporal_overlap -- its __init__ imported have_frequency_overlap only and listed
"have_frequency_overlap" twice in __all__ -- so the predicate the property observes through soundevent.geometry raised
AttributeError / ImportError there.  Repaired: imported and listed."""
import sys

import soundevent.geometry as g
from soundevent import data

a, b = data.TimeInterval(coordinates=[0, 2]), data.TimeInterval(coordinates=[1, 3])
bad = 0
for name in ("intervals_overlap", "have_temporal_overlap", "have_frequency_overlap", "is_in_clip"):
    ok = hasattr(g, name) and name in g.__all__ and g.__all__.count(name) == 1
    bad += not ok
    print("OK   " if ok else "WRONG", f"soundevent.geometry.{name}:", "exported once" if ok else "missing or listed twice")
if hasattr(g, "have_temporal_overlap"):
    print("have_temporal_overlap([0,2],[1,3]) =", g.have_temporal_overlap(a, b))
sys.exit(1 if bad else 0)
