"""F12: label_to_tags loses an explicit `key` when `key_mapping` is given but does not contain the label."""
from soundevent.io.crowsetta.labels import label_to_tags
t = label_to_tags("abc", key_mapping={"zzz": "k"}, key="species")[0]
print("F12 term label:", t.term.label, "OK" if t.term.label == "species" else "EXPLICIT-KEY-LOST")
