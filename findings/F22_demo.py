"""F22: label_to_tags consulted tag_mapping and key_mapping only `if term is None`.  The guard was meant for a term_mapping hit,
but an explicit `term=` tripped it too: label_to_tags("dog", term=T, tag_mapping={"dog": mapped}) returned [Tag(T, "dog")] and the
mapping was ignored (same for key_mapping), although the documented cascade is: function, term / tag / key mappings, explicit
term or key, fallback.  Repaired: a mapping hit returns at once; the explicit term is used when no mapping has the label."""
import sys

from soundevent import data
from soundevent.io.crowsetta.labels import label_to_tags

T = data.term_from_key("explicit")
mapped = data.Tag(term=data.term_from_key("mapped"), value="Canis")
TM = data.term_from_key("from_term_mapping")
cases = [
    ("term + tag_mapping hit", dict(term=T, tag_mapping={"dog": mapped}), [mapped]),
    ("term + key_mapping hit", dict(term=T, key_mapping={"dog": "species"}), [data.Tag(term=data.term_from_key("species"), value="dog")]),
    ("term + tag_mapping miss", dict(term=T, tag_mapping={"cat": mapped}), [data.Tag(term=T, value="dog")]),
    ("term + key_mapping miss", dict(term=T, key_mapping={"cat": "species"}), [data.Tag(term=T, value="dog")]),
    ("key + tag_mapping hit", dict(key="k", tag_mapping={"dog": mapped}), [mapped]),
    ("term_mapping hit + tag_mapping hit", dict(term_mapping={"dog": TM}, tag_mapping={"dog": mapped}), [data.Tag(term=TM, value="dog")]),
    ("term_mapping hit + explicit term", dict(term_mapping={"dog": TM}, term=T), [data.Tag(term=TM, value="dog")]),
    ("explicit term only", dict(term=T), [data.Tag(term=T, value="dog")]),
    ("key_mapping miss + explicit key", dict(key="k", key_mapping={"cat": "species"}), [data.Tag(term=data.term_from_key("k"), value="dog")]),
]
bad = 0
for name, kw, want in cases:
    got = label_to_tags("dog", **kw)
    ok = got == want
    bad += not ok
    print("OK   " if ok else "WRONG", name, "->", [(t.term.label, t.value) for t in got], "| required", [(t.term.label, t.value) for t in want])
sys.exit(1 if bad else 0)
