"""F23: metrics.classification_score / true_class_probability returned `1 - y_score.sum()` for an unlabelled item.  The scores
are float32 (prediction_encoding); for scores adding up to exactly 1 (0.3 + 0.4 + 0.1 + 0.2) their float32 sum is 1.0000001 and
the result -1.19e-07, which the `score >= 0` constraints reject: clip_classification, sound_event_classification and
sound_event_detection then raise a ValidationError instead of returning an evaluation.  Repaired: clamped at 0."""
import sys
from pathlib import Path

from soundevent import data
from soundevent.evaluation import clip_classification

terms = [data.term_from_key(k) for k in "abcd"]
tags = [data.Tag(term=t, value="x") for t in terms]
rec = data.Recording(path=Path("r.wav"), duration=10, channels=1, samplerate=8000)
clip = data.Clip(recording=rec, start_time=0, end_time=1)
ann = data.ClipAnnotation(clip=clip, tags=[])  # unlabelled: true class 'none'
pred = data.ClipPrediction(clip=clip, tags=[data.PredictedTag(tag=t, score=s) for t, s in zip(tags, (0.3, 0.4, 0.1, 0.2))])
try:
    ev = clip_classification([pred], [ann], tags)
    score = ev.clip_evaluations[0].score
    ok = score is not None and 0 <= score <= 1e-6
    print("OK   " if ok else "WRONG", "clip score for an unlabelled clip with scores summing to 1:", score, "| required: 0 (within rounding), in [0, 1]")
except Exception as e:  # noqa: BLE001
    ok = False
    print("WRONG", type(e).__name__, str(e).splitlines()[0], "| required: an evaluation whose clip score is 0")
sys.exit(0 if ok else 1)
