"""F25: Match._validate_match ran as a before-mode model validator and called `values.get(...)` on the raw input: for an input
that is not a mapping (JSON null / list / string, e.g. a clip evaluation document with "matches": [null]) an AttributeError
escaped pydantic instead of the validation error every other model gives.  Repaired: the test runs in after mode on the
validated attributes (as Clip._validate_times since F19)."""
import sys

from pydantic import ValidationError

from soundevent import data

bad = 0


def attempt(fn):
    try:
        fn()
        return "accepted"
    except ValidationError:
        return "ValidationError"
    except Exception as e:  # noqa: BLE001
        return type(e).__name__


for label, fn, want in [
    ("Match.model_validate_json('null')", lambda: data.Match.model_validate_json("null"), "ValidationError"),
    ("Match.model_validate_json('[]')", lambda: data.Match.model_validate_json("[]"), "ValidationError"),
    ("Match.model_validate('x')", lambda: data.Match.model_validate("x"), "ValidationError"),
    ("Match(source=None, target=None)", lambda: data.Match(source=None, target=None), "ValidationError"),
    ("Match()", lambda: data.Match(), "ValidationError"),
    ("Match.model_validate({})", lambda: data.Match.model_validate({}), "ValidationError"),
]:
    got = attempt(fn)
    ok = got == want
    bad += not ok
    print("OK   " if ok else "WRONG", label, "->", got, "| required", want)
sys.exit(1 if bad else 0)
