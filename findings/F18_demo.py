"""F18: mean_average_precision masked "unlabelled" entries with np.isnan(y_true) whatever the rank of y_true.  For the
indicator matrices of clip_multilabel_classification the mask has the matrix's shape, boolean indexing flattens both
arrays, and the value labelled 'Mean Average Precision' is the micro-averaged precision.  Repaired: mask only for 1-D truths."""
import numpy as np
from sklearn import metrics as skm
from soundevent.evaluation import metrics
y_true = np.array([[1, 0, 1], [0, 1, 0], [1, 1, 0], [0, 0, 1]], dtype=float)
y_score = np.array([[0.9, 0.2, 0.4], [0.6, 0.7, 0.1], [0.3, 0.8, 0.5], [0.2, 0.3, 0.6]])
got = metrics.mean_average_precision(y_true, y_score)
macro = skm.average_precision_score(y_true, y_score, average="macro")
micro = skm.average_precision_score(y_true, y_score, average="micro")
print(f"F18 multilabel mean_average_precision = {got:.6f}; mean over classes = {macro:.6f}; micro = {micro:.6f}", "OK" if abs(got - macro) < 1e-12 else "WRONG (micro)")
