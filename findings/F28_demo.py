"""F28: load_audio called fp.seek(offset) with the offset as given.  libsndfile refuses a position beyond the last frame, so a clip
that starts after the end of the file (Clip(2.1, 2.5) on a 2 s recording) failed with LibsndfileError, while a clip that starts
inside the file -- or exactly at its end -- and reaches past it is zero-filled as the property says.  Repaired: the position is
capped at the number of frames; the read then yields only fill values."""
import sys
import tempfile
from pathlib import Path

import numpy as np
import soundfile as sf

from soundevent import audio, data

wav = Path(tempfile.mkdtemp()) / "a.wav"
try:
    sf.write(wav, np.linspace(-0.5, 0.5, 20), 10)
    rec = data.Recording.from_file(wav)
except Exception as e:  # noqa: BLE001
    print("SKIP (cannot write a wav file here):", type(e).__name__, e)
    sys.exit(0)
bad = 0
for start, end in ((1.5, 2.5), (2.0, 2.5), (2.1, 2.5), (5.0, 6.0)):
    try:
        arr = audio.load_clip(data.Clip(recording=rec, start_time=start, end_time=end))
        want = int(np.floor((end - start) * 10 + 1e-9))
        past = arr.data[max(0, 20 - int(start * 10)):]
        ok = abs(arr.sizes["time"] - want) <= 1 and not np.any(past)  # (2.5 - 2.1) * 10 is 3.9999999999999996: the floor is not the point here
        print("OK   " if ok else "WRONG", f"clip [{start}, {end}] of a 2 s file ->", arr.sizes["time"], "frames, past-the-end frames all zero:", not np.any(past))
    except Exception as e:  # noqa: BLE001
        ok = False
        print("WRONG", f"clip [{start}, {end}] of a 2 s file ->", type(e).__name__, str(e)[:60], "| required: zero-filled frames")
    bad += not ok
sys.exit(1 if bad else 0)
