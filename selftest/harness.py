"""E11 -- sensitivity self-test.

Each catalogue entry is a small source edit (exact text replacement in one file of the *current* tree, applied
to an in-memory overlay -- nothing is written into /repo).  A *mutant* must be reported by the named rule of the
property; a *neutral* variant (behaviour-preserving refactor) must leave the check silent (exit 0).  A surviving
mutant or a noisy neutral variant means the checker is unreliable: exit 2 (it says nothing about /repo).
Entries whose anchor text is no longer present are skipped and listed (the tree changed under the catalogue).
"""

from __future__ import annotations

import importlib
import json
import os
import time
from concurrent.futures import ProcessPoolExecutor
from dataclasses import dataclass
from typing import List, Optional

from sa.index import AnalysisError, Index
from sa.report import VERIF, Ctx, load_known, match_known


@dataclass
class V:
    id: str
    file: str          # path relative to the repository root
    old: str
    new: str
    expect: Optional[str] = None   # rule id that must fire (prefix match); None => neutral variant
    occurrence: int = 0            # which occurrence of `old` to replace (0-based); -1 = all
    also: tuple = ()               # further (file, old, new) edits applied together
    why: str = ""


def apply_edit(src: str, old: str, new: str, occurrence: int) -> Optional[str]:
    if old not in src:
        return None
    if occurrence == -1:
        return src.replace(old, new)
    parts = src.split(old)
    if occurrence >= len(parts) - 1:
        return None
    return old.join(parts[: occurrence + 1]) + new + old.join(parts[occurrence + 1:])


def _run_one(args):
    prop, root, v = args
    edits = [(v.file, v.old, v.new, v.occurrence)] + [(f, o, n, 0) for f, o, n in v.also]
    overlay = {}
    for f, o, n, occ in edits:
        p = os.path.join(root, f)
        try:
            src = overlay.get(f) or open(p, encoding="utf-8").read()
        except FileNotFoundError:
            if o == "":
                overlay[f] = n  # the variant adds a module
                continue
            return v.id, "stale", f"file {f} missing"
        out = apply_edit(src, o, n, occ)
        if out is None:
            return v.id, "stale", f"anchor text not found in {f}"
        overlay[f] = out
    try:
        compile(overlay[v.file], v.file, "exec")
    except SyntaxError as e:
        return v.id, "invalid", f"variant does not compile: {e}"
    try:
        mod = importlib.import_module(f"rules.{prop.lower()}")
        ctx = Ctx(prop, Index(root, overlay), "quick")
        from sa.cli import run_rules
        run_rules(mod, ctx, prop)
    except AnalysisError as e:
        return v.id, "undecided", f"{e.rule} {e.site}: {e}"
    except Exception as e:  # noqa: BLE001
        return v.id, "error", f"{type(e).__name__}: {e}"
    known = load_known()
    new = [f for f in ctx.findings if not match_known(f, known)]
    fl = [f"vacuity {rid}" for rid, n in ctx.floors.items() if ctx.count(rid) < n]
    und = [f"{u.rule} {u.site}: {u.reason}" for u in ctx.undecided] + fl
    rules = sorted({f.rule for f in new})
    if v.expect is None:
        if new:
            return v.id, "noisy", "; ".join(f"{f.rule} {f.func}: {f.message[:80]}" for f in new[:3])
        if und:
            return v.id, "neutral-undecided", "; ".join(und[:3])
        return v.id, "silent", ""
    if any(r.startswith(v.expect) for r in rules):
        return v.id, "killed", ",".join(rules)
    if new:
        return v.id, "killed-other-rule", ",".join(rules)
    if und:
        return v.id, "undecided", "; ".join(und[:3])
    return v.id, "survived", ""


def run_catalogue(prop: str, root: str, rc: int, evidence_dir, jobs: int = 16) -> int:
    try:
        cat = importlib.import_module(f"selftest.catalogue.{prop.lower()}")
    except ModuleNotFoundError:
        print(f"[{prop}] self-test: no catalogue")
        return rc
    variants: List[V] = cat.VARIANTS
    t0 = time.time()
    with ProcessPoolExecutor(max_workers=min(jobs, max(1, len(variants)))) as ex:
        results = list(ex.map(_run_one, [(prop, root, v) for v in variants]))
    by = {v.id: v for v in variants}
    summary = {"mutants_total": 0, "mutants_killed": 0, "neutral_total": 0, "neutral_silent": 0, "stale": [], "failures": []}
    for vid, status, detail in results:
        v = by[vid]
        if status in ("stale", "invalid"):
            summary["stale"].append({"id": vid, "status": status, "detail": detail})
            continue
        if v.expect is None:
            summary["neutral_total"] += 1
            if status == "silent":
                summary["neutral_silent"] += 1
            else:
                summary["failures"].append({"id": vid, "status": status, "detail": detail})
        else:
            summary["mutants_total"] += 1
            if status in ("killed", "killed-other-rule"):
                summary["mutants_killed"] += 1
            else:
                summary["failures"].append({"id": vid, "status": status, "detail": detail, "expected_rule": v.expect})
    summary["wall_s"] = round(time.time() - t0, 2)
    print(f"[{prop}] self-test: mutants {summary['mutants_killed']}/{summary['mutants_total']} reported, "
          f"neutral variants {summary['neutral_silent']}/{summary['neutral_total']} silent, "
          f"{len(summary['stale'])} skipped (anchor text gone), {summary['wall_s']} s")
    for f in summary["failures"]:
        print(f"  SELF-TEST-FAILURE {f['id']}: {f['status']} {f['detail']}")
    for s in summary["stale"]:
        print(f"  self-test skipped {s['id']}: {s['detail']}")
    if evidence_dir:
        p = os.path.join(evidence_dir, f"{prop}.json")
        if os.path.exists(p):
            ev = json.load(open(p))
            ev["tier"] = "thorough"
            ev["coverage"]["selftest"] = summary
            ev["coverage"]["selftest_samples"] = [{"id": vid, "status": st, "detail": d[:160]} for vid, st, d in results[:40]]
            json.dump(ev, open(p, "w"), indent=1, default=str)
    if rc == 0 and summary["failures"]:
        print(f"ANALYSIS-ERROR property={prop} rule=E11 site=selftest reason=checker self-test failed "
              f"({len(summary['failures'])} catalogue entries): the verdict on /repo is not trusted")
        return 2
    return rc


# ----------------------------------------------------------------------------------------------- seeded corpus
def apply_patch(root: str, patch_text: str):
    """Apply a unified diff to the files under `root` in memory -> {relative path: new text}, or None when a hunk's
    context is not found (the tree moved on under the stored change).  Exact context match, nearest position."""
    overlay = {}
    files = []
    cur = None
    for line in patch_text.split("\n"):
        if line.startswith("diff --git "):
            cur = {"path": None, "hunks": [], "new_file": False}
            files.append(cur)
        elif cur is None:
            continue
        elif line.startswith("new file mode"):
            cur["new_file"] = True
        elif line.startswith("deleted file mode"):
            cur["deleted"] = True
        elif line.startswith("+++ "):
            tgt = line[4:].strip()
            cur["path"] = tgt[2:] if tgt.startswith("b/") else tgt
        elif line.startswith("--- "):
            src_ = line[4:].strip()
            cur["apath"] = src_[2:] if src_.startswith("a/") else None
            continue
        elif line.startswith("@@"):
            start = int(line.split()[1].split(",")[0][1:])
            cur["hunks"].append({"start": start, "lines": []})
        elif cur["hunks"] and (line[:1] in (" ", "+", "-") or line == ""):
            if line == "" and not cur["hunks"][-1]["lines"]:
                continue
            cur["hunks"][-1]["lines"].append(line if line else " ")
    for f in files:
        if f.get("deleted") and f.get("apath"):
            overlay[f["apath"]] = None  # the module is gone (typically: turned into a package of the same name)
            continue
        if not f["path"] or not f["hunks"]:
            continue
        if not (f["path"].startswith("src/") and f["path"].endswith(".py")):
            continue  # documentation / test files are not part of the analysed program
        path = os.path.join(root, f["path"])
        if f["new_file"]:
            src_lines = []
        else:
            try:
                src_lines = open(path, encoding="utf-8").read().split("\n")
            except FileNotFoundError:
                return None
        offset = 0
        for h in f["hunks"]:
            body = h["lines"]
            while body and body[-1] == " " and (len(body) > 1) and False:
                body = body[:-1]
            old = [l[1:] for l in body if l[0] in " -"]
            new = [l[1:] for l in body if l[0] in " +"]
            # trailing artefact of splitting the patch text on newlines
            while old and new and old[-1] == "" and new[-1] == "" and body[-1] == " ":
                old, new, body = old[:-1], new[:-1], body[:-1]
            want = max(0, h["start"] - 1 + offset)
            pos = None
            for d in range(0, len(src_lines) + 1):
                for cand in (want - d, want + d):
                    if 0 <= cand <= len(src_lines) - len(old) and src_lines[cand:cand + len(old)] == old:
                        pos = cand
                        break
                if pos is not None:
                    break
            if pos is None:
                return None
            src_lines[pos:pos + len(old)] = new
            offset += len(new) - len(old)
        overlay[f["path"]] = "\n".join(src_lines)
    return overlay


def _run_seeded(args):
    prop, root, name, kind, patch_text = args
    overlay = apply_patch(root, patch_text)
    if overlay is None:
        return name, kind, "stale", "patch context not found in the current tree"
    for fpath, text in overlay.items():
        if text is None:
            continue
        try:
            compile(text, fpath, "exec")
        except SyntaxError as e:
            return name, kind, "stale", f"patched file does not compile: {e}"
    try:
        mod = importlib.import_module(f"rules.{prop.lower()}")
        ctx = Ctx(prop, Index(root, overlay), "quick")
        from sa.cli import run_rules
        run_rules(mod, ctx, prop)
    except AnalysisError as e:
        return name, kind, "undecided", f"{e.rule} {e.site}: {e}"[:200]
    except Exception as e:  # noqa: BLE001
        return name, kind, "error", f"{type(e).__name__}: {e}"[:200]
    known = load_known()
    new = [f for f in ctx.findings if not match_known(f, known)]
    fl = [f"vacuity {rid}" for rid, n in ctx.floors.items() if ctx.count(rid) < n]
    und = [f"{u.rule} {u.site}: {u.reason}" for u in ctx.undecided] + fl
    if new:
        return name, kind, "reported", "; ".join(f"{f.rule} {f.func}" for f in new[:3])[:200]
    if und:
        return name, kind, "undecided", "; ".join(und[:2])[:200]
    return name, kind, "silent", ""


def run_seeded(prop: str, root: str, rc: int, evidence_dir, jobs: int = 16) -> int:
    """Regression over the stored seeded changes (/verif/seeded): every stored defect of this property must be
    reported by this property's check (those recorded as undecided-by-design must at least not pass silently), and
    no stored behaviour-preserving change -- of any property -- may make this check report or lose its footing."""
    sdir = os.path.join(VERIF, "seeded")
    jobs_l = []
    by_design = set()
    open_fa = []
    for d in sorted(os.listdir(sdir)) if os.path.isdir(sdir) else []:
        mp, pp = os.path.join(sdir, d, "meta.json"), os.path.join(sdir, d, "patch.diff")
        if not (os.path.exists(mp) and os.path.exists(pp)):
            continue
        meta = json.load(open(mp))
        if meta.get("retired"):
            continue  # the tree moved on under this change (reason in its meta.json); kept for the record only
        if meta.get("open_false_alarm"):
            open_fa.append(d)  # a behaviour-preserving change that some check still REPORTS (DESIGN 8.25): kept, listed, not yet a regression test
            continue
        kind = meta.get("kind", "defect")
        owner = meta.get("property") or meta.get("breaks_property")
        if kind == "defect" and owner != prop:
            continue
        if meta.get("undecided_by_design"):
            by_design.add(d)  # (for a refactor: recorded as not decided -- exit 2 -- by the owning check; it must never be REPORTED)
        jobs_l.append((prop, root, d, kind, open(pp, encoding="utf-8").read()))
    if not jobs_l:
        return rc
    t0 = time.time()
    with ProcessPoolExecutor(max_workers=min(jobs, len(jobs_l))) as ex:
        results = list(ex.map(_run_seeded, jobs_l))
    summ = {"defects_total": 0, "defects_reported": 0, "defects_undecided_by_design": 0, "neutral_total": 0, "neutral_silent": 0,
            "stale": [], "failures": []}
    for name, kind, status, detail in results:
        if status == "stale":
            summ["stale"].append({"id": name, "detail": detail})
            continue
        if kind == "defect":
            summ["defects_total"] += 1
            if status == "reported":
                summ["defects_reported"] += 1
            elif status in ("undecided", "missed", "silent") and name in by_design:
                # recorded limits of the technique (meta.json says why): not reported, and not a regression either
                summ["defects_undecided_by_design"] += 1
            else:
                summ["failures"].append({"id": name, "kind": kind, "status": status, "detail": detail})
        else:
            summ["neutral_total"] += 1
            if status == "silent" or (status == "undecided" and name in by_design):
                summ["neutral_silent"] += 1
            else:
                summ["failures"].append({"id": name, "kind": kind, "status": status, "detail": detail})
    summ["wall_s"] = round(time.time() - t0, 2)
    print(f"[{prop}] seeded corpus: defects {summ['defects_reported']}/{summ['defects_total']} reported"
          f" (+{summ['defects_undecided_by_design']} undecided by design), behaviour-preserving changes "
          f"{summ['neutral_silent']}/{summ['neutral_total']} silent, {len(summ['stale'])} skipped (context gone)"
          + (f", {len(open_fa)} open false alarm(s) not run (DESIGN 8.25)" if open_fa else "") + f", {summ['wall_s']} s")
    for f in summ["failures"]:
        print(f"  SEEDED-FAILURE {f['id']} ({f['kind']}): {f['status']} {f['detail']}")
    for s_ in summ["stale"]:
        print(f"  seeded skipped {s_['id']}: {s_['detail']}")
    if evidence_dir:
        p = os.path.join(evidence_dir, f"{prop}.json")
        if os.path.exists(p):
            ev = json.load(open(p))
            ev["coverage"]["seeded_corpus"] = summ
            json.dump(ev, open(p, "w"), indent=1, default=str)
    if rc == 0 and summ["failures"]:
        print(f"ANALYSIS-ERROR property={prop} rule=E11 site=seeded reason=checker regression on the seeded corpus "
              f"({len(summ['failures'])} entries): the verdict on /repo is not trusted")
        return 2
    return rc
