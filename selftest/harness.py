"""E11 -- sensitivity self-test.

Each catalogue entry is a small source edit (exact text replacement in one file of the *current* tree, applied
to an in-memory overlay -- nothing is written into /repo).  A *mutant* must be reported by the named rule of the
property; a *neutral* variant (behaviour-preserving refactor) must leave the check silent (exit 0).  A surviving
mutant or a noisy neutral variant means the checker is unreliable: exit 2 (it says nothing about /repo).
Entries whose anchor text is no longer present are skipped and listed (the tree changed under the catalogue).
"""

from __future__ import annotations

import importlib
import json
import os
import time
from concurrent.futures import ProcessPoolExecutor
from dataclasses import dataclass
from typing import List, Optional

from sa.index import AnalysisError, Index
from sa.report import VERIF, Ctx, load_known, match_known


@dataclass
class V:
    id: str
    file: str          # path relative to the repository root
    old: str
    new: str
    expect: Optional[str] = None   # rule id that must fire (prefix match); None => neutral variant
    occurrence: int = 0            # which occurrence of `old` to replace (0-based); -1 = all
    also: tuple = ()               # further (file, old, new) edits applied together
    why: str = ""


def apply_edit(src: str, old: str, new: str, occurrence: int) -> Optional[str]:
    if old not in src:
        return None
    if occurrence == -1:
        return src.replace(old, new)
    parts = src.split(old)
    if occurrence >= len(parts) - 1:
        return None
    return old.join(parts[: occurrence + 1]) + new + old.join(parts[occurrence + 1:])


def _run_one(args):
    prop, root, v = args
    edits = [(v.file, v.old, v.new, v.occurrence)] + [(f, o, n, 0) for f, o, n in v.also]
    overlay = {}
    for f, o, n, occ in edits:
        p = os.path.join(root, f)
        try:
            src = overlay.get(f) or open(p, encoding="utf-8").read()
        except FileNotFoundError:
            return v.id, "stale", f"file {f} missing"
        out = apply_edit(src, o, n, occ)
        if out is None:
            return v.id, "stale", f"anchor text not found in {f}"
        overlay[f] = out
    try:
        compile(overlay[v.file], v.file, "exec")
    except SyntaxError as e:
        return v.id, "invalid", f"variant does not compile: {e}"
    try:
        mod = importlib.import_module(f"rules.{prop.lower()}")
        ctx = Ctx(prop, Index(root, overlay), "quick")
        mod.run(ctx)
    except AnalysisError as e:
        return v.id, "undecided", f"{e.rule} {e.site}: {e}"
    except Exception as e:  # noqa: BLE001
        return v.id, "error", f"{type(e).__name__}: {e}"
    known = load_known()
    new = [f for f in ctx.findings if not match_known(f, known)]
    fl = [f"vacuity {rid}" for rid, n in ctx.floors.items() if ctx.count(rid) < n]
    und = [f"{u.rule} {u.site}: {u.reason}" for u in ctx.undecided] + fl
    rules = sorted({f.rule for f in new})
    if v.expect is None:
        if new:
            return v.id, "noisy", "; ".join(f"{f.rule} {f.func}: {f.message[:80]}" for f in new[:3])
        if und:
            return v.id, "neutral-undecided", "; ".join(und[:3])
        return v.id, "silent", ""
    if any(r.startswith(v.expect) for r in rules):
        return v.id, "killed", ",".join(rules)
    if new:
        return v.id, "killed-other-rule", ",".join(rules)
    if und:
        return v.id, "undecided", "; ".join(und[:3])
    return v.id, "survived", ""


def run_catalogue(prop: str, root: str, rc: int, evidence_dir, jobs: int = 16) -> int:
    try:
        cat = importlib.import_module(f"selftest.catalogue.{prop.lower()}")
    except ModuleNotFoundError:
        print(f"[{prop}] self-test: no catalogue")
        return rc
    variants: List[V] = cat.VARIANTS
    t0 = time.time()
    with ProcessPoolExecutor(max_workers=min(jobs, max(1, len(variants)))) as ex:
        results = list(ex.map(_run_one, [(prop, root, v) for v in variants]))
    by = {v.id: v for v in variants}
    summary = {"mutants_total": 0, "mutants_killed": 0, "neutral_total": 0, "neutral_silent": 0, "stale": [], "failures": []}
    for vid, status, detail in results:
        v = by[vid]
        if status in ("stale", "invalid"):
            summary["stale"].append({"id": vid, "status": status, "detail": detail})
            continue
        if v.expect is None:
            summary["neutral_total"] += 1
            if status == "silent":
                summary["neutral_silent"] += 1
            else:
                summary["failures"].append({"id": vid, "status": status, "detail": detail})
        else:
            summary["mutants_total"] += 1
            if status in ("killed", "killed-other-rule"):
                summary["mutants_killed"] += 1
            else:
                summary["failures"].append({"id": vid, "status": status, "detail": detail, "expected_rule": v.expect})
    summary["wall_s"] = round(time.time() - t0, 2)
    print(f"[{prop}] self-test: mutants {summary['mutants_killed']}/{summary['mutants_total']} reported, "
          f"neutral variants {summary['neutral_silent']}/{summary['neutral_total']} silent, "
          f"{len(summary['stale'])} skipped (anchor text gone), {summary['wall_s']} s")
    for f in summary["failures"]:
        print(f"  SELF-TEST-FAILURE {f['id']}: {f['status']} {f['detail']}")
    for s in summary["stale"]:
        print(f"  self-test skipped {s['id']}: {s['detail']}")
    if evidence_dir:
        p = os.path.join(evidence_dir, f"{prop}.json")
        if os.path.exists(p):
            ev = json.load(open(p))
            ev["tier"] = "thorough"
            ev["coverage"]["selftest"] = summary
            ev["coverage"]["selftest_samples"] = [{"id": vid, "status": st, "detail": d[:160]} for vid, st, d in results[:40]]
            json.dump(ev, open(p, "w"), indent=1, default=str)
    if rc == 0 and summary["failures"]:
        print(f"ANALYSIS-ERROR property={prop} rule=E11 site=selftest reason=checker self-test failed "
              f"({len(summary['failures'])} catalogue entries): the verdict on /repo is not trusted")
        return 2
    return rc
