from selftest.harness import V

T = "src/soundevent/evaluation/tasks/"
M = "src/soundevent/evaluation/metrics.py"
TM = "src/soundevent/terms/metrics.py"
VARIANTS = [
    V("accuracy-term-on-balanced(clipcls)", T + "clip_classification.py", "    (terms.accuracy, metrics.accuracy),", "    (terms.accuracy, metrics.balanced_accuracy),", "R09.1"),
    V("duplicate-row", T + "sound_event_detection.py", "    (terms.accuracy, metrics.accuracy),\n", "    (terms.accuracy, metrics.accuracy),\n    (terms.accuracy, metrics.accuracy),\n", "R09.1"),
    V("pinned-three-balanced(F10)", T + "sound_event_classification.py", "    (terms.accuracy, metrics.accuracy),\n    (terms.top_3_accuracy, metrics.top_3_accuracy),", "    (terms.balanced_accuracy, metrics.accuracy),\n    (terms.balanced_accuracy, metrics.top_3_accuracy),", "R09.1"),
    V("two-terms-same-label", TM, '    label="Top 3 Accuracy",', '    label="Accuracy",', "R09.2"),
    V("top3-k-5", M, "        k=3,\n", "        k=5,\n", "R09.3"),
    V("map-micro", M, "        y_score=y_score,\n        average=\"macro\",", "        y_score=y_score,\n        average=\"micro\",", "R09.3"),
    V("ap-macro", M, "        average=\"micro\",", "        average=\"macro\",", "R09.3"),
    V("accuracy-no-none-column", M, "    y_score = np.c_[y_score, 1 - y_score.sum(axis=1, keepdims=True)]\n    y_pred = y_score.argmax(axis=1)\n    return metrics.accuracy_score(", "    y_pred = y_score.argmax(axis=1)\n    return metrics.accuracy_score(", "R09.3"),
    V("balanced-none-maps-to-zero", M, "        [y if y is not None else num_classes for y in y_true]\n    )\n    y_score = np.c_[y_score, 1 - y_score.sum(axis=1, keepdims=True)]\n    y_pred = y_score.argmax(axis=1)\n    return metrics.balanced_accuracy_score(",
      "        [y if y is not None else 0 for y in y_true]\n    )\n    y_score = np.c_[y_score, 1 - y_score.sum(axis=1, keepdims=True)]\n    y_pred = y_score.argmax(axis=1)\n    return metrics.balanced_accuracy_score(", "R09.3"),
    V("map-mask-only-truth", M, "        y_true = y_true[~no_class]\n        y_score = y_score[~no_class]\n", "        y_true = y_true[~no_class]\n", "R09.3"),
    V("accuracy-delegates-to-balanced", M, "    return metrics.accuracy_score(  # type: ignore", "    return metrics.balanced_accuracy_score(  # type: ignore", "R09.3"),
    V("jaccard-micro", M, "        average=\"samples\",", "        average=\"micro\",", "R09.3"),
    V("true-class-prob-none-is-zero", M, "    if y_true is None:\n        return max(0.0, 1 - y_score.sum())\n\n    return y_score[y_true]\n\n\ndef balanced_accuracy", "    if y_true is None:\n        return 0.0\n\n    return y_score[y_true]\n\n\ndef balanced_accuracy", "R09.3"),
    V("clipcls-no-empty-guard", T + "clip_classification.py", "    return float(np.mean(non_none_scores)) if non_none_scores else 0.0", "    return float(np.mean(non_none_scores))", "R09.4"),
    V("pinned-unguarded-clip-mean(F11)", T + "sound_event_classification.py", "    scores = [match.score for match in matches if match.score is not None]\n    score = float(np.mean(scores)) if scores else 0.0\n",
      "    score = np.mean(\n        [match.score for match in matches if match.score is not None]\n    )\n", "R09.4"),
    V("multilabel-task-mislabelled", T + "clip_multilabel_classification.py", "        evaluation_task=\"clip_multilabel_classification\",", "        evaluation_task=\"clip_classification\",", "R09.5"),
    V("run-metrics-from-example-table", T + "sound_event_detection.py", "        for term, metric in RUN_METRICS\n", "        for term, metric in EXAMPLE_METRICS\n", "R09.5"),
    V("metric-term-swapped-in-feature", T + "clip_multilabel_classification.py", "    return [\n        data.Feature(\n            term=term,\n            value=metric(\n                true_classes,\n                predicted_classes_scores,\n            ),\n        )\n        for term, metric in RUN_METRICS",
      "    return [\n        data.Feature(\n            term=terms.average_precision,\n            value=metric(\n                true_classes,\n                predicted_classes_scores,\n            ),\n        )\n        for term, metric in RUN_METRICS", "R09.5"),
    V("top3-labels-missing-none-class", M, "        labels=list(range(num_classes + 1)),", "        labels=list(range(num_classes)),", "R09.3"),
    V("truth-row-dropped-for-unmatched-prediction", "src/soundevent/evaluation/tasks/sound_event_detection.py", "            true_classes.append(None)\n", "", "R09.6"),
    V("mask-applied-whatever-the-rank(F18)", "src/soundevent/evaluation/metrics.py", "    if y_true.ndim == 1:\n        # Remove examples with no class. NOTE: only class indices can be\n        # missing; a two-dimensional indicator matrix must keep its shape\n        # (a boolean mask of the same shape would flatten it).\n        no_class = np.isnan(y_true)\n        y_true = y_true[~no_class]\n        y_score = y_score[~no_class]\n", "    no_class = np.isnan(y_true)\n    y_true = y_true[~no_class]\n    y_score = y_score[~no_class]\n", "R09.3"),
    # neutral
    V("N-reorder-rows", T + "clip_classification.py", "    (terms.balanced_accuracy, metrics.balanced_accuracy),\n    (terms.accuracy, metrics.accuracy),\n", "    (terms.accuracy, metrics.accuracy),\n    (terms.balanced_accuracy, metrics.balanced_accuracy),\n", None),
    V("N-none-test-inverted", M, "        [y if y is not None else num_classes for y in y_true]\n    )\n    y_score = np.c_[y_score, 1 - y_score.sum(axis=1, keepdims=True)]\n    return metrics.top_k", "        [num_classes if y is None else y for y in y_true]\n    )\n    y_score = np.c_[y_score, 1 - y_score.sum(axis=1, keepdims=True)]\n    return metrics.top_k", None),
    V("N-guard-if-statement", T + "clip_classification.py", "    return float(np.mean(non_none_scores)) if non_none_scores else 0.0", "    if not non_none_scores:\n        return 0.0\n    return float(np.mean(non_none_scores))", None),
    # wave 6: the encoder the tasks encode with
    V("encoder-key-by-label(C19/R19.1)", "src/soundevent/evaluation/encoding.py", "            (tag.term, tag.value): i for i, tag in enumerate(tags)", "            (tag.term.label, tag.value): i for i, tag in enumerate(tags)", "C19/R19.1",
      also=(("src/soundevent/evaluation/encoding.py", "        return self._mapping.get((tag.term, tag.value))", "        return self._mapping.get((tag.term.label, tag.value))"),)),
    # F23: the pre-repair form (unclamped 'none' probability)
    V("none-probability-unclamped(F23)", M, "        return max(0.0, 1 - y_score.sum())", "        return 1 - y_score.sum()", "R09.7"),
]
