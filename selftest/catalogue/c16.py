from selftest.harness import V

D = "src/soundevent/arrays/dimensions.py"
A = "src/soundevent/arrays/operations.py"
VARIANTS = [
    V("left-bound", D, "    index = arr.indexes[dim].get_slice_bound(value, \"right\")", "    index = arr.indexes[dim].get_slice_bound(value, \"left\")", "R16.2"),
    V("no-minus-one", D, "    return index - 1", "    return index", "R16.2"),
    V("range-test-ge", D, "    if value < start or value > stop:", "    if value < start or value >= stop:", "R16.2"),
    V("clamp-below-to-one", D, "        if value < start:\n            return 0\n", "        if value < start:\n            return 1\n", "R16.2"),
    V("never-raises", D, "        if raise_error:\n            raise KeyError(", "        if raise_error and False:\n            raise KeyError(", "R16.2"),
    V("step-attr-doubled", D, "            DimAttrs.step.value: step,\n            **attrs,\n        },\n    )\n\n\ndef create_time_range", "            DimAttrs.step.value: 2 * step,\n            **attrs,\n        },\n    )\n\n\ndef create_time_range", "R16.1"),
    V("size-step-off-by-one", D, "        step = (stop - start) / size", "        step = (stop - start) / (size - 1)", "R16.1"),
    V("frequency-stop-is-low", D, "        start=low_freq,\n        stop=high_freq,", "        start=low_freq,\n        stop=low_freq,", "R16.1"),
    V("time-step-samplerate", D, "        step = 1.0 / samplerate\n\n    return create_range_dim(", "        step = samplerate\n\n    return create_range_dim(", "R16.1"),
    V("no-trim", D, "    if coords.size > 0 and coords[-1] >= stop - step / 2:\n        coords = coords[:-1]\n", "", "R16.1"),
    V("wrong-dim-index", A, "        indexer[dim_index] = get_coord_index(array, dim, coord)", "        indexer[dim_index] = get_coord_index(array, array.dims[0], coord)", "R16.3"),
    V("two-stores", A, "    array.data[tuple(indexer)] = value\n    return array", "    array.data[tuple(indexer)] = value\n    array.data[0] = value\n    return array", "R16.3"),
    V("axis-zero-always", A, "        dim_index: int = array.get_axis_num(dim)  # type: ignore", "        dim_index: int = 0", "R16.3"),
    V("arange-stop-plus-step", D, "        start=start,\n        stop=stop,\n        step=step,\n        dtype=dtype,\n    )\n\n    # NOTE", "        start=start,\n        stop=stop + step,\n        step=step,\n        dtype=dtype,\n    )\n\n    # NOTE", "R16.1"),
    V("dim-range-first-last-swapped", D, "    return index.min(), index.max()", "    return index.max(), index.min()", "R16.2"),
    V("trim-threshold-1e-4-step", "src/soundevent/arrays/dimensions.py", "    if coords.size > 0 and coords[-1] >= stop - step / 2:", "    if coords.size > 0 and stop - coords[-1] < 1e-4 * step:", "R16.1"),
    V("trim-only-at-or-above-stop", "src/soundevent/arrays/dimensions.py", "    if coords.size > 0 and coords[-1] >= stop - step / 2:", "    if coords.size > 0 and coords[-1] >= stop:", "R16.1"),
    V("trim-threshold-whole-step", "src/soundevent/arrays/dimensions.py", "    if coords.size > 0 and coords[-1] >= stop - step / 2:", "    if coords.size > 0 and coords[-1] >= stop - step:", "R16.1"),
    # neutral
    V("N-keyword-order", D, "        start=low_freq,\n        stop=high_freq,\n        step=step,", "        step=step,\n        stop=high_freq,\n        start=low_freq,", None),
    V("N-range-test-not-between", D, "    if value < start or value > stop:", "    if not (start <= value <= stop):", None),
    V("N-rename-index", D, "    index = arr.indexes[dim].get_slice_bound(value, \"right\")\n    return index - 1", "    bound = arr.indexes[dim].get_slice_bound(value, \"right\")\n    return bound - 1", None),
    V("N-trim-strict-half-step", "src/soundevent/arrays/dimensions.py", "    if coords.size > 0 and coords[-1] >= stop - step / 2:", "    if len(coords) > 0 and coords[-1] > stop - 0.5 * step:", None),
    # wave 7
    V("range-by-linspace", "src/soundevent/arrays/dimensions.py", "    coords = np.arange(\n        start=start,\n        stop=stop,\n        step=step,\n        dtype=dtype,\n    )",
      "    coords = np.linspace(start, stop, num=int(round((stop - start) / step)), endpoint=False, dtype=dtype)", "R16.1"),
    # F27: the pre-repair form
    V("trailing-test-on-empty-range(F27)", "src/soundevent/arrays/dimensions.py", "    if coords.size > 0 and coords[-1] >= stop - step / 2:", "    if coords[-1] >= stop - step / 2:", "R16.5"),
    V("N-trailing-test-len-guard", "src/soundevent/arrays/dimensions.py", "    if coords.size > 0 and coords[-1] >= stop - step / 2:", "    if len(coords) and coords[-1] >= stop - step / 2:", None),
    V("N-trailing-test-nested-guard", "src/soundevent/arrays/dimensions.py", "    if coords.size > 0 and coords[-1] >= stop - step / 2:\n        coords = coords[:-1]\n", "    if coords.shape[0] > 0:\n        if coords[-1] >= stop - step / 2:\n            coords = coords[:-1]\n", None),
    V("trailing-test-guard-vacuous", "src/soundevent/arrays/dimensions.py", "    if coords.size > 0 and coords[-1] >= stop - step / 2:", "    if coords.size >= 0 and coords[-1] >= stop - step / 2:", "R16.5"),
    V("N-trailing-test-guard-ne", "src/soundevent/arrays/dimensions.py", "    if coords.size > 0 and coords[-1] >= stop - step / 2:", "    if coords.size != 0 and coords[-1] >= stop - step / 2:", None),
    V("trailing-test-against-start", "src/soundevent/arrays/dimensions.py", "coords[-1] >= stop - step / 2", "coords[-1] >= start - step / 2", "R16.1"),
    V("N-upper-clamp-by-len-of-index", "src/soundevent/arrays/dimensions.py", "        return arr.sizes[dim]\n", "        return len(arr.indexes[dim])\n", None),
    V("time-range-rejects-samplerate-only-calls", "src/soundevent/arrays/dimensions.py", '        if samplerate is None:\n            raise ValueError("Either step or samplerate must be provided.")', '        if samplerate is not None:\n            raise ValueError("Either step or samplerate must be provided.")', "R16.1"),
]
