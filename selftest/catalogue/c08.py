from selftest.harness import V

D = "src/soundevent/evaluation/tasks/sound_event_detection.py"
C = "src/soundevent/evaluation/tasks/common.py"
NEW_BLOCK = '''    predicted = [
        index
        for index, prediction in enumerate(clip_predictions.sound_events)
        if prediction.sound_event.geometry is not None
    ]
    annotated = [
        index
        for index, annotation in enumerate(clip_annotations.sound_events)
        if annotation.sound_event.geometry is not None
    ]
    matched = [
        (
            predicted[source] if source is not None else None,
            annotated[target] if target is not None else None,
            affinity,
        )
        for source, target, affinity in match_geometries(
            source=[
                clip_predictions.sound_events[index].sound_event.geometry
                for index in predicted
            ],
            target=[
                clip_annotations.sound_events[index].sound_event.geometry
                for index in annotated
            ],
        )
    ]

    # Sound events without a geometry cannot overlap with anything and are
    # reported as unmatched.
    unmatched_predictions = [
        (index, None, 0.0)
        for index, prediction in enumerate(clip_predictions.sound_events)
        if prediction.sound_event.geometry is None
    ]
    unmatched_annotations = [
        (None, index, 0.0)
        for index, annotation in enumerate(clip_annotations.sound_events)
        if annotation.sound_event.geometry is None
    ]

    # Iterate over all matches between predictions and annotations.
    for prediction_index, annotation_index, affinity in (
        matched + unmatched_predictions + unmatched_annotations
    ):
'''
OLD_BLOCK = '''    # Iterate over all matches between predictions and annotations.
    for prediction_index, annotation_index, affinity in match_geometries(
        source=[
            prediction.sound_event.geometry
            for prediction in clip_predictions.sound_events
            if prediction.sound_event.geometry
        ],
        target=[
            annotation.sound_event.geometry
            for annotation in clip_annotations.sound_events
            if annotation.sound_event.geometry
        ],
    ):
'''
VARIANTS = [
    V("pinned-filtered-lists(F7,F8)", D, NEW_BLOCK, OLD_BLOCK, "R08"),
    V("clips-keyed-by-own-uuid", C, "        example.clip.uuid: example for example in clip_annotations", "        example.uuid: example for example in clip_annotations", "R08.1"),
    V("annotation-list-indexed-by-prediction-index", D, "            annotation = clip_annotations.sound_events[annotation_index]\n            true_class, predicted_class_scores, match", "            annotation = clip_annotations.sound_events[prediction_index]\n            true_class, predicted_class_scores, match", "R08.2"),
    V("drop-geometryless-predictions", D, "        matched + unmatched_predictions + unmatched_annotations\n", "        matched + unmatched_annotations\n", "R08.3"),
    V("affinity-constant-1(F9)", D, "        target=sound_event_annotation,\n        affinity=affinity,\n", "        target=sound_event_annotation,\n        affinity=1,\n", "R08.4"),
    V("affinity-not-passed", D, "                encoder=encoder,\n                affinity=affinity,\n            )", "                encoder=encoder,\n            )", "R08.4"),
    V("unmatched-prediction-score-1", D, "                    source=prediction,\n                    target=None,\n                    affinity=affinity,\n                    score=0,", "                    source=prediction,\n                    target=None,\n                    affinity=affinity,\n                    score=1,", "R08.4"),
    V("score-args-swapped", D, "score = metrics.classification_score(true_class, predicted_class_scores)", "score = metrics.classification_score(predicted_class_scores, true_class)", "R08.5"),
    V("truth-from-prediction-tags", D, "    true_class = classification_encoding(\n        tags=sound_event_annotation.tags,", "    true_class = classification_encoding(\n        tags=[t.tag for t in sound_event_prediction.tags],", "R08.5"),
    V("clip-score-max", D, "            score=_mean([m.score for m in matches]),", "            score=max([m.score for m in matches] + [0]),", "R08.6"),
    V("overall-score-first-clip", D, "        score=_mean([c.score for c in evaluated_clips]),", "        score=_mean([c.score for c in evaluated_clips[:1]]),", "R08.6"),
    V("mean-without-empty-guard", D, "    if not valid_scores:\n        return 0.0\n\n", "", "R08.6"),
    V("no-continue-double-append", D, "            true_classes.append(None)\n            predicted_classes_scores.append(y_score)\n            continue\n", "            true_classes.append(None)\n            predicted_classes_scores.append(y_score)\n            matches.append(data.Match(source=prediction, target=None, affinity=0, score=0))\n            continue\n", "R08.7"),
    V("unmatched-annotation-as-source", D, "                    source=None,\n                    target=annotation,", "                    source=None,\n                    target=None,", "R08.7"),
    V("matcher-gets-swapped-lists", D, "        for source, target, affinity in match_geometries(\n            source=[\n                clip_predictions.sound_events[index].sound_event.geometry\n                for index in predicted\n            ],\n            target=[\n                clip_annotations.sound_events[index].sound_event.geometry\n                for index in annotated\n            ],",
      "        for source, target, affinity in match_geometries(\n            target=[\n                clip_predictions.sound_events[index].sound_event.geometry\n                for index in predicted\n            ],\n            source=[\n                clip_annotations.sound_events[index].sound_event.geometry\n                for index in annotated\n            ],", "R08"),
    V("predicted-table-unused", D, "            predicted[source] if source is not None else None,", "            source,", "R08.2"),
    V("evaluate-clip-args-crossed", D, "            clip_annotations=annotations,\n            clip_predictions=predictions,\n            encoder=encoder,\n        )\n\n        true_classes.extend", "            clip_annotations=predictions,\n            clip_predictions=annotations,\n            encoder=encoder,\n        )\n\n        true_classes.extend", "R08.1"),
    V("unmatched-predictions-complement-wrong", D, "        (index, None, 0.0)\n        for index, prediction in enumerate(clip_predictions.sound_events)\n        if prediction.sound_event.geometry is None\n", "        (index, None, 0.0)\n        for index, prediction in enumerate(clip_predictions.sound_events)\n        if prediction.sound_event.geometry is None and prediction.tags\n", "R08.3"),
    # neutral
    V("N-reorder-branches", D, "        # Handle the case where a prediction was not matched\n        if annotation_index is None and prediction_index is not None:", "        # Handle the case where a prediction was not matched\n        if prediction_index is not None and annotation_index is None:", None),
    V("N-chain-order", D, "        matched + unmatched_predictions + unmatched_annotations\n", "        unmatched_annotations + matched + unmatched_predictions\n", None),
    V("N-truthiness-filter", D, "        if prediction.sound_event.geometry is not None\n    ]\n    annotated", "        if prediction.sound_event.geometry\n    ]\n    annotated", None),
    V("N-rename-locals", D, "predicted", "with_geometry_p", None, occurrence=-1),
    # mutation audit (DESIGN 8.17)
    V("geometry-less-unmatched-affinity-1", D, "        (index, None, 0.0)\n", "        (index, None, 1.0)\n", "R08.4"),
    V("mean-empty-guard-crossed", D, "    if not valid_scores:\n        return 0.0", "    if valid_scores:\n        return 0.0", "R08.6"),
    V("mean-nan-guard-crossed", D, "    if np.isnan(score):\n        return 0.0", "    if not np.isnan(score):\n        return 0.0", "R08.6"),
    V("matcher-index-translation-crossed", D, "            predicted[source] if source is not None else None,", "            predicted[source] if source is None else None,", "R08.3"),
    V("entry-args-crossed", D, "    ) = _evaluate_clips(clip_predictions, clip_annotations, encoder)", "    ) = _evaluate_clips(clip_annotations, clip_predictions, encoder)", "R08.1"),
    V("classification-score-branches-crossed", "src/soundevent/evaluation/metrics.py", "    if y_true is None:\n        return max(0.0, 1 - y_score.sum())\n\n    return y_score[y_true]\n\n\ndef true_class", "    if y_true is not None:\n        return max(0.0, 1 - y_score.sum())\n\n    return y_score[y_true]\n\n\ndef true_class", "R08.5"),
    V("validator-source-test-crossed(C04)", "src/soundevent/data/clip_evaluations.py", "if match.source is not None", "if match.source is None", "C04/R04.2"),
    V("N-mean-single-exit", D, "    if not valid_scores:\n        return 0.0\n\n    score = float(np.mean(valid_scores))\n    if np.isnan(score):\n        return 0.0\n\n    return score", "    if len(valid_scores) == 0:\n        return 0.0\n    return float(np.mean(valid_scores))", None),
    V("N-mean-written-out-at-its-call-sites", D, "            score=_mean([m.score for m in matches]),",
      "            score=(\n                float(np.mean([m.score for m in matches if m.score is not None]))\n                if [m.score for m in matches if m.score is not None]\n                else 0.0\n            ),", None,
      also=((D, "        score=_mean([c.score for c in evaluated_clips]),", "        score=(\n            float(np.mean([c.score for c in evaluated_clips if c.score is not None]))\n            if any(c.score is not None for c in evaluated_clips)\n            else 0.0\n        ),"),
            (D, 'def _mean(\n    scores: Sequence[Optional[float]],\n) -> float:\n    valid_scores = [score for score in scores if score is not None]\n\n    if not valid_scores:\n        return 0.0\n\n    score = float(np.mean(valid_scores))\n    if np.isnan(score):\n        return 0.0\n\n    return score\n', ""))),
    V("mean-written-out-over-first-match-only", D, "            score=_mean([m.score for m in matches]),",
      "            score=(\n                float(np.mean([m.score for m in matches[:1] if m.score is not None]))\n                if [m.score for m in matches[:1] if m.score is not None]\n                else 0.0\n            ),", "R08.6"),
    V("N-evaluate-clips-written-out-in-the-task", D, '    (\n        evaluated_clips,\n        true_classes,\n        predicted_classes_scores,\n    ) = _evaluate_clips(clip_predictions, clip_annotations, encoder)\n', '    evaluated_clips = []\n    true_classes = []\n    scores_rows = []\n    for annotations, predictions in iterate_over_valid_clips(\n        clip_predictions=clip_predictions,\n        clip_annotations=clip_annotations,\n    ):\n        true_class, predicted_classes, evaluated_clip = evaluate_clip(\n            clip_annotations=annotations,\n            clip_predictions=predictions,\n            encoder=encoder,\n        )\n        true_classes.extend(true_class)\n        scores_rows.extend(predicted_classes)\n        evaluated_clips.append(evaluated_clip)\n    predicted_classes_scores = np.array(scores_rows)\n', None, also=((D, 'def _evaluate_clips(\n    clip_predictions: Sequence[data.ClipPrediction],\n    clip_annotations: Sequence[data.ClipAnnotation],\n    encoder: Encoder,\n):\n    """Evaluate all examples in the given model run and evaluation set."""\n    evaluated_clips = []\n    true_classes = []\n    predicted_classes_scores = []\n\n    for annotations, predictions in iterate_over_valid_clips(\n        clip_predictions=clip_predictions,\n        clip_annotations=clip_annotations,\n    ):\n        true_class, predicted_classes, evaluated_clip = evaluate_clip(\n            clip_annotations=annotations,\n            clip_predictions=predictions,\n            encoder=encoder,\n        )\n\n        true_classes.extend(true_class)\n        predicted_classes_scores.extend(predicted_classes)\n        evaluated_clips.append(evaluated_clip)\n\n    return evaluated_clips, true_classes, np.array(predicted_classes_scores)\n\n\n', ""),)),
    V("evaluate-clips-written-out-drops-empty-clips", D, '    (\n        evaluated_clips,\n        true_classes,\n        predicted_classes_scores,\n    ) = _evaluate_clips(clip_predictions, clip_annotations, encoder)\n', '    evaluated_clips = []\n    true_classes = []\n    scores_rows = []\n    for annotations, predictions in iterate_over_valid_clips(\n        clip_predictions=clip_predictions,\n        clip_annotations=clip_annotations,\n    ):\n        true_class, predicted_classes, evaluated_clip = evaluate_clip(\n            clip_annotations=annotations,\n            clip_predictions=predictions,\n            encoder=encoder,\n        )\n        true_classes.extend(true_class)\n        scores_rows.extend(predicted_classes)\n        if evaluated_clip.matches:\n            evaluated_clips.append(evaluated_clip)\n    predicted_classes_scores = np.array(scores_rows)\n', "R08.1", also=((D, 'def _evaluate_clips(\n    clip_predictions: Sequence[data.ClipPrediction],\n    clip_annotations: Sequence[data.ClipAnnotation],\n    encoder: Encoder,\n):\n    """Evaluate all examples in the given model run and evaluation set."""\n    evaluated_clips = []\n    true_classes = []\n    predicted_classes_scores = []\n\n    for annotations, predictions in iterate_over_valid_clips(\n        clip_predictions=clip_predictions,\n        clip_annotations=clip_annotations,\n    ):\n        true_class, predicted_classes, evaluated_clip = evaluate_clip(\n            clip_annotations=annotations,\n            clip_predictions=predictions,\n            encoder=encoder,\n        )\n\n        true_classes.extend(true_class)\n        predicted_classes_scores.extend(predicted_classes)\n        evaluated_clips.append(evaluated_clip)\n\n    return evaluated_clips, true_classes, np.array(predicted_classes_scores)\n\n\n', ""),)),
    V("affinity-matrix-allocated-transposed(C07)", "src/soundevent/evaluation/match.py", "    cost_matrix = np.zeros(shape=(len(source), len(target)))", "    cost_matrix = np.zeros(shape=(len(target), len(source)))", "C07/R07.1"),
    # G.12
    V("no-predictions-rejected(G.12)", "src/soundevent/evaluation/tasks/sound_event_detection.py", "    ) = _evaluate_clips(clip_predictions, clip_annotations, encoder)", "    ) = _evaluate_clips(clip_predictions, clip_annotations, encoder)\n\n    if not clip_predictions:\n        raise ValueError(\"Nothing to evaluate.\")", "G.12"),
    V("vocabulary-reversed-and-cut", "src/soundevent/evaluation/tasks/sound_event_detection.py", "    encoder = create_tag_encoder(tags)", "    encoder = create_tag_encoder(tags[:-1])", "R08"),
]
