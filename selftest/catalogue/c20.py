from selftest.harness import V

O = "src/soundevent/geometry/operations.py"
VARIANTS = [
    V("pinned-array-shape(F16)", O, "        (array.sizes[ydim], array.sizes[xdim]),\n", "        array.shape,\n", "R20.1"),
    V("shape-x-y", O, "        (array.sizes[ydim], array.sizes[xdim]),\n", "        (array.sizes[xdim], array.sizes[ydim]),\n", "R20.1"),
    V("dims-y-x-still-transposed", O, "        dims=(xdim, ydim),", "        dims=(ydim, xdim),", "R20.2"),
    V("no-transpose", O, "        data=rast.T,", "        data=rast,", "R20.2"),
    V("index-dims-swapped", O, "                    get_coord_index(array, xdim, x, raise_error=False),\n                    get_coord_index(array, ydim, y, raise_error=False),", "                    get_coord_index(array, ydim, x, raise_error=False),\n                    get_coord_index(array, xdim, y, raise_error=False),", "R20.4"),
    V("raise-error-true", O, "                    get_coord_index(array, xdim, x, raise_error=False),", "                    get_coord_index(array, xdim, x, raise_error=True),", "R20.4"),
    V("no-length-guard", O, "    if len(values) != len(geometries):\n        raise ValueError(\n            \"The number of values must match the number of geometries.\"\n        )\n\n", "", "R20.3"),
    V("geometries-reversed", O, "        for geom in geometries\n    ]", "        for geom in reversed(geometries)\n    ]", "R20.5"),
    V("all-touched-hardcoded", O, "        all_touched=all_touched,", "        all_touched=False,", "R20.5"),
    V("fill-dropped", O, "        fill=fill,  # type: ignore\n", "", "R20.5"),
    V("scalar-not-broadcast", O, "        values = [values] * len(geometries)", "        values = [values]", "R20.3"),
    V("coords-crossed", O, "            xdim: array.coords[xdim],\n            ydim: array.coords[ydim],", "            xdim: array.coords[ydim],\n            ydim: array.coords[xdim],", "R20.2"),
    V("xy-unpack-swapped", O, "                for x, y in coords", "                for y, x in coords", "R20.4"),
    V("y-lookup-uses-x-size", O, "                    get_coord_index(array, ydim, y, raise_error=False),",
      "                    min(get_coord_index(array, ydim, y, raise_error=False), array.sizes[xdim]),", "R20.6",
      why="the y bin is clamped with the x axis' size: wrong on non-square templates"),
    # neutral
    V("N-len-of-coords", O, "        (array.sizes[ydim], array.sizes[xdim]),\n", "        (len(array[ydim]), len(array[xdim])),\n", None),
    V("N-keyword-out-shape", O, "        (array.sizes[ydim], array.sizes[xdim]),\n", "        out_shape=(array.sizes[ydim], array.sizes[xdim]),\n", None),
    # G.12
    V("empty-geometry-list-rejected(G.12)", "src/soundevent/geometry/operations.py", "    if not isinstance(values, (list, tuple)):\n        values = [values] * len(geometries)", "    if not geometries:\n        raise ValueError(\"No geometries to rasterize.\")\n\n    if not isinstance(values, (list, tuple)):\n        values = [values] * len(geometries)", "G.12"),
    V("negative-fill-rejected(G.12)", "src/soundevent/geometry/operations.py", "    if not isinstance(values, (list, tuple)):\n        values = [values] * len(geometries)", "    if fill < 0:\n        raise ValueError(\"The fill value must not be negative.\")\n\n    if not isinstance(values, (list, tuple)):\n        values = [values] * len(geometries)", "G.12"),
]
