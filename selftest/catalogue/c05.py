from selftest.harness import V

C = "src/soundevent/geometry/conversion.py"
F = "src/soundevent/geometry/features.py"
O = "src/soundevent/geometry/operations.py"
VARIANTS = [
    V("polygon-low-high-terms-swapped", F, "        Feature(term=terms.low_freq, value=low_freq),\n        Feature(term=terms.high_freq, value=high_freq),\n        Feature(term=terms.bandwidth, value=high_freq - low_freq),\n    ]\n\n\ndef _compute_multi_point_features",
      "        Feature(term=terms.low_freq, value=high_freq),\n        Feature(term=terms.high_freq, value=low_freq),\n        Feature(term=terms.bandwidth, value=high_freq - low_freq),\n    ]\n\n\ndef _compute_multi_point_features", "R05.4"),
    V("duration-sign-flipped", F, "Feature(term=terms.duration, value=end_time - start_time),\n        Feature(term=terms.low_freq, value=low_freq),\n        Feature(term=terms.high_freq, value=high_freq),\n        Feature(term=terms.bandwidth, value=high_freq - low_freq),\n        Feature(term=terms.num_segments",
      "Feature(term=terms.duration, value=start_time - end_time),\n        Feature(term=terms.low_freq, value=low_freq),\n        Feature(term=terms.high_freq, value=high_freq),\n        Feature(term=terms.bandwidth, value=high_freq - low_freq),\n        Feature(term=terms.num_segments", "R05.4"),
    V("bounds-unpacked-in-wrong-order", F, "    geom = geometry_to_shapely(geometry)\n    start_time, low_freq, end_time, high_freq = geom.bounds\n\n    return [\n        Feature(term=terms.duration, value=end_time - start_time),\n        Feature(term=terms.low_freq, value=low_freq),\n        Feature(term=terms.high_freq, value=high_freq),\n        Feature(term=terms.bandwidth, value=high_freq - low_freq),\n    ]\n\n\ndef _compute_polygon_features",
      "    geom = geometry_to_shapely(geometry)\n    start_time, end_time, low_freq, high_freq = geom.bounds\n\n    return [\n        Feature(term=terms.duration, value=end_time - start_time),\n        Feature(term=terms.low_freq, value=low_freq),\n        Feature(term=terms.high_freq, value=high_freq),\n        Feature(term=terms.bandwidth, value=high_freq - low_freq),\n    ]\n\n\ndef _compute_polygon_features", "R05.4"),
    V("multipoint-dispatch-row-dropped", C, "    if geom.type == \"MultiPoint\":\n        return multipoint_to_shapely(geom)\n", "", "R05.1"),
    V("interval-routed-to-timestamp", C, "    if geom.type == \"TimeInterval\":\n        return time_interval_to_shapely(geom)", "    if geom.type == \"TimeInterval\":\n        return time_stamp_to_shapely(geom)", "R05.1"),
    V("interval-box-axes-swapped", C, "    return geometry.box(\n        start_time,\n        0,\n        end_time,\n        data.MAX_FREQUENCY,\n    )", "    return geometry.box(\n        0,\n        start_time,\n        data.MAX_FREQUENCY,\n        end_time,\n    )", "R05.2"),
    V("bbox-low-high-swapped", C, "        start_time,\n        low_freq,\n        end_time,\n        high_freq,\n    )", "        start_time,\n        high_freq,\n        end_time,\n        low_freq,\n    )", "R05.2"),
    V("polygon-holes-off-by-one", C, "    shell = geom.coordinates[0]\n    holes = geom.coordinates[1:]\n    return geometry.Polygon(shell, holes)", "    shell = geom.coordinates[0]\n    holes = geom.coordinates[:-1]\n    return geometry.Polygon(shell, holes)", "R05.2"),
    V("multipolygon-holes-dropped", C, "        polygon = geometry.Polygon(shell, holes)\n", "        polygon = geometry.Polygon(shell)\n", "R05.2"),
    V("timestamp-half-band", C, "            [geom.coordinates, data.MAX_FREQUENCY],", "            [geom.coordinates, data.MAX_FREQUENCY / 2],", "R05.2"),
    V("left-is-end-time", O, "        \"left\": start_time,\n", "        \"left\": end_time,\n", "R05.5"),
    V("split-x-y-swapped", O, "    y, x = position.split(\"-\")", "    x, y = position.split(\"-\")", "R05.5"),
    V("returns-freq-time", O, "    return time_pos, freq_pos", "    return freq_pos, time_pos", "R05.5"),
    V("center-not-halved", O, "        return (start_time + end_time) / 2, (low_freq + high_freq) / 2", "        return (start_time + end_time), (low_freq + high_freq) / 2", "R05.5"),
    V("top-is-low", O, "        \"top\": high_freq,\n", "        \"top\": low_freq,\n", "R05.5"),
    V("bounds-destructured-wrong", O, "    start_time, low_freq, end_time, high_freq = compute_bounds(geometry)\n\n    if position == \"center\":", "    start_time, end_time, low_freq, high_freq = compute_bounds(geometry)\n\n    if position == \"center\":", "R05.5"),
    V("compute-bounds-rounded", O, "    shp_geom = geometry_to_shapely(geometry)\n    return shp_geom.bounds\n", "    shp_geom = geometry_to_shapely(geometry)\n    return tuple(round(b, 3) for b in shp_geom.bounds)\n", "R05.3"),
    V("features-row-missing", F, "    geometries.MultiPoint.geom_type(): _compute_multi_point_features,\n", "", "R05.1"),
    V("features-row-wrong-function", F, "    geometries.LineString.geom_type(): _compute_line_string_features,", "    geometries.LineString.geom_type(): _compute_point_features,", "R05.1"),
    V("point-bandwidth-term-on-freq", F, "        Feature(term=terms.bandwidth, value=0),", "        Feature(term=terms.bandwidth, value=high_freq),", "R05.4"),
    V("multiline-num-segments-dropped", F, "        Feature(term=terms.bandwidth, value=high_freq - low_freq),\n        Feature(term=terms.num_segments, value=len(geom.geoms)),\n    ]\n\n\ndef _compute_multi_polygon_features",
      "        Feature(term=terms.bandwidth, value=high_freq - low_freq),\n    ]\n\n\ndef _compute_multi_polygon_features", "R05.4"),
    V("interval-duration-start-minus-end", F, "    return [Feature(term=terms.duration, value=end - start)]", "    return [Feature(term=terms.duration, value=start - end)]", "R05.4"),
    # neutral
    V("N-reorder-dispatch", C, "    if geom.type == \"TimeStamp\":\n        return time_stamp_to_shapely(geom)\n    if geom.type == \"TimeInterval\":\n        return time_interval_to_shapely(geom)\n",
      "    if geom.type == \"TimeInterval\":\n        return time_interval_to_shapely(geom)\n    if geom.type == \"TimeStamp\":\n        return time_stamp_to_shapely(geom)\n", None),
    V("N-rename-locals-features", F, "    start, end = geometry.coordinates\n    return [Feature(term=terms.duration, value=end - start)]", "    t0, t1 = geometry.coordinates\n    return [Feature(term=terms.duration, value=t1 - t0)]", None),
    V("N-multipolygon-comprehension", C, "    polgons = []\n    for poly in geom.coordinates:\n        shell = poly[0]\n        holes = poly[1:]\n        polygon = geometry.Polygon(shell, holes)\n        polgons.append(polygon)\n    return geometry.MultiPolygon(polgons)",
      "    return geometry.MultiPolygon(\n        [geometry.Polygon(poly[0], poly[1:]) for poly in geom.coordinates]\n    )", None),
    V("N-center-half-sum", O, "        \"center\": (start_time + end_time) / 2,\n", "        \"center\": start_time / 2 + end_time / 2,\n", None),
    V("N-features-via-compute-bounds-order", F, "        Feature(term=terms.duration, value=end_time - start_time),\n        Feature(term=terms.low_freq, value=low_freq),\n        Feature(term=terms.high_freq, value=high_freq),\n        Feature(term=terms.bandwidth, value=high_freq - low_freq),\n    ]\n\n\ndef _compute_point_features",
      "        Feature(term=terms.low_freq, value=low_freq),\n        Feature(term=terms.duration, value=end_time - start_time),\n        Feature(term=terms.bandwidth, value=high_freq - low_freq),\n        Feature(term=terms.high_freq, value=high_freq),\n    ]\n\n\ndef _compute_point_features", None),
    # wave 7
    V("multilinestring-vectorised-constructor", "src/soundevent/geometry/conversion.py", "    return geometry.MultiLineString(geom.coordinates)", "    return shapely.multilinestrings(geom.coordinates)", "R05.2"),
    V("N-box-default-spelled-out", "src/soundevent/geometry/conversion.py", "        end_time,\n        high_freq,\n    )", "        end_time,\n        high_freq,\n        ccw=True,\n    )", None),
]
