from selftest.harness import V

E = "src/soundevent/evaluation/encoding.py"
D = "src/soundevent/data/"
VARIANTS = [
    V("lookup-key-label-only", E, "        return self._mapping.get((tag.term, tag.value))", "        return self._mapping.get((tag.term.label, tag.value))", "R19.1"),
    V("both-keys-value-only", E, "            (tag.term, tag.value): i for i, tag in enumerate(tags)", "            tag.value: i for i, tag in enumerate(tags)", "R19.1",
      also=((E, "        return self._mapping.get((tag.term, tag.value))", "        return self._mapping.get(tag.value)"),)),
    V("enumerate-from-1", E, "for i, tag in enumerate(tags)", "for i, tag in enumerate(tags, 1)", "R19.1"),
    V("classification-last-hit", E, "    for tag in tags:\n        encoded = encoder.encode(tag)\n        if encoded is not None:\n            return encoded\n    return None",
      "    result = None\n    for tag in tags:\n        encoded = encoder.encode(tag)\n        if encoded is not None:\n            result = encoded\n    return result", "R19.2"),
    V("multilabel-counts", E, "        encoded[index] = 1\n", "        encoded[index] += 1\n", "R19.2"),
    V("multilabel-oov-to-zero", E, "        index = encoder.encode(tag)\n        if index is None:\n            continue\n        encoded[index] = 1", "        index = encoder.encode(tag)\n        if index is None:\n            index = 0\n        encoded[index] = 1", "R19.2"),
    V("prediction-score-constant", E, "        encoded[index] = prediction.score", "        encoded[index] = 1.0", "R19.2"),
    V("hash-by-id", D + "sound_events.py", "        return hash(self.uuid)", "        return id(self)", "R19.3"),
    V("hash-of-property", D + "tags.py", "        return hash((self.term, self.value))", "        return hash((self.key, self.value))", "R19.3"),
    V("eq-override-uuid-only", D + "sound_event_predictions.py", "    def __hash__(self) -> int:", "    def __eq__(self, other):\n        return self.sound_event == other.sound_event\n\n    def __hash__(self) -> int:", "R19.3"),
    V("hash-unhashable-list-field", D + "clip_predictions.py", "        return hash(self.uuid)", "        return hash((self.uuid, self.clip))", "R19.3"),
    V("decode-off-by-one", E, "        return self._tags[index]", "        return self._tags[index - 1]", "R19.1"),
    V("num-classes-plus-one", E, "        self.num_classes = len(tags)", "        self.num_classes = len(tags) + 1", "R19.1"),
    V("new-tag-field-not-in-key", D + "tags.py", "    value: str = Field(\n        title=\"Value\",", "    language: str = \"en\"\n\n    value: str = Field(\n        title=\"Value\",", "R19.1"),
    V("term-no-longer-frozen(G.5)", "src/soundevent/data/terms.py", "    model_config = ConfigDict(frozen=True, extra=\"allow\")", "    model_config = ConfigDict(extra=\"allow\", validate_assignment=True)", "G.5"),
    # neutral
    V("N-hash-order", D + "tags.py", "        return hash((self.term, self.value))", "        return hash((self.value, self.term))", None),
    V("N-hash-term-label-field-derived", D + "features.py", "        return hash((self.term, self.value))", "        return hash((self.term.label, self.value))", None),
    V("N-rename-encoded", E, "        encoded = encoder.encode(tag)\n        if encoded is not None:\n            return encoded", "        hit = encoder.encode(tag)\n        if hit is not None:\n            return hit", None),
    V("N-if-not-none-store", E, "        index = encoder.encode(tag)\n        if index is None:\n            continue\n        encoded[index] = 1", "        index = encoder.encode(tag)\n        if index is not None:\n            encoded[index] = 1", None),
    # wave 6
    V("key-through-label-helper", E, "            (tag.term, tag.value): i for i, tag in enumerate(tags)", "            (data.key_from_term(tag.term), tag.value): i for i, tag in enumerate(tags)", "R19.1",
      also=((E, "        return self._mapping.get((tag.term, tag.value))", "        return self._mapping.get((data.key_from_term(tag.term), tag.value))"),)),
    V("score-rounded-by-validator(G.5)", D + "predicted_tags.py", "from pydantic import BaseModel, Field\n", "from pydantic import BaseModel, Field, field_validator\n", "G.5",
      also=((D + "predicted_tags.py", "    score: float = Field(", "    @field_validator(\"score\")\n    def _round(cls, v):\n        return round(v, 6)\n\n    score: float = Field("),)),
    V("N-key-tuple-reordered", E, "            (tag.term, tag.value): i for i, tag in enumerate(tags)", "            (tag.value, tag.term): i for i, tag in enumerate(tags)", None,
      also=((E, "        return self._mapping.get((tag.term, tag.value))", "        return self._mapping.get((tag.value, tag.term))"),)),
    V("N-checking-validator-only", D + "predicted_tags.py", "from pydantic import BaseModel, Field\n", "from pydantic import BaseModel, Field, field_validator\n", None,
      also=((D + "predicted_tags.py", "    score: float = Field(", "    @field_validator(\"score\")\n    def _same(cls, v):\n        return v\n\n    score: float = Field("),)),
    # G.12
    V("empty-tag-list-rejected(G.12)", "src/soundevent/evaluation/encoding.py", "    encoded = np.zeros(encoder.num_classes, dtype=np.int32)", "    if len(tags) == 0:\n        raise ValueError(\"No tags to encode.\")\n\n    encoded = np.zeros(encoder.num_classes, dtype=np.int32)", "G.12"),
]
