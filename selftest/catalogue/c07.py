from selftest.harness import V

M = "src/soundevent/evaluation/match.py"
VARIANTS = [
    V("no-maximize", M, "        cost_matrix,\n        maximize=True,\n    )", "        cost_matrix,\n    )", "R07.2"),
    V("negated-and-maximize", M, "        cost_matrix,\n        maximize=True,\n    )", "        -cost_matrix,\n        maximize=True,\n    )", "R07.2"),
    V("transposed-cell", M, "        cost_matrix[index1, index2] = compute_affinity(", "        cost_matrix[index2, index1] = compute_affinity(", "R07.1"),
    V("forget-cols-remove", M, "        rows.remove(row)\n        cols.remove(column)\n", "        rows.remove(row)\n", "R07.3"),
    V("leftover-rows-on-wrong-side", M, "    for row in rows:\n        yield row, None\n", "    for row in rows:\n        yield None, row\n", "R07.3"),
    V("affinity-from-transposed-cell", M, "affinity = float(cost_matrix[match1, match2])", "affinity = float(cost_matrix[match2, match1])", "R07.5"),
    V("swap-buffer-keywords", M, "            time_buffer=time_buffer,\n            freq_buffer=freq_buffer,\n        )", "            time_buffer=freq_buffer,\n            freq_buffer=time_buffer,\n        )", "R07.1"),
    V("buffers-not-forwarded", M, "            geometry2,\n            time_buffer=time_buffer,\n            freq_buffer=freq_buffer,\n        )", "            geometry2,\n        )", "R07.1"),
    V("unguarded-yield(F6)", M, "        if cost_matrix[row, column] <= 0:\n            # Geometries that do not overlap are not a match.\n            continue\n\n", "", "R07.4"),
    V("guard-after-yield", M, "        if cost_matrix[row, column] <= 0:\n            # Geometries that do not overlap are not a match.\n            continue\n\n        yield row, column\n", "        yield row, column\n        if cost_matrix[row, column] <= 0:\n            continue\n", "R07"),
    V("affinity-same-geometry-twice", M, "            geometry1,\n            geometry2,\n", "            geometry1,\n            geometry1,\n", "R07.1"),
    V("one-sided-affinity-one", M, "        affinity = 0.0\n", "        affinity = 1.0\n", "R07.5"),
    V("matrix-shape-swapped", M, "cost_matrix = np.zeros(shape=(len(source), len(target)))", "cost_matrix = np.zeros(shape=(len(target), len(source)))", "R07.1"),
    V("leftover-cols-dropped", M, "    for column in cols:\n        yield None, column\n", "", "R07.3"),
    V("select-on-thresholded-matrix", M, "    matches = _select_matches(cost_matrix)", "    matches = _select_matches(cost_matrix > 0.5)", "R07.2"),
    V("yield-swapped-pair", M, "        yield match1, match2, affinity", "        yield match2, match1, affinity", "R07.5"),
    V("matrix-float32", M, "cost_matrix = np.zeros(shape=(len(source), len(target)))", "cost_matrix = np.zeros(shape=(len(source), len(target)), dtype=np.float32)", "R07.1"),
    V("matrix-rounded", M, "    matches = _select_matches(cost_matrix)", "    cost_matrix = cost_matrix.round(3)\n    matches = _select_matches(cost_matrix)", "R07"),
    V("default-time-buffer-changed(G.4)", M, "    target: Sequence[Geometry],\n    time_buffer: float = 0.01,", "    target: Sequence[Geometry],\n    time_buffer: float = 0.05,", "G.4"),
    # neutral
    V("N-sorted-leftovers", M, "    for row in rows:\n        yield row, None\n", "    for row in sorted(rows):\n        yield row, None\n", None),
    V("N-rename", M, "assiged_rows", "assigned_rows", None, occurrence=-1),
    V("N-positive-guard-spelling", M, "        if cost_matrix[row, column] <= 0:\n            # Geometries that do not overlap are not a match.\n            continue\n\n        yield row, column\n        rows.remove(row)\n        cols.remove(column)\n",
      "        if cost_matrix[row, column] > 0:\n            yield row, column\n            rows.remove(row)\n            cols.remove(column)\n", None),
    V("N-nested-loops", M, "    for (index1, geometry1), (index2, geometry2) in product(\n        enumerate(source), enumerate(target)\n    ):\n        cost_matrix[index1, index2] = compute_affinity(\n            geometry1,\n            geometry2,\n            time_buffer=time_buffer,\n            freq_buffer=freq_buffer,\n        )\n",
      "    for index1, geometry1 in enumerate(source):\n        for index2, geometry2 in enumerate(target):\n            cost_matrix[index1, index2] = compute_affinity(\n                geometry1,\n                geometry2,\n                time_buffer=time_buffer,\n                freq_buffer=freq_buffer,\n            )\n", None),
    V("N-matrix-dtype-float", M, "cost_matrix = np.zeros(shape=(len(source), len(target)))", "cost_matrix = np.zeros(shape=(len(source), len(target)), dtype=float)", None),
    # wave 7
    V("single-row-shortcut-pairs-without-overlap", "src/soundevent/evaluation/match.py", "    assiged_rows, assigned_columns = linear_sum_assignment(",
      "    if cost_matrix.shape[0] == 1 and cost_matrix.shape[1] > 0:\n        best = int(np.argmax(cost_matrix[0]))\n        yield 0, best\n        for column in range(cost_matrix.shape[1]):\n            if column != best:\n                yield None, column\n        return\n\n    assiged_rows, assigned_columns = linear_sum_assignment(", "R07.4"),
    V("N-affinities-looked-up-at-once", "src/soundevent/evaluation/match.py", "    for row, column in zip(assiged_rows, assigned_columns):\n        if cost_matrix[row, column] <= 0:",
      "    found = cost_matrix[assiged_rows, assigned_columns]\n    for row, column, value in zip(assiged_rows, assigned_columns, found):\n        if value <= 0:", None),
]
