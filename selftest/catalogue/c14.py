from selftest.harness import V

O = "src/soundevent/operations.py"
VARIANTS = [
    V("pinned-floor-bound(F13)", O, "    num_segments = math.ceil(clip.duration / hop)", "    num_segments = math.floor(clip.duration / hop)", "R14.4"),
    V("bound-uses-duration", O, "    num_segments = math.ceil(clip.duration / hop)", "    num_segments = math.ceil(clip.duration / duration)", "R14.4"),
    V("start-steps-by-duration", O, "        start_time = clip.start_time + i * hop", "        start_time = clip.start_time + i * duration", "R14.2"),
    V("end-is-start-plus-hop", O, "        end_time = start_time + duration", "        end_time = start_time + hop", "R14.2"),
    V("start-stop-strict", O, "        if start_time >= clip.end_time:", "        if start_time > clip.end_time:", "R14.3"),
    V("complete-window-at-end-dropped", O, "        if end_time > clip.end_time and not include_incomplete:", "        if end_time >= clip.end_time and not include_incomplete:", "R14.3"),
    V("no-clamp", O, "        end_time = min(end_time, clip.end_time)\n", "", "R14"),
    V("uuid4", O, "            uuid=uuid.uuid5(\n                uuid_namespace,\n                f\"segment_clip:{clip.uuid}:{start_time}:{end_time}\",\n            ),", "            uuid=uuid.uuid4(),", "R14.5"),
    V("uuid-without-bounds", O, "f\"segment_clip:{clip.uuid}:{start_time}:{end_time}\"", "f\"segment_clip:{clip.uuid}:{i}\"", "R14.5"),
    V("guards-dropped", O, "    if hop <= 0:\n        raise ValueError(\"Hop size must be positive.\")\n\n", "", "R14.1"),
    V("duration-zero-allowed", O, "    if duration <= 0:", "    if duration < 0:", "R14.1"),
    V("hop-default-zero", O, "    if hop is None:\n        hop = duration\n", "    if hop is None:\n        hop = 1.0\n", "R14"),
    V("include-flag-inverted", O, "        if end_time > clip.end_time and not include_incomplete:", "        if end_time > clip.end_time and include_incomplete:", "R14.3"),
    V("starts-from-zero", O, "        start_time = clip.start_time + i * hop", "        start_time = i * hop", "R14.2"),
    V("other-recording", O, "            recording=clip.recording,\n", "            recording=clip.recording.model_copy(),\n", "R14.2"),
    V("bound-minus-one", O, "    num_segments = math.ceil(clip.duration / hop)", "    num_segments = math.ceil(clip.duration / hop) - 1", "R14.4"),
    # neutral
    V("N-ceil-plus-one", O, "    num_segments = math.ceil(clip.duration / hop)", "    num_segments = math.ceil(clip.duration / hop) + 1", None),
    V("N-floor-plus-one", O, "    num_segments = math.ceil(clip.duration / hop)", "    num_segments = math.floor(clip.duration / hop) + 1", None),
    V("N-count-loop", O, "    num_segments = math.ceil(clip.duration / hop)\n    for i in range(num_segments):", "    import itertools\n\n    for i in itertools.count():", None),
    V("N-duration-spelled-out", O, "    num_segments = math.ceil(clip.duration / hop)", "    num_segments = math.ceil((clip.end_time - clip.start_time) / hop)", None),
    V("N-stop-flipped", O, "        if start_time >= clip.end_time:", "        if clip.end_time <= start_time:", None),
    V("N-arithmetic-bound-grid", O, "    num_segments = math.ceil(clip.duration / hop)", "    num_segments = int(clip.duration / hop) + 2", None),
    # wave 6
    V("clip-times-rounded-by-validator(G.5)", "src/soundevent/data/clips.py", "from pydantic import BaseModel, Field, model_validator", "from pydantic import BaseModel, Field, field_validator, model_validator", "G.5",
      also=(("src/soundevent/data/clips.py", "    @model_validator(mode=\"after\")\n    def _validate_times(self):", "    @field_validator(\"start_time\", \"end_time\")\n    def _microseconds(cls, v):\n        return round(v, 6)\n\n    @model_validator(mode=\"after\")\n    def _validate_times(self):"),)),
    V("clip-before-validator-rewrites(G.5)", "src/soundevent/data/clips.py", "            raise ValueError(\"start_time must be less than end_time\")\n        return self", "            raise ValueError(\"start_time must be less than end_time\")\n        self.start_time = round(self.start_time, 6)\n        return self", "G.5"),
    V("segments-built-without-validation(G.10)", "src/soundevent/operations.py", "        yield data.Clip(", "        yield data.Clip.model_construct(", "G.10"),
    # G.12: rejections of valid requests
    V("window-longer-than-clip-rejected(G.12)", O, "    num_segments = math.ceil(clip.duration / hop)", "    if duration > clip.duration:\n        raise ValueError(\"The window is longer than the clip.\")\n\n    num_segments = math.ceil(clip.duration / hop)", "G.12"),
    V("hop-larger-than-duration-rejected(G.12)", O, "    num_segments = math.ceil(clip.duration / hop)", "    if hop > duration:\n        raise ValueError(\"The hop leaves gaps.\")\n\n    num_segments = math.ceil(clip.duration / hop)", "G.12"),
    V("N-guards-in-one-test", O, "    if duration <= 0:\n        raise ValueError(\"Duration must be positive.\")\n\n    if hop <= 0:\n        raise ValueError(\"Hop size must be positive.\")", "    if duration <= 0 or hop <= 0:\n        raise ValueError(\"Duration and hop size must be positive.\")", None),
    V("nothing-for-long-hops(G.12)", O, "    num_segments = math.ceil(clip.duration / hop)", "    if hop > clip.duration:\n        return\n\n    num_segments = math.ceil(clip.duration / hop)", "G.12"),
]
