from selftest.harness import V

A = "src/soundevent/arrays/operations.py"
VARIANTS = [
    V("pinned-float-arange(F15)", A, "        new_coords = (\n            current_end + step * np.arange(1, extra_width + 1)\n        ).astype(coords.dtype)\n        coords = np.concatenate([coords, new_coords])",
      "        new_coords = np.arange(\n            current_end + step,\n            current_end + step + extra_width * step,\n            step,\n            dtype=coords.dtype,\n        )\n        coords = np.concatenate([coords, new_coords])", "R17.1"),
    V("crop-stop-plus-eps", A, "        slice_end = stop - eps", "        slice_end = stop + eps", "R17.2"),
    V("crop-eps-when-closed", A, "    if not right_closed:\n        slice_end = stop - eps", "    if right_closed:\n        slice_end = stop - eps", "R17.2"),
    V("crop-width-plus-one", A, "        coords = array.coords[dim].data[:width]", "        coords = array.coords[dim].data[: width + 1]", "R17.5"),
    V("crop-end-off-by-one", A, "        coords = array.coords[dim].data[-width:]", "        coords = array.coords[dim].data[-width + 1 :]", "R17.5"),
    V("extend-dim-upper-block-prepended", A, "        coords = np.concatenate([coords, new_coords])", "        coords = np.concatenate([new_coords, coords])", "R17.6"),
    V("start-position-prepends", A, "        coords = np.concatenate([coords, new_coords])", "        coords = np.concatenate([new_coords, coords])", "R17.6", occurrence=1),
    V("extend-dim-keeps-duplicate", A, "            dtype=coord.dtype,\n        )[1:]", "            dtype=coord.dtype,\n        )", "R17.6"),
    V("extend-dim-lower-not-reversed", A, "            dtype=coord.dtype,\n        )[::-1]", "            dtype=coord.dtype,\n        )", "R17.6"),
    V("fill-value-dropped", A, "    return array.reindex(\n        {dim: coords},\n        fill_value=fill_value,  # type: ignore\n    )", "    return array.reindex(\n        {dim: coords},\n    )", "R17.6"),

    V("extra-start-third", A, "        extra_start = extra_width // 2", "        extra_start = extra_width // 3", "R17.6"),
    V("end-block-not-reversed", A, "            current_start - step * np.arange(extra_width, 0, -1)", "            current_start - step * np.arange(1, extra_width + 1)", "R17.6"),
    V("width-zero-allowed", A, "    if width < 1:\n        raise ValueError(\"Width must be greater than or equal to 1.\")", "    if width < 0:\n        raise ValueError(\"Width must be greater than or equal to 1.\")", "R17.4"),
    V("crop-guard-start-ge-stop", A, "    if start > stop:\n        raise ValueError(\n            f\"Start value {start} must be less than stop value {stop}\"\n        )\n\n    if start < current_start", "    if start >= stop:\n        raise ValueError(\n            f\"Start value {start} must be less than stop value {stop}\"\n        )\n\n    if start < current_start", "R17.3"),
    V("crop-outside-range-allowed", A, "    if start < current_start or stop > current_stop:", "    if start < current_start and stop > current_stop:", "R17.3"),
    V("none-stop-stays-open", A, "    if stop is None:\n        right_closed = True\n        stop = current_stop\n\n    if start > stop:\n        raise ValueError(\n            f\"Start value {start} must be less than stop value {stop}\"\n        )\n\n    if start < current_start",
      "    if stop is None:\n        stop = current_stop\n\n    if start > stop:\n        raise ValueError(\n            f\"Start value {start} must be less than stop value {stop}\"\n        )\n\n    if start < current_start", "R17.2"),
    V("position-not-forwarded", A, "        return crop_dim_width(array, dim, width, position=position)", "        return crop_dim_width(array, dim, width)", "R17.4"),
    V("extend-eps-sign", A, "    if right_closed:\n        stop += eps", "    if right_closed:\n        stop -= eps", "R17.2"),
    V("center-crop-from-zero", A, "        start = max(0, array.sizes[dim] // 2 - width // 2)", "        start = 0", "R17.5"),
    V("one-extra-sample", A, "            current_end + step * np.arange(1, extra_width + 1)\n        ).astype(coords.dtype)\n        coords = np.concatenate([coords, new_coords])", "            current_end + step * np.arange(1, extra_width + 2)\n        ).astype(coords.dtype)\n        coords = np.concatenate([coords, new_coords])", "R17.6"),
    V("dim-step-median-of-first-two", "src/soundevent/arrays/dimensions.py", "    mean_step = steps.mean()", "    mean_step = steps[0]", "R17.7"),
    V("dim-step-ignores-attribute", "src/soundevent/arrays/dimensions.py", "    if DimAttrs.step.value in attrs:\n        return attrs[DimAttrs.step.value]\n\n", "", "R17.7"),
    # neutral
    V("N-linspace", A, "        new_coords = (\n            current_end + step * np.arange(1, extra_width + 1)\n        ).astype(coords.dtype)\n        coords = np.concatenate([coords, new_coords])",
      "        new_coords = np.linspace(\n            current_end + step, current_end + step * extra_width, num=extra_width\n        ).astype(coords.dtype)\n        coords = np.concatenate([coords, new_coords])", None),
    V("N-arange-plus-one", A, "            current_end + step * np.arange(1, extra_width + 1)\n        ).astype(coords.dtype)\n        coords = np.concatenate([coords, new_coords])", "            current_end + step * (np.arange(extra_width) + 1)\n        ).astype(coords.dtype)\n        coords = np.concatenate([coords, new_coords])", None),
    V("N-dispatch-le-after-equality-return", A, "    if width < current_width:\n        return crop_dim_width", "    if width <= current_width:\n        return crop_dim_width", None),
    V("N-guard-order", A, "    slice_end = stop\n    if not right_closed:\n        slice_end = stop - eps\n\n    slice_start = start\n    if not left_closed:\n        slice_start = start + eps\n", "    slice_start = start\n    if not left_closed:\n        slice_start = start + eps\n\n    slice_end = stop\n    if not right_closed:\n        slice_end = stop - eps\n", None),
    # wave 6
    V("dimattrs-without-str-mixin(G.5)", "src/soundevent/arrays/attributes.py", "class DimAttrs(str, Enum):", "class DimAttrs(Enum):", "G.5"),
    # wave 7
    V("crop-dim-whole-axis-shortcut", "src/soundevent/arrays/operations.py", "    current_start, current_stop = get_dim_range(arr, dim)\n\n    if start is None:\n        left_closed = True",
      "    current_start, current_stop = get_dim_range(arr, dim)\n\n    if start == current_start and stop == current_stop:\n        return arr\n\n    if start is None:\n        left_closed = True", "R17.2"),
    V("N-crop-dim-nothing-requested-shortcut", "src/soundevent/arrays/operations.py", "    current_start, current_stop = get_dim_range(arr, dim)\n\n    if start is None:\n        left_closed = True",
      "    current_start, current_stop = get_dim_range(arr, dim)\n\n    if start is None and stop is None:\n        return arr\n\n    if start is None:\n        left_closed = True", None),
    # mutation audit, second operator set: guards on valid requests
    V("extend-rejects-every-valid-range", "src/soundevent/arrays/operations.py", "    if start > stop:\n        raise ValueError(\n            f\"Start value {start} must be less than stop value {stop}\"\n        )\n\n    step = get_dim_step(arr, dim)", "    if start < stop:\n        raise ValueError(\n            f\"Start value {start} must be less than stop value {stop}\"\n        )\n\n    step = get_dim_step(arr, dim)", "R17.3"),
    V("crop-width-rejects-every-smaller-width", "src/soundevent/arrays/operations.py", "    if width >= array.sizes[dim]:", "    if width <= array.sizes[dim]:", "R17.5"),
    # G.12
    V("empty-crop-range-rejected(G.12)", "src/soundevent/arrays/operations.py", "    if start > stop:\n        raise ValueError(\n            f\"Start value {start} must be less than stop value {stop}\"\n        )", "    if start >= stop:\n        raise ValueError(\n            f\"Start value {start} must be less than stop value {stop}\"\n        )", "G.12"),
    V("single-sample-width-rejected(G.12)", "src/soundevent/arrays/operations.py", "    if width < 1:\n        raise ValueError(\"Width must be greater than or equal to 1.\")", "    if width < 2:\n        raise ValueError(\"Width must be greater than or equal to 2.\")", "G.12"),
]
