from selftest.harness import V

O = "src/soundevent/geometry/operations.py"
VARIANTS = [
    V("one-directional-fill", O, "        row.extend([index2, index1])", "        row.extend([index2, index2])", "R13.1"),
    V("mirror-dropped", O, "        col.extend([index1, index2])\n        row.extend([index2, index1])\n        values.extend([1, 1])", "        col.extend([index1])\n        row.extend([index2])\n        values.extend([1])", "R13.1"),
    V("product-instead-of-combinations", O, "    for (index1, se1), (index2, se2) in combinations(\n        enumerate(sound_events), 2\n    ):", "    for (index1, se1), (index2, se2) in product(\n        enumerate(sound_events), enumerate(sound_events)\n    ):", "R13.1",
      also=((O, "from itertools import combinations", "from itertools import combinations, product"),)),
    V("compare-with-itself", O, "        if not comparison_fn(se1, se2):", "        if not comparison_fn(se1, se1):", "R13.2"),
    V("shape-not-square", O, "        shape=(rows, rows),", "        shape=(rows, rows + 1),", "R13.1"),
    V("filter-before-append", O, "        sequence = sequences[label]\n        sequence.sound_events.append(sound_event)", "        sequence = sequences[label]\n        if sound_event.geometry is not None:\n            sequence.sound_events.append(sound_event)", "R13.3"),
    V("zip-reversed", O, "    for sound_event, label in zip(sound_events, labels):", "    for sound_event, label in zip(reversed(sound_events), labels):", "R13.3"),
    V("strong-connectivity", O, "    _, labels = connected_components(similarity_matrix)", "    _, labels = connected_components(similarity_matrix, connection=\"strong\")", "R13.3"),
    V("second-comparison-call", O, "        if not comparison_fn(se1, se2):\n            continue\n", "        if not comparison_fn(se1, se2) and not comparison_fn(se2, se1):\n            continue\n", "R13"),
    V("negated-condition", O, "        if not comparison_fn(se1, se2):\n            continue\n", "        if comparison_fn(se1, se2):\n            continue\n", "R13.1"),
    V("labels-from-count", O, "    _, labels = connected_components(similarity_matrix)", "    labels, _ = connected_components(similarity_matrix)", "R13.3"),
    V("append-to-first-sequence", O, "        sequence = sequences[label]\n", "        sequence = sequences[0]\n", "R13.3"),
    # neutral
    V("N-rename", O, "    similarity_matrix = _compute_similarity_matrix(", "    adjacency = _compute_similarity_matrix(", None,
      also=((O, "connected_components(similarity_matrix)", "connected_components(adjacency)"),)),
    V("N-if-positive-form", O, "        if not comparison_fn(se1, se2):\n            continue\n\n        col.extend([index1, index2])\n        row.extend([index2, index1])\n        values.extend([1, 1])",
      "        if comparison_fn(se1, se2):\n            col.extend([index1, index2])\n            row.extend([index2, index1])\n            values.extend([1, 1])", None),
    V("N-inline-sequence", O, "        sequence = sequences[label]\n        sequence.sound_events.append(sound_event)", "        sequences[label].sound_events.append(sound_event)", None),
    # wave 6: the public name pointed at another implementation (anchored file untouched)
    V("public-export-reimplemented(G.9)", "src/soundevent/geometry/__init__.py", "    group_sound_events,\n    have_frequency_overlap,", "    have_frequency_overlap,", "G.9",
      also=(("src/soundevent/geometry/__init__.py", "from soundevent.geometry.html import geometry_to_html\n", "from soundevent.geometry.html import geometry_to_html\nfrom soundevent.geometry.grouping import group_sound_events\n"),
            ("src/soundevent/geometry/grouping.py", "", "from itertools import groupby\n\nfrom scipy.sparse.csgraph import connected_components\n\nfrom soundevent import data\nfrom soundevent.geometry.operations import _compute_similarity_matrix\n\n\ndef group_sound_events(sound_events, comparison_fn):\n    similarity_matrix = _compute_similarity_matrix(sound_events, comparison_fn)\n    _, labels = connected_components(similarity_matrix)\n    return [data.Sequence(sound_events=[se for _, se in grp]) for _, grp in groupby(zip(labels, sound_events), key=lambda p: p[0])]\n"))),
    V("N-public-export-through-forwarding-wrapper", "src/soundevent/geometry/__init__.py", "    group_sound_events,\n    have_frequency_overlap,", "    have_frequency_overlap,", None,
      also=(("src/soundevent/geometry/__init__.py", "from soundevent.geometry.html import geometry_to_html\n", "from soundevent.geometry.html import geometry_to_html\nfrom soundevent.geometry.grouping import group_sound_events\n"),
            ("src/soundevent/geometry/grouping.py", "", "from soundevent.geometry import operations as _ops\n\n\ndef group_sound_events(sound_events, comparison_fn):\n    \"\"\"Public entry point (implementation in operations).\"\"\"\n    return _ops.group_sound_events(sound_events, comparison_fn)\n"))),
    V("fill-diagonal-instead-of-mirror", O, "        row.extend([index2, index1])", "        row.extend([index1, index2])", "R13.1"),
]
