from selftest.harness import V

A = "src/soundevent/io/aoef/"
VARIANTS = [
    V("predictionset-recording-adapter-none", A + "prediction_set.py", "            self.note_adapter,\n            audio_dir=audio_dir,\n        )", "            self.note_adapter,\n            audio_dir=None,\n        )", "R18.1"),
    V("evaluation-recording-adapter-no-dir", A + "evaluation.py", "            self.note_adapter,\n            audio_dir=self.audio_dir,\n        )", "            self.note_adapter,\n        )", "R18.1"),
    V("to_soundevent-drops-dir", A + "__init__.py", "            adapter = adapter_cls(audio_dir=audio_dir)\n            return adapter.to_soundevent(", "            adapter = adapter_cls()\n            return adapter.to_soundevent(", "R18.1"),
    V("saver-passes-none", "src/soundevent/io/saver.py", "return saver(obj, path, audio_dir, **kwargs)", "return saver(obj, path, None, **kwargs)", "R18.1"),
    V("loader-drops-dir", "src/soundevent/io/loader.py", "return loader(path, audio_dir=audio_dir, type=type)", "return loader(path, type=type)", "R18.1"),
    V("aoef-load-drops-dir", A + "__init__.py", "return to_soundevent(aoef_object, audio_dir=audio_dir)", "return to_soundevent(aoef_object)", "R18.1"),
    V("swallow-relative-to-error", A + "recording.py", "        if self.audio_dir is not None:\n            path = Path(obj.path).relative_to(self.audio_dir)\n",
      "        if self.audio_dir is not None:\n            try:\n                path = Path(obj.path).relative_to(self.audio_dir)\n            except ValueError:\n                path = obj.path\n", "R18.2"),
    V("join-reversed", A + "recording.py", "path = self.audio_dir / obj.path", "path = obj.path / self.audio_dir", "R18.2"),
    V("relative-only-when-none", A + "recording.py", "        if self.audio_dir is not None:\n            path = Path(obj.path).relative_to(self.audio_dir)\n",
      "        if self.audio_dir is None:\n            path = Path(obj.path).relative_to(Path.cwd())\n", "R18.2"),
    V("write-before-convert", A + "__init__.py", "    aoef_object = to_aeof(obj, audio_dir=audio_dir)\n\n    path.write_text(", "    path.write_text(\"\")\n    aoef_object = to_aeof(obj, audio_dir=audio_dir)\n\n    path.write_text(", "R18.3"),
    V("project-init-no-kwargs-forward", A + "annotation_project.py", "        super().__init__(**kwargs)\n", "        super().__init__()\n", "R18.1"),
    V("recording-adapter-forgets-dir", A + "recording.py", "        self.audio_dir = audio_dir\n", "        self.audio_dir = None\n", "R18.1"),
    V("recordingset-dir-in-wrong-slot", A + "recording_set.py", "            self.user_adapter,\n            self.tag_adapter,\n            self.note_adapter,\n            audio_dir,\n        )",
      "            self.user_adapter,\n            self.tag_adapter,\n            self.note_adapter,\n        )", "R18.1"),
    V("stored-path-annotation-loosened(G.5)", "src/soundevent/io/aoef/recording.py", "    path: Path\n", "    path: Union[str, Path]\n", "G.5", also=(("src/soundevent/io/aoef/recording.py", "from typing import", "from typing import Union  # noqa\nfrom typing import"),)),
    # neutral
    V("N-positional-to-keyword", A + "recording_set.py", "            self.note_adapter,\n            audio_dir,\n        )", "            self.note_adapter,\n            audio_dir=audio_dir,\n        )", None),
    V("N-is-none-inverted", A + "recording.py", "        path = obj.path\n        if self.audio_dir is not None:\n            path = self.audio_dir / obj.path\n",
      "        if self.audio_dir is None:\n            path = obj.path\n        else:\n            path = self.audio_dir / obj.path\n", None),
    V("N-saver-keyword", "src/soundevent/io/saver.py", "return saver(obj, path, audio_dir, **kwargs)", "return saver(obj, path, audio_dir=audio_dir, **kwargs)", None),
    # F20 / F26: the pre-repair forms
    V("containment-lexical-only(F20)", "src/soundevent/io/aoef/recording.py", "            if \"..\" in Path(os.path.normpath(path)).parts:\n                raise ValueError(\n                    f\"Recording path {obj.path} is outside the audio \"\n                    f\"directory {self.audio_dir}.\"\n                )\n", "", "R18.4"),
    V("document-in-locale-encoding(F26)", "src/soundevent/io/aoef/__init__.py", "        path.read_text(encoding=\"utf-8\")", "        path.read_text()", "R18.5"),
    # mutation audit (DESIGN 8.17): which format selects the saver / loader
    V("given-format-ignored-on-save", "src/soundevent/io/saver.py", "    if format is None:\n        format = infer_format(path)", "    if format is not None:\n        format = infer_format(path)", "R18.1"),
    V("format-always-inferred-on-load", "src/soundevent/io/loader.py", "    if format is None:\n        format = infer_format(path)", "    format = infer_format(path)", "R18.1"),
    V("N-format-conditional-expression", "src/soundevent/io/loader.py", "    if format is None:\n        format = infer_format(path)", "    format = infer_format(path) if format is None else format", None),
    V("containment-test-crossed", A + "recording.py", 'if ".." in Path(os.path.normpath(path)).parts:', 'if ".." not in Path(os.path.normpath(path)).parts:', "R18.4"),
    V("object-and-path-crossed-on-the-way-to-the-saver", "src/soundevent/io/saver.py", "return saver(obj, path, audio_dir, **kwargs)", "return saver(path, obj, audio_dir, **kwargs)", "R18.1"),
    V("save-skipped-without-audio-dir(G.12)", "src/soundevent/io/aoef/__init__.py", "    aoef_object = to_aeof(obj, audio_dir=audio_dir)", "    if audio_dir is None and path.exists():\n        return\n\n    aoef_object = to_aeof(obj, audio_dir=audio_dir)", "G.12"),
]
