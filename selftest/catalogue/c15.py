from selftest.harness import V

I = "src/soundevent/audio/io.py"
S = "src/soundevent/audio/spectrograms.py"
O = "src/soundevent/audio/operations.py"
D = "src/soundevent/arrays/dimensions.py"
VARIANTS = [
    V("offset-ceil", I, "    offset = int(np.floor(clip.start_time * samplerate))", "    offset = int(np.ceil(clip.start_time * samplerate))", "R15.1"),
    V("samples-round", I, "    samples = int(np.floor(duration * samplerate))", "    samples = int(round(duration * samplerate))", "R15.1"),
    V("axis-from-clip-start", I, "    start_time = offset / samplerate\n", "    start_time = clip.start_time\n", "R15.1"),
    V("axis-end-from-clip-end", I, "    end_time = start_time + samples / samplerate\n", "    end_time = clip.end_time\n", "R15.1"),
    V("fill-value-none", I, "fill_value=0)", "fill_value=None)", "R15.2"),
    V("read-before-seek", I, "        fp.seek(min(offset, fp.frames))\n        data = fp.read(frames=samples, always_2d=True, fill_value=0)", "        data = fp.read(frames=samples, always_2d=True, fill_value=0)\n        fp.seek(min(offset, fp.frames))", "R15.2"),
    V("no-seek", I, "        fp.seek(min(offset, fp.frames))\n", "", "R15.2"),
    V("not-2d", I, "always_2d=True, ", "", "R15.2"),
    V("pinned-step-hop-size(F14)", S, "                step=(nperseg - noverlap) / samplerate,", "                step=hop_size,", "R15.3"),
    V("freq-step-from-noverlap", S, "                step=samplerate / nperseg,", "                step=samplerate / noverlap,", "R15.3"),
    V("time-origin-dropped", S, "                times + audio.time.data[0],", "                times,", "R15.4"),
    V("resample-step-source", O, "                step=1 / target_samplerate,", "                step=step,", "R15.3"),
    V("clip-samplerate-expanded", I, "    samplerate = recording.samplerate\n\n    offset", "    samplerate = recording.samplerate * recording.time_expansion\n\n    offset", "R15.1"),
    V("recording-axis-wrong-end", I, "                end_time=recording.duration,", "                end_time=recording.duration * recording.time_expansion,", "R15.1"),
    V("time-dim-ctor-ignores-step", D, "    if samplerate is not None:\n        step = 1 / samplerate\n\n    if estimate_step and step is None:\n        step = estimate_dim_step(coods)\n\n    attrs = {\n        DimAttrs.units.value: TIME_UNITS,",
      "    if samplerate is not None:\n        step = 1 / samplerate\n    else:\n        step = None\n\n    if estimate_step and step is None:\n        step = estimate_dim_step(coods)\n\n    attrs = {\n        DimAttrs.units.value: TIME_UNITS,", "R15.3"),
    V("samples-none-reads-zero", I, "    if samples is None:\n        samples = -1\n", "    if samples is None:\n        samples = 0\n", "R15.2"),
    V("boundary-dropped-when-unpadded", "src/soundevent/audio/spectrograms.py", "        boundary=boundary,  # type: ignore", "        boundary=boundary if padded else None,  # type: ignore", "R15.4"),
    V("boundary-always-none", "src/soundevent/audio/spectrograms.py", "        boundary=boundary,  # type: ignore", "        boundary=None,", "R15.4"),
    V("refused-seek-swallowed(G.7)", "src/soundevent/audio/io.py", "        fp.seek(min(offset, fp.frames))\n", "        try:\n            fp.seek(offset)\n        except sf.LibsndfileError:\n            pass\n", "G.7"),
    # neutral
    V("N-math-floor", I, "    offset = int(np.floor(clip.start_time * samplerate))", "    import math\n\n    offset = math.floor(clip.start_time * samplerate)", None),
    V("N-rename-duration", I, "    duration = clip.end_time - clip.start_time\n    samples = int(np.floor(duration * samplerate))", "    length = clip.end_time - clip.start_time\n    samples = int(np.floor(length * samplerate))", None),
    V("N-hop-samples-local", S, "                step=(nperseg - noverlap) / samplerate,", "                step=nperseg / samplerate - noverlap / samplerate,", None),
    # wave 7
    V("stft-zero-padded-to-power-of-two", "src/soundevent/audio/spectrograms.py", "        nperseg=nperseg,\n", "        nperseg=nperseg,\n        nfft=1 << (nperseg - 1).bit_length(),\n", "R15.3"),
    V("N-stft-nfft-default", "src/soundevent/audio/spectrograms.py", "        nperseg=nperseg,\n", "        nperseg=nperseg,\n        nfft=None,\n", None),
    # F28: the pre-repair form
    V("seek-beyond-the-last-frame(F28)", "src/soundevent/audio/io.py", "        fp.seek(min(offset, fp.frames))\n", "        fp.seek(offset)\n", "R15.6"),
    V("N-seek-capped-other-order", "src/soundevent/audio/io.py", "        fp.seek(min(offset, fp.frames))\n", "        fp.seek(min(fp.frames, offset))\n", None),
    V("N-seek-capped-conditional", "src/soundevent/audio/io.py", "        fp.seek(min(offset, fp.frames))\n", "        fp.seek(offset if offset < fp.frames else fp.frames)\n", None),
    V("N-seek-capped-through-local-and-len", "src/soundevent/audio/io.py", "        fp.seek(min(offset, fp.frames))\n", "        position = min(offset, len(fp))\n        fp.seek(position)\n", None),
    # mutation audit, third operator set: axis names and coordinate kinds
    V("recording-axes-named-channel-time", "src/soundevent/audio/io.py", "        dims=(Dimensions.time.value, Dimensions.channel.value),", "        dims=(Dimensions.channel.value, Dimensions.time.value),", "R15.7", occurrence=0),
    V("spectrogram-axes-named-time-frequency", "src/soundevent/audio/spectrograms.py", '        dims=("frequency", "time", "channel"),', '        dims=("time", "frequency", "channel"),', "R15.7"),
    V("spectrogram-time-axis-gets-frequency-variable", "src/soundevent/audio/spectrograms.py", "            Dimensions.frequency.value: create_frequency_dim_from_array(", "            Dimensions.time.value: create_frequency_dim_from_array(", "R15.7",
      also=(("src/soundevent/audio/spectrograms.py", "            Dimensions.time.value: create_time_dim_from_array(", "            Dimensions.frequency.value: create_time_dim_from_array("),)),
    V("N-recording-axes-from-the-coordinate-mapping", "src/soundevent/audio/io.py", "        dims=(Dimensions.time.value, Dimensions.channel.value),\n", "", None, occurrence=0),
    # G.12
    V("long-clip-rejected(G.12)", "src/soundevent/audio/io.py", "    recording = clip.recording\n    samplerate = recording.samplerate", "    if clip.duration > 3600:\n        raise ValueError(\"Clips longer than one hour are not loaded.\")\n\n    recording = clip.recording\n    samplerate = recording.samplerate", "G.12"),
    # wave 14: a private helper that completes a container its callers build for it (G.3 exemption, both spellings of "fresh")
    V("N-attrs-finished-by-helper-display", "src/soundevent/arrays/dimensions.py", "        **kwargs,\n    }\n\n    if step is not None:\n        attrs[DimAttrs.step.value] = step\n\n    return xr.Variable(\n        dims=name,\n        data=coods,\n        attrs=attrs,\n    )\n\n\ndef create_frequency_dim_from_array(", "        **kwargs,\n    }\n\n    return _with_step(coods, name, step, {**attrs})\n\n\ndef _with_step(coods, name, step, attrs):\n    if step is not None:\n        attrs[DimAttrs.step.value] = step\n    return xr.Variable(dims=name, data=coods, attrs=attrs)\n\n\ndef create_frequency_dim_from_array(", None),
    V("N-attrs-finished-by-helper-local", "src/soundevent/arrays/dimensions.py", "        **kwargs,\n    }\n\n    if step is not None:\n        attrs[DimAttrs.step.value] = step\n\n    return xr.Variable(\n        dims=name,\n        data=coods,\n        attrs=attrs,\n    )\n\n\ndef create_frequency_dim_from_array(", "        **kwargs,\n    }\n\n    return _with_step(coods, name, step, attrs)\n\n\ndef _with_step(coods, name, step, attrs):\n    if step is not None:\n        attrs[DimAttrs.step.value] = step\n    return xr.Variable(dims=name, data=coods, attrs=attrs)\n\n\ndef create_frequency_dim_from_array(", None),
    V("helper-changes-callers-argument", "src/soundevent/arrays/dimensions.py", "        **kwargs,\n    }\n\n    if step is not None:\n        attrs[DimAttrs.step.value] = step\n\n    return xr.Variable(\n        dims=name,\n        data=coods,\n        attrs=attrs,\n    )\n\n\ndef create_frequency_dim_from_array(", "        **kwargs,\n    }\n\n    return _with_step(coods, name, step, attrs, kwargs)\n\n\ndef _with_step(coods, name, step, attrs, given):\n    if step is not None:\n        attrs[DimAttrs.step.value] = step\n    if coods.size:\n        coods[0] = 0.0\n    return xr.Variable(dims=name, data=coods, attrs=attrs)\n\n\ndef create_frequency_dim_from_array(", "G.3"),
]
