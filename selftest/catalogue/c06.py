from selftest.harness import V

A = "src/soundevent/evaluation/affinity.py"
VARIANTS = [
    V("and-instead-of-or", A, "        geometry1.type in TIME_GEOMETRY_TYPES\n        or geometry2.type in TIME_GEOMETRY_TYPES", "        geometry1.type in TIME_GEOMETRY_TYPES\n        and geometry2.type in TIME_GEOMETRY_TYPES", "R06.2"),
    V("only-geometry1-buffered", A, "    geometry2 = _prepare_geometry(geometry2, time_buffer, freq_buffer)\n", "", "R06"),
    V("different-buffers", A, "    geometry2 = _prepare_geometry(geometry2, time_buffer, freq_buffer)\n", "    geometry2 = _prepare_geometry(geometry2, 2 * time_buffer, freq_buffer)\n", "R06.3"),
    V("crossed-buffers", A, "    geometry2 = _prepare_geometry(geometry2, time_buffer, freq_buffer)\n", "    geometry2 = _prepare_geometry(geometry2, freq_buffer, time_buffer)\n", "R06.3"),
    V("linestring-not-buffered", A, "    data.LineString.geom_type(),\n", "", "R06.2"),
    V("polygon-buffered", A, "    data.MultiLineString.geom_type(),\n}", "    data.MultiLineString.geom_type(),\n    data.Polygon.geom_type(),\n}", "R06.2"),
    V("union-without-intersection", A, "    union = shp1.area + shp2.area - intersection\n", "    union = shp1.area + shp2.area\n", "R06.4"),
    V("no-zero-guard", A, "    if union == 0:\n        return 0\n\n    return min(", "    return min(", "R06.4"),
    V("time-min-min", A, "min(end_time1, end_time2) - max(start_time1, start_time2)", "min(end_time1, end_time2) - min(start_time1, start_time2)", "R06.4"),
    V("unclamped(F5)", A, "    return min(intersection / union, 1.0)", "    return intersection / union", "R06.5"),
    V("time-union-uses-side1-twice", A, "(end_time1 - start_time1) + (end_time2 - start_time2) - intersection", "(end_time1 - start_time1) + (end_time1 - start_time1) - intersection", "R06"),
    V("time-bounds-freq-axis", A, "    start_time1, _, end_time1, _ = compute_bounds(geometry1)", "    _, start_time1, _, end_time1 = compute_bounds(geometry1)", "R06"),
    V("prepare-crosses-buffers", A, "            time_buffer=time_buffer,\n            freq_buffer=freq_buffer,\n        )\n\n    return geometry", "            time_buffer=freq_buffer,\n            freq_buffer=time_buffer,\n        )\n\n    return geometry", "R06.3"),
    V("time-branch-unprepared-side", A, "        return compute_affinity_in_time(geometry1, geometry2)", "        return compute_affinity_in_time(geometry1, geometry1)", "R06"),
    V("timeinterval-not-time-type", A, "    data.TimeStamp.geom_type(),\n    data.TimeInterval.geom_type(),\n}", "    data.TimeStamp.geom_type(),\n}", "R06.2"),
    V("intersection-over-min-area", A, "    union = shp1.area + shp2.area - intersection\n", "    union = min(shp1.area, shp2.area)\n", "R06.4"),
    # neutral
    V("N-swap-prepare-lines", A, "    geometry1 = _prepare_geometry(geometry1, time_buffer, freq_buffer)\n    geometry2 = _prepare_geometry(geometry2, time_buffer, freq_buffer)\n",
      "    geometry2 = _prepare_geometry(geometry2, time_buffer, freq_buffer)\n    geometry1 = _prepare_geometry(geometry1, time_buffer, freq_buffer)\n", None),
    V("N-shp2-intersection-shp1", A, "shp1.intersection(shp2).area", "shp2.intersection(shp1).area", None),
    V("N-min-1-q", A, "    return min(intersection / union, 1.0)", "    return min(1.0, intersection / union)", None),
    V("N-union-reordered", A, "    union = shp1.area + shp2.area - intersection\n", "    union = shp2.area - intersection + shp1.area\n", None),
    V("N-keyword-buffers", A, "    geometry1 = _prepare_geometry(geometry1, time_buffer, freq_buffer)\n", "    geometry1 = _prepare_geometry(geometry1, freq_buffer=freq_buffer, time_buffer=time_buffer)\n", None),
    V("N-zero-union-truthiness", "src/soundevent/evaluation/affinity.py", "    if union == 0:\n        return 0\n\n    return min(intersection / union, 1.0)", "    if not union:\n        return 0\n\n    ratio = intersection / union\n    return 1.0 if ratio > 1.0 else ratio", None),
    # wave 6: what the affinity is computed through
    V("bbox-corners-rounded(C03/R03.3)", "src/soundevent/data/geometries.py", "        return [start_time, low_freq, end_time, high_freq]", "        return [round(start_time, 6), round(low_freq, 6), round(end_time, 6), round(high_freq, 6)]", "C03/R03.3"),
    V("polygon-holes-dropped(C05/R05.2)", "src/soundevent/geometry/conversion.py", "    shell = geom.coordinates[0]\n    holes = geom.coordinates[1:]", "    shell = geom.coordinates[0]\n    holes = []", "C05/R05.2"),
    # the private helper written out in its caller
    V("N-prepare-helper-inlined", "src/soundevent/evaluation/affinity.py", '    geometry1 = _prepare_geometry(geometry1, time_buffer, freq_buffer)\n    geometry2 = _prepare_geometry(geometry2, time_buffer, freq_buffer)\n', '    if geometry1.type in BUFFER_GEOMETRY_TYPES:\n        geometry1 = buffer_geometry(geometry1, time_buffer=time_buffer, freq_buffer=freq_buffer)\n    if geometry2.type in BUFFER_GEOMETRY_TYPES:\n        geometry2 = buffer_geometry(geometry2, time_buffer=time_buffer, freq_buffer=freq_buffer)\n', None, also=(("src/soundevent/evaluation/affinity.py", '\n\ndef _prepare_geometry(\n    geometry: data.Geometry,\n    time_buffer: float = 0.01,\n    freq_buffer: float = 100,\n) -> data.Geometry:\n    if geometry.type in BUFFER_GEOMETRY_TYPES:\n        return buffer_geometry(\n            geometry,\n            time_buffer=time_buffer,\n            freq_buffer=freq_buffer,\n        )\n\n    return geometry\n', "\n"),)),
    V("prepare-helper-inlined-buffers-crossed", "src/soundevent/evaluation/affinity.py", '    geometry1 = _prepare_geometry(geometry1, time_buffer, freq_buffer)\n    geometry2 = _prepare_geometry(geometry2, time_buffer, freq_buffer)\n', '    if geometry1.type in BUFFER_GEOMETRY_TYPES:\n        geometry1 = buffer_geometry(geometry1, time_buffer=time_buffer, freq_buffer=freq_buffer)\n    if geometry2.type in BUFFER_GEOMETRY_TYPES:\n        geometry2 = buffer_geometry(geometry2, time_buffer=freq_buffer, freq_buffer=time_buffer)\n', "R06.3", also=(("src/soundevent/evaluation/affinity.py", '\n\ndef _prepare_geometry(\n    geometry: data.Geometry,\n    time_buffer: float = 0.01,\n    freq_buffer: float = 100,\n) -> data.Geometry:\n    if geometry.type in BUFFER_GEOMETRY_TYPES:\n        return buffer_geometry(\n            geometry,\n            time_buffer=time_buffer,\n            freq_buffer=freq_buffer,\n        )\n\n    return geometry\n', "\n"),)),
]
