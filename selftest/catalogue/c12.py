from selftest.harness import V

O = "src/soundevent/geometry/operations.py"
VARIANTS = [
    V("strict-gt", O, "    return stop - start >= overlap", "    return stop - start > overlap", "R12.2"),
    V("stop-is-max", O, "    stop = min(stop1, stop2)", "    stop = max(stop1, stop2)", "R12.2"),
    V("min-width-is-max", O, "        min_width = min(\n            stop1 - start1,", "        min_width = max(\n            stop1 - start1,", "R12.2"),
    V("both-thresholds-accepted", O, "    if min_absolute_overlap is not None and min_relative_overlap is not None:\n        raise ValueError(\n            \"Only one of min_absolute_overlap or \"\n            \"min_relative_overlap can be provided.\"\n        )\n\n", "", "R12.3"),
    V("relative-zero-rejected", O, "if min_relative_overlap < 0 or min_relative_overlap > 1:", "if min_relative_overlap <= 0 or min_relative_overlap > 1:", "R12.3"),
    V("relative-range-unchecked-above", O, "if min_relative_overlap < 0 or min_relative_overlap > 1:", "if min_relative_overlap < 0:", "R12.3"),
    V("frequency-uses-time-bounds", O, "    _, low_freq_1, _, high_freq_1 = compute_bounds(geom1)", "    low_freq_1, _, high_freq_1, _ = compute_bounds(geom1)", "R12.4"),
    V("temporal-thresholds-crossed", O, "        (start_time_1, end_time_1),\n        (start_time_2, end_time_2),\n        min_absolute_overlap=min_absolute_overlap,\n        min_relative_overlap=min_relative_overlap,",
      "        (start_time_1, end_time_1),\n        (start_time_2, end_time_2),\n        min_absolute_overlap=min_relative_overlap,\n        min_relative_overlap=min_absolute_overlap,", "R12.4"),
    V("temporal-threshold-dropped", O, "        (start_time_1, end_time_1),\n        (start_time_2, end_time_2),\n        min_absolute_overlap=min_absolute_overlap,\n", "        (start_time_1, end_time_1),\n        (start_time_2, end_time_2),\n", "R12.4"),
    V("temporal-same-geometry-twice", O, "    start_time_2, _, end_time_2, _ = compute_bounds(geom2)", "    start_time_2, _, end_time_2, _ = compute_bounds(geom1)", "R12.4"),
    V("is-in-clip-touching-in", O, "    if (end_time <= clip.start_time + minimum_overlap) or (", "    if (end_time < clip.start_time + minimum_overlap) or (", "R12.5"),
    V("is-in-clip-and", O, "    if (end_time <= clip.start_time + minimum_overlap) or (\n        start_time >= clip.end_time - minimum_overlap\n    ):", "    if (end_time <= clip.start_time + minimum_overlap) and (\n        start_time >= clip.end_time - minimum_overlap\n    ):", "R12.5"),
    V("is-in-clip-negative-allowed", O, "    if minimum_overlap < 0:\n        raise ValueError(\"The minimum overlap must be non-negative.\")\n\n", "", "R12.5"),
    V("is-in-clip-minimum-sign", O, "start_time >= clip.end_time - minimum_overlap", "start_time >= clip.end_time + minimum_overlap", "R12.5"),
    V("absolute-threshold-ignored", O, "    if min_absolute_overlap is not None:\n        overlap = min_absolute_overlap\n\n", "", "R12.2"),
    V("asymmetric-width", O, "        min_width = min(\n            stop1 - start1,\n            stop2 - start2,\n        )", "        min_width = stop1 - start1", "R12"),
    V("thresholds-swapped-in-signature(G.4)", "src/soundevent/geometry/operations.py", "    interval2: tuple[float, float],\n    min_absolute_overlap: Optional[float] = None,\n    min_relative_overlap: Optional[float] = None,\n):", "    interval2: tuple[float, float],\n    min_relative_overlap: Optional[float] = None,\n    min_absolute_overlap: Optional[float] = None,\n):", "G.4"),
    # neutral
    V("N-le-flipped", O, "    return stop - start >= overlap", "    return overlap <= stop - start", None),
    V("N-swap-max-args", O, "    start = max(start1, start2)", "    start = max(start2, start1)", None),
    V("N-range-chained", O, "if min_relative_overlap < 0 or min_relative_overlap > 1:", "if not 0 <= min_relative_overlap <= 1:", None),
    V("N-is-in-clip-return-expr", O, "    if (end_time <= clip.start_time + minimum_overlap) or (\n        start_time >= clip.end_time - minimum_overlap\n    ):\n        return False\n\n    return True",
      "    return (end_time > clip.start_time + minimum_overlap) and (\n        start_time < clip.end_time - minimum_overlap\n    )", None),
    # wave 6
    V("converted-vertices-snapped(C05/R05.1)", "src/soundevent/geometry/conversion.py", "        return time_stamp_to_shapely(geom)", "        return shapely.set_precision(time_stamp_to_shapely(geom), 1e-9)", "C05/R05.1"),
    V("is-in-clip-half-migrated", "src/soundevent/geometry/operations.py", "    start_time, _, end_time, _ = compute_bounds(geometry)\n\n    if (end_time <= clip.start_time + minimum_overlap) or (\n        start_time >= clip.end_time - minimum_overlap",
      "    start_time, _, end_time, _ = compute_bounds(geometry)\n    start_time = start_time - clip.start_time\n    end_time = end_time - clip.start_time\n\n    if (end_time <= clip.start_time + minimum_overlap) or (\n        start_time >= clip.duration - minimum_overlap", "R12.5"),
    V("N-is-in-clip-fully-migrated", "src/soundevent/geometry/operations.py", "    start_time, _, end_time, _ = compute_bounds(geometry)\n\n    if (end_time <= clip.start_time + minimum_overlap) or (\n        start_time >= clip.end_time - minimum_overlap",
      "    start_time, _, end_time, _ = compute_bounds(geometry)\n\n    if (end_time <= clip.start_time + minimum_overlap) or (\n        start_time >= clip.start_time + clip.duration - minimum_overlap", None),
    # F24: the pre-repair form
    V("temporal-overlap-not-exported(F24)", "src/soundevent/geometry/__init__.py", "    have_temporal_overlap,\n", "", "R12.6"),
    # G.12
    V("negative-absolute-threshold-rejected(G.12)", "src/soundevent/geometry/operations.py", "    if min_relative_overlap is not None:\n        if min_relative_overlap < 0 or min_relative_overlap > 1:", "    if min_absolute_overlap is not None and min_absolute_overlap < 0:\n        raise ValueError(\"The minimum absolute overlap must not be negative.\")\n\n    if min_relative_overlap is not None:\n        if min_relative_overlap < 0 or min_relative_overlap > 1:", "G.12"),
    V("zero-width-interval-rejected(G.12)", "src/soundevent/geometry/operations.py", "    if min_relative_overlap is not None:\n        if min_relative_overlap < 0 or min_relative_overlap > 1:", "    if interval1[0] == interval1[1]:\n        raise ValueError(\"Empty interval.\")\n\n    if min_relative_overlap is not None:\n        if min_relative_overlap < 0 or min_relative_overlap > 1:", "G.12"),
]
