from selftest.harness import V

D = "src/soundevent/data/"
VARIANTS = [
    V("predicted-tag-no-le", D + "predicted_tags.py", "score: float = Field(default=1, ge=0, le=1)", "score: float = Field(default=1, ge=0)", "R04.1"),
    V("match-affinity-ge-minus-1", D + "matches.py", "affinity: float = Field(default=0.0, ge=0.0, le=1.0)", "affinity: float = Field(default=0.0, ge=-1.0, le=1.0)", "R04.1"),
    V("evaluation-score-unbounded(F4)", D + "evaluations.py", "        default=None, ge=0.0, le=1.0, alias=\"score\"\n", "        default=None, alias=\"score\"\n", "R04.1"),
    V("seqpred-score-lt-1", D + "sequence_predictions.py", "score: float = Field(default=1, ge=0, le=1)", "score: float = Field(default=1, ge=0, lt=1)", "R04.1"),
    V("clipeval-score-plain", D + "clip_evaluations.py", "score: Optional[float] = Field(default=None, ge=0.0, le=1.0)", "score: Optional[float] = None", "R04.1"),
    V("check-matches-undecorated", D + "clip_evaluations.py", "    @model_validator(mode=\"after\")  # type: ignore\n    def _check_matches(self):", "    def _check_matches(self):", "R04.2"),
    V("clips-match-eq", D + "clip_evaluations.py", "if example.clip.uuid != prediction.clip.uuid:", "if example.clip.uuid == prediction.clip.uuid:", "R04.2"),
    V("clips-match-compares-own-uuid", D + "clip_evaluations.py", "if example.clip.uuid != prediction.clip.uuid:", "if example.uuid != prediction.uuid:", "R04.2"),
    V("no-duplicate-source-check", D + "clip_evaluations.py", "        if len(match_sources) != len(match_sources_set):\n            raise ValueError(\"Multiple matches for the same source.\")\n\n", "", "R04.2"),
    V("targets-subset-only", D + "clip_evaluations.py", "if match_targets_set != annotation_sound_events:", "if not match_targets_set <= annotation_sound_events:", "R04.2"),
    V("sources-compared-with-annotations", D + "clip_evaluations.py", "if match_sources_set != predicted_sound_events:", "if match_sources_set != annotation_sound_events:", "R04.2"),
    V("match-or-instead-of-and", D + "matches.py", "if self.source is None and self.target is None:", "if self.source is None or self.target is None:", "R04.2"),
    V("match-validator-only-source", D + "matches.py", "if self.source is None and self.target is None:", "if self.source is None and self.source is None:", "R04.2"),
    V("clip-times-ge", D + "clips.py", "if self.start_time > self.end_time:", "if self.start_time >= self.end_time:", "R04.2"),
    V("clip-times-reversed", D + "clips.py", "if self.start_time > self.end_time:", "if self.start_time < self.end_time:", "R04.2"),
    V("project-compares-annotation-uuid", D + "annotation_projects.py", "if annotated_clip.clip.uuid not in clip_ids:", "if annotated_clip.uuid not in clip_ids:", "R04.2"),
    V("project-ids-from-task-uuid", D + "annotation_projects.py", "clip_ids = {task.clip.uuid for task in self.tasks}", "clip_ids = {task.uuid for task in self.tasks}", "R04.2"),
    V("project-validator-returns-none", D + "annotation_projects.py", "                )\n\n        return self\n", "                )\n", "R04.2"),
    V("model-construct-in-match-adapter", "src/soundevent/io/aoef/match.py", "        return data.Match(\n            uuid=obj.uuid,\n            source=source,", "        return data.Match.model_construct(\n            uuid=obj.uuid,\n            source=source,", "R04"),
    V("setattr-bypass-in-task", "src/soundevent/evaluation/tasks/clip_classification.py", "    return true_class, predicted_class_scores, evaluated\n", "    object.__setattr__(evaluated, \"score\", 2.0)\n    return true_class, predicted_class_scores, evaluated\n", "R04.3"),
    V("clip-validator-after-mode", D + "clips.py", "    @model_validator(mode=\"after\")\n    def _validate_times", "    @model_validator(mode=\"wrap\")\n    def _validate_times", "R04.2"),
    V("clip-times-epsilon-tolerance", "src/soundevent/data/clips.py", 'if self.start_time > self.end_time:', 'if self.start_time > self.end_time + 1e-9:', "R04.2"),
    V("clip-times-rounded", "src/soundevent/data/clips.py", 'if self.start_time > self.end_time:', 'if round(self.start_time, 6) > round(self.end_time, 6):', "R04.2"),
    V("classmethod-above-model-validator", "src/soundevent/data/matches.py", "    @model_validator(mode=\"after\")\n    def _validate_match(self):", "    @classmethod\n    @model_validator(mode=\"after\")\n    def _validate_match(self):", "R04.2"),
    # neutral
    V("N-clips-match-swapped-operands", D + "clip_evaluations.py", "if example.clip.uuid != prediction.clip.uuid:", "if prediction.clip.uuid != example.clip.uuid:", None),
    V("N-clip-times-lt-flipped", D + "clips.py", "if self.start_time > self.end_time:", "if self.end_time < self.start_time:", None),
    V("N-inline-sets", D + "clip_evaluations.py", "if match_targets_set != annotation_sound_events:", "if set(match_targets) != annotation_sound_events:", None),
    V("N-bounds-as-floats", D + "predicted_tags.py", "score: float = Field(default=1, ge=0, le=1)", "score: float = Field(default=1, ge=0.0, le=1.0)", None),
    V("N-match-not-none-demorgan", D + "matches.py", "if self.source is None and self.target is None:", "if not (self.source is not None or self.target is not None):", None),
    # F19: the pre-repair form (ordering tested on the raw input of a before-mode validator)
    V("clip-times-compared-raw-before-mode(F19)", D + "clips.py", "    @model_validator(mode=\"after\")\n    def _validate_times(self):\n        \"\"\"Validate that start_time < end_time.\"\"\"\n        if self.start_time > self.end_time:\n            raise ValueError(\"start_time must be less than end_time\")\n        return self",
      "    @model_validator(mode=\"before\")\n    def _validate_times(cls, values):\n        \"\"\"Validate that start_time < end_time.\"\"\"\n        if values[\"start_time\"] > values[\"end_time\"]:\n            raise ValueError(\"start_time must be less than end_time\")\n        return values", "R04.6"),
    V("N-clip-times-before-mode-on-floats", D + "clips.py", "    @model_validator(mode=\"after\")\n    def _validate_times(self):\n        \"\"\"Validate that start_time < end_time.\"\"\"\n        if self.start_time > self.end_time:\n            raise ValueError(\"start_time must be less than end_time\")\n        return self",
      "    @model_validator(mode=\"after\")\n    def _validate_times(self):\n        \"\"\"Validate that start_time < end_time.\"\"\"\n        start, end = self.start_time, self.end_time\n        if start > end:\n            raise ValueError(\"start_time must be less than end_time\")\n        return self", None),
    # F25: the pre-repair form (raw mapping read in before mode)
    V("match-validator-raw-mapping-before-mode(F25)", D + "matches.py", "    @model_validator(mode=\"after\")\n    def _validate_match(self):\n        \"\"\"Validate the match.\"\"\"\n        if self.source is None and self.target is None:\n            raise ValueError(\"Match cannot be between two null objects.\")\n        return self",
      "    @model_validator(mode=\"before\")\n    def _validate_match(cls, values):\n        \"\"\"Validate the match.\"\"\"\n        if values.get(\"source\") is None and values.get(\"target\") is None:\n            raise ValueError(\"Match cannot be between two null objects.\")\n        return values", "R04.6"),
    V("match-validator-before-mode-reads-attributes", "src/soundevent/data/matches.py", '    @model_validator(mode="after")', '    @model_validator(mode="before")', "R04.2"),
]
