from selftest.harness import V

O = "src/soundevent/geometry/operations.py"
GUARD = "    if time_buffer < 0 or freq_buffer < 0:\n        raise ValueError(\n            \"The time buffer and the frequency buffer must be non negative.\"\n        )\n\n"
VARIANTS = [
    V("guard-below-dispatch", O, GUARD + "    if geometry.type == \"TimeStamp\":\n        return buffer_timestamp(geometry, time_buffer=time_buffer)\n",
      "    if geometry.type == \"TimeStamp\":\n        return buffer_timestamp(geometry, time_buffer=time_buffer)\n" + GUARD, "R11.1"),
    V("guard-rejects-zero", O, "    if time_buffer < 0 or freq_buffer < 0:", "    if time_buffer <= 0 or freq_buffer < 0:", "R11.1"),
    V("guard-only-time", O, "    if time_buffer < 0 or freq_buffer < 0:", "    if time_buffer < 0:", "R11.1"),
    V("timestamp-clamp-at-1", O, "    start_time = max(time - time_buffer, 0)\n    end_time = time + time_buffer", "    start_time = max(time - time_buffer, 1)\n    end_time = time + time_buffer", "R11.2"),
    V("interval-end-shrinks", O, "    start_time = max(start_time - time_buffer, 0)\n    end_time += time_buffer\n    return data.TimeInterval", "    start_time = max(start_time - time_buffer, 0)\n    end_time -= time_buffer\n    return data.TimeInterval", "R11.2"),
    V("bbox-high-unclamped", O, "    high_freq = min(high_freq + freq_buffer, data.MAX_FREQUENCY)", "    high_freq = high_freq + freq_buffer", "R11.2"),
    V("bbox-low-uses-time-buffer", O, "    low_freq = max(low_freq - freq_buffer, 0)", "    low_freq = max(low_freq - time_buffer, 0)", "R11.2"),
    V("bbox-buffers-crossed-at-call", O, "            geometry,\n            time_buffer=time_buffer,\n            freq_buffer=freq_buffer,\n        )\n\n    shp_geom", "            geometry,\n            time_buffer=freq_buffer,\n            freq_buffer=time_buffer,\n        )\n\n    shp_geom", "R11.4"),
    V("bbox-through-shapely", O, "    if geometry.type == \"BoundingBox\":\n        return buffer_bounding_box_geometry(\n            geometry,\n            time_buffer=time_buffer,\n            freq_buffer=freq_buffer,\n        )\n\n", "", "R11.3"),
    V("shapely-path-buffers-crossed", O, "        shp_geom,\n        time_buffer=time_buffer,\n        freq_buffer=freq_buffer,", "        shp_geom,\n        time_buffer=freq_buffer,\n        freq_buffer=time_buffer,", "R11.4"),
    V("clip-allows-negative-frequency", O, "        buffered,\n        0,\n        0,\n        max_time + 1,", "        buffered,\n        0,\n        -1,\n        max_time + 1,", "R11.5"),
    V("clip-no-upper-frequency", O, "        max_time + 1,\n        data.MAX_FREQUENCY,\n    )", "        max_time + 1,\n        2 * data.MAX_FREQUENCY,\n    )", "R11.5"),
    V("clip-cuts-right-edge", O, "        max_time + 1,", "        max_time - 1,", "R11.5"),
    V("unscale-by-other-factor", O, "    buffered = shapely.transform(buffered, lambda x: x / factor)", "    buffered = shapely.transform(buffered, lambda x: x / factor[::-1])", "R11.6"),
    V("zero-factor-1e9(F17)", O, "        1 / freq_buffer if freq_buffer > 0 else 1e7,", "        1 / freq_buffer if freq_buffer > 0 else 1e9,", "R11.7"),
    V("zero-factor-1e12", O, "        1 / freq_buffer if freq_buffer > 0 else 1e7,", "        1 / freq_buffer if freq_buffer > 0 else 1e12,", "R11.7"),
    V("factor-not-inverse", O, "        1 / time_buffer if time_buffer > 0 else 1e7,", "        time_buffer if time_buffer > 0 else 1e7,", "R11.6"),
    V("buffer-distance-2", O, "        transformed,\n        1,\n        cap_style", "        transformed,\n        2,\n        cap_style", "R11.6"),
    V("timestamp-returns-unvalidated", O, "    return data.TimeInterval(coordinates=[start_time, end_time])\n\n\ndef buffer_interval", "    return data.TimeInterval.model_construct(coordinates=[start_time, end_time])\n\n\ndef buffer_interval", "R11.2"),
    # neutral
    V("N-max-args-swapped", O, "    start_time = max(time - time_buffer, 0)\n    end_time = time + time_buffer", "    start_time = max(0, time - time_buffer)\n    end_time = time_buffer + time", None),
    V("N-positional-time-buffer", O, "        return buffer_timestamp(geometry, time_buffer=time_buffer)", "        return buffer_timestamp(geometry, time_buffer)", None),
    V("N-end-plus-assign", O, "    end_time += time_buffer\n    return data.TimeInterval", "    end_time = end_time + time_buffer\n    return data.TimeInterval", None),
    V("buffered-shape-converted-with-the-other-constructor", "src/soundevent/geometry/operations.py", '    if json_data["type"] == "Polygon":', '    if json_data["type"] != "Polygon":', "R11.5"),
    # G.12
    V("zero-buffers-rejected(G.12)", "src/soundevent/geometry/operations.py", "    if time_buffer < 0 or freq_buffer < 0:", "    if time_buffer == 0 and freq_buffer == 0:\n        raise ValueError(\"Nothing to buffer.\")\n\n    if time_buffer < 0 or freq_buffer < 0:", "G.12"),
    V("N-guard-split", "src/soundevent/geometry/operations.py", "    if time_buffer < 0 or freq_buffer < 0:\n        raise ValueError(\n            \"The time buffer and the frequency buffer must be non negative.\"\n        )", "    if time_buffer < 0:\n        raise ValueError(\"The time buffer must be non negative.\")\n\n    if freq_buffer < 0:\n        raise ValueError(\"The frequency buffer must be non negative.\")", None),
]
