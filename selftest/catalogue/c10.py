from selftest.harness import V

S = "src/soundevent/io/crowsetta/segment.py"
B = "src/soundevent/io/crowsetta/bbox.py"
Q = "src/soundevent/io/crowsetta/sequence.py"
A = "src/soundevent/io/crowsetta/annotation.py"
L = "src/soundevent/io/crowsetta/labels.py"
VARIANTS = [
    V("times-divided-twice", S, "        start_time = start_time / recording.time_expansion\n        end_time = end_time / recording.time_expansion\n", "        start_time = start_time / recording.time_expansion / recording.time_expansion\n        end_time = end_time / recording.time_expansion\n", "R10.1"),
    V("times-multiplied", S, "        start_time = start_time / recording.time_expansion\n", "        start_time = start_time * recording.time_expansion\n", "R10.1"),
    V("sample-rate-not-expanded", S, "        samplerate = recording.samplerate / recording.time_expansion\n\n        if segment.onset_sample is None:", "        samplerate = recording.samplerate\n\n        if segment.onset_sample is None:", "R10.1"),
    V("high-freq-not-scaled", B, "        high_freq = high_freq * recording.time_expansion\n", "", "R10.1"),
    V("freq-divided", B, "        low_freq = low_freq * recording.time_expansion\n", "        low_freq = low_freq / recording.time_expansion\n", "R10.1"),
    V("scale-when-not-requested", B, "    if adjust_time_expansion and recording.time_expansion != 1:\n        start_time = start_time / recording.time_expansion", "    if recording.time_expansion != 1:\n        start_time = start_time / recording.time_expansion", "R10.1"),
    V("round-samples", S, "    return int(time * recording.samplerate)", "    return round(time * recording.samplerate)", "R10.2"),
    V("nyquist-max", B, "    high_freq = min(high_freq, nyquist_freq)", "    high_freq = max(high_freq, nyquist_freq)", "R10.2"),
    V("onset-is-end", B, "        onset=start_time,\n        offset=end_time,", "        onset=end_time,\n        offset=start_time,", "R10.2"),
    V("low-high-from-time", B, "    start_time, low_freq, end_time, high_freq = convert_geometry_to_bbox(", "    start_time, end_time, low_freq, high_freq = convert_geometry_to_bbox(", "R10.2"),
    V("continue-always", Q, "            if ignore_errors:\n                continue\n\n            raise e", "            continue", "R10.4"),
    V("never-skip", Q, "            if ignore_errors:\n                continue\n\n            raise e", "            raise e", "R10.4"),
    V("sorted-annotations", Q, "    for annotation in annotations:", "    for annotation in sorted(annotations, key=lambda a: str(a.uuid)):", "R10.5"),
    V("tag-mapping-before-term-mapping", L, "    if term_mapping is not None:\n        if label in term_mapping:\n            return [data.Tag(term=term_mapping[label], value=label)]\n\n    if tag_mapping is not None:\n        if label in tag_mapping:\n            tags = tag_mapping[label]\n            return tags if isinstance(tags, list) else [tags]\n",
      "    if tag_mapping is not None:\n        if label in tag_mapping:\n            tags = tag_mapping[label]\n            return tags if isinstance(tags, list) else [tags]\n\n    if term_mapping is not None:\n        if label in term_mapping:\n            return [data.Tag(term=term_mapping[label], value=label)]\n", "R10.6"),
    V("pinned-key-clobbered(F12)", L, "    if key_mapping is not None:\n        if label in key_mapping:\n            term = data.term_from_key(key_mapping[label])\n            return [data.Tag(term=term, value=label)]\n", "    if key_mapping is not None:\n        key = key_mapping.get(label)\n", "R10.6"),
    V("select-by-key-not-value-only", L, "        return label_from_tag(tag, **{\"value_only\": True, **kwargs})", "        return label_from_tag(tag, **kwargs)", "R10.6"),
    V("value-only-fixed-next-to-kwargs(F21)", L, "        return label_from_tag(tag, **{\"value_only\": True, **kwargs})", "        return label_from_tag(tag, value_only=True, **kwargs)", "R10.7"),
    V("mappings-skipped-for-explicit-term(F22)", L, "    if tag_mapping is not None:\n        if label in tag_mapping:", "    if term is None and tag_mapping is not None:\n        if label in tag_mapping:", "R10.6"),
    V("index-mod-len-plus-1", L, "        index = index % len(tags)", "        index = index % (len(tags) + 1)", "R10.6"),
    V("value-only-ignored", L, "    if value_only:\n        return tag.value\n", "", "R10.6"),
    V("empty-label-not-empty", L, "    if label in empty_labels:\n        return []\n", "", "R10.6"),
    V("interval-cast-inverted", S, "        if not cast_to_segment:\n            raise ValueError(", "        if cast_to_segment:\n            raise ValueError(", "R10.3"),
    V("bbox-raise-on-time-ignored", B, "        geometry.type in [\"TimeInterval\", \"TimeStamp\"]\n        and raise_on_time_geometries", "        geometry.type in [\"TimeInterval\"]\n        and raise_on_time_geometries", "R10.3"),
    V("interval-from-frequency-bounds", S, "        start_time, _, end_time, _ = compute_bounds(geometry)", "        _, start_time, _, end_time = compute_bounds(geometry)", "R10.2"),
    V("sequence-to-annotations-filtered", Q, "        for segment in sequence.segments\n    ]", "        for segment in sequence.segments\n        if segment.label\n    ]", "R10.5"),
    V("adjust-flag-not-forwarded", A, "                box,\n                recording=recording,\n                adjust_time_expansion=adjust_time_expansion,", "                box,\n                recording=recording,", "R10.5"),
    V("separator-and-key-swapped", L, "    return f\"{data.key_from_term(tag.term)}{separator}{tag.value}\"", "    return f\"{tag.value}{separator}{data.key_from_term(tag.term)}\"", "R10.6"),
    # neutral
    V("N-math-floor", S, "    return int(time * recording.samplerate)", "    import math\n\n    return math.floor(time * recording.samplerate)", None),
    V("N-times-star-reciprocal", S, "        end_time = end_time / recording.time_expansion\n\n    geometry", "        end_time = end_time * (1 / recording.time_expansion)\n\n    geometry", None),
    V("N-key-mapping-get", L, "    if key_mapping is not None:\n        if label in key_mapping:\n            term = data.term_from_key(key_mapping[label])\n            return [data.Tag(term=term, value=label)]\n", "    if key_mapping is not None and label in key_mapping:\n        return [data.Tag(term=data.term_from_key(key_mapping[label]), value=label)]\n", None),
    V("N-handler-raise-bare", Q, "            raise e", "            raise", None),
    # wave 6: the codec the labels are made with
    V("key-from-term-name(C01/R01.7)", "src/soundevent/data/compat.py", "def key_from_term(term: Term) -> str:\n    return term.label", "def key_from_term(term: Term) -> str:\n    return term.name", "C01/R01.7"),
    # mutation audit, third operator set: which field each coordinate is read from
    V("box-start-read-from-offset", "src/soundevent/io/crowsetta/bbox.py", "    start_time = bbox.onset\n", "    start_time = bbox.offset\n", "R10.8"),
    V("box-low-read-from-high", "src/soundevent/io/crowsetta/bbox.py", "    low_freq = bbox.low_freq\n", "    low_freq = bbox.high_freq\n", "R10.8"),
    V("box-end-scaled-from-start", "src/soundevent/io/crowsetta/bbox.py", "        end_time = end_time / recording.time_expansion", "        end_time = start_time / recording.time_expansion", "R10.8"),
    V("segment-start-from-offset-samples", "src/soundevent/io/crowsetta/segment.py", "        start_time = segment.onset_sample / samplerate", "        start_time = segment.offset_sample / samplerate", "R10.8"),
    V("segment-missing-onset-test-on-offset", "src/soundevent/io/crowsetta/segment.py", "        if segment.onset_sample is None:", "        if segment.offset_sample is None:", "R10.8", occurrence=0),
    V("N-box-fields-unpacked-together", "src/soundevent/io/crowsetta/bbox.py", "    start_time = bbox.onset\n    end_time = bbox.offset\n", "    start_time, end_time = bbox.onset, bbox.offset\n", None),
    V("sequence-annotations-never-collected", "src/soundevent/io/crowsetta/annotation.py", "        sound_event_annotations.extend(time_interval_annotations)\n", "", "R10.5"),
    V("N-box-annotations-by-comprehension-then-grown", "src/soundevent/io/crowsetta/annotation.py", "    sound_event_annotations = []\n    sequence_annotations = []\n", "    sequence_annotations = []\n", None,
      also=(("src/soundevent/io/crowsetta/annotation.py", "    for box in crowsetta_bboxes:\n        sound_event_annotations.append(\n            bbox_to_annotation(\n                box,\n                recording=recording,\n                adjust_time_expansion=adjust_time_expansion,\n                created_by=created_by,\n                **kwargs,\n            )\n        )\n",
              "    sound_event_annotations = [\n        bbox_to_annotation(\n            box,\n            recording=recording,\n            adjust_time_expansion=adjust_time_expansion,\n            created_by=created_by,\n            **kwargs,\n        )\n        for box in crowsetta_bboxes\n    ]\n"),)),
    V("export-format-dispatch-crossed", "src/soundevent/io/crowsetta/annotation.py", '    if annotation_fmt == "bbox":', '    if annotation_fmt != "bbox":', "R10.9"),
    V("import-rejects-annotations-with-a-recording", "src/soundevent/io/crowsetta/annotation.py", "    if recording is None:\n        if path is None:", "    if recording is not None:\n        if path is None:", "R10.9"),
    V("single-sequence-not-wrapped", "src/soundevent/io/crowsetta/annotation.py", "    if not isinstance(crowsetta_sequences, list):", "    if isinstance(crowsetta_sequences, list):", "R10.9"),
    # G.12
    V("sample-only-segments-rejected(G.12)", "src/soundevent/io/crowsetta/segment.py", "    start_time = segment.onset_s\n", "    if segment.onset_s is None:\n        raise ValueError(\"The onset in seconds is required.\")\n\n    start_time = segment.onset_s\n", "G.12"),
]
