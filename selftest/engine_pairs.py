"""Engine self-test: pairs of equivalent spellings must have identical summaries (returns, raises, yields and their
path conditions, modulo loop-id renaming); pairs that differ in behaviour must not.

Property-independent; run by every thorough-tier check before the catalogue (an engine normal form that stops
working turns the rules' verdicts into noise, so a failure here is exit 2).  The module below is injected into an
in-memory overlay of the package as `soundevent._engine_selftest` -- nothing is written to /repo.
"""
SRC = '''
import functools
import operator
from typing import NamedTuple

TABLE = {}
_UNITS = {"s": 1, "ms": 1000}


class _Span(NamedTuple):
    lo: float
    hi: float


def _double(x):
    return x * 2


def _check(x):
    if x < 0:
        raise ValueError("negative")


def a_helper(x, y):
    return _double(x) + y
def b_helper(x, y):
    return x * 2 + y

def a_raise_in_helper(x):
    _check(x)
    return x + 1
def b_raise_in_helper(x):
    if x < 0:
        raise ValueError("negative")
    return x + 1

def a_ite(c, p, q):
    return p if c else q
def b_ite(c, p, q):
    return q if not c else p

def a_single_exit(k, p, q, r):
    if k == 1:
        out = p
    elif k == 2:
        out = q
    else:
        out = r
    return out
def b_single_exit(k, p, q, r):
    if k == 1:
        return p
    if k == 2:
        return q
    return r

def a_loop_append(xs):
    out = []
    for x in xs:
        if x is None:
            continue
        out.append(x + 1)
    return out
def b_loop_append(xs):
    return [x + 1 for x in xs if x is not None]

def a_dict_fill(xs):
    d = {}
    for i, x in enumerate(xs):
        d[x] = i
    return d
def b_dict_fill(xs):
    return {x: i for i, x in enumerate(xs)}

def a_map(xs):
    return list(map(lambda v: v + 1, xs))
def b_map(xs):
    return [v + 1 for v in xs]

def a_filter(xs):
    return list(filter(lambda v: v > 0, xs))
def b_filter(xs):
    return [v for v in xs if v > 0]

def a_local_def(xs, f):
    def scale(v):
        return v * f
    return scale(xs)
def b_local_def(xs, f):
    scale = lambda v: v * f
    return scale(xs)

def a_record(p, q):
    s = _Span(lo=p, hi=q)
    return s.hi - s.lo
def b_record(p, q):
    return q - p

def a_partial(p, q):
    h = functools.partial(operator.add, p)
    return h(q)
def b_partial(p, q):
    return p + q

def a_format(p, q):
    return "{}:{}".format(p, q)
def b_format(p, q):
    return f"{p}:{q}"

def a_match(k, p, q):
    match k:
        case "x":
            return p
        case _:
            return q
def b_match(k, p, q):
    if k == "x":
        return p
    return q

def a_augadd(xs):
    out = []
    for x in xs:
        out += [x]
    return out
def b_augadd(xs):
    return [x for x in xs]

def a_display_append(p, q):
    out = [p]
    out.append(q)
    return out
def b_display_append(p, q):
    return [p, q]

def a_dict_update(p, extra):
    d = {"k": p}
    d.update(extra)
    return d
def b_dict_update(p, extra):
    return {"k": p, **extra}

def a_slice(xs, n):
    w = slice(None, n)
    return xs[w]
def b_slice(xs, n):
    return xs[:n]

_KINDS = {"a": _double, "b": _check}


class _Box(NamedTuple):
    lo: float
    hi: float

    @classmethod
    def of(cls, pair):
        return cls(pair[0], pair[1])

    @property
    def width(self):
        return self.hi - self.lo


def _windows(xs, k):
    for x in xs:
        if x is None:
            continue
        yield _Span(x, x + k)


def a_gen_helper(xs, k):
    out = []
    for w in _windows(xs, k):
        out.append(w.hi - w.lo)
    return out
def b_gen_helper(xs, k):
    return [(x + k) - x for x in xs if x is not None]

def a_takewhile(xs, lim):
    import itertools
    out = []
    for v in itertools.takewhile(lambda q: q < lim, xs):
        out.append(v)
    return out
def b_takewhile(xs, lim):
    out = []
    for v in xs:
        if not (v < lim):
            break
        out.append(v)
    return out

def a_table(kind, x):
    fn = _KINDS.get(kind)
    if fn is None:
        raise KeyError(kind)
    return fn(x)
def b_table(kind, x):
    if kind == "a":
        return _double(x)
    if kind == "b":
        return _check(x)
    raise KeyError(kind)

def a_record_methods(p):
    return _Box.of(p).width
def b_record_methods(p):
    return p[1] - p[0]

def a_any_display(p, q, s):
    return any(v in s for v in (p, q))
def b_any_display(p, q, s):
    return p in s or q in s

def a_yield_chain(xs, ys):
    import itertools
    yield from itertools.chain(zip(xs, itertools.repeat(None)), zip(itertools.repeat(None), ys))
def b_yield_chain(xs, ys):
    for x in xs:
        yield x, None
    for y in ys:
        yield None, y

def a_unroll(obj, f):
    for name in ("p", "q"):
        f(getattr(obj, name))
    return obj
def b_unroll(obj, f):
    f(obj.p)
    f(obj.q)
    return obj

def a_or_none(xs):
    return xs or None
def b_or_none(xs):
    return xs if xs else None

def a_demorgan(p, q, v):
    if not (p is None or q is None):
        return v
    return 0
def b_demorgan(p, q, v):
    if p is not None and q is not None:
        return v
    return 0

def a_map_fused(xs, f):
    return [v.id for v in map(f, xs)]
def b_map_fused(xs, f):
    return [f(x).id for x in xs]

def a_cond_list(p, q, c):
    parts = [p]
    if c:
        parts.append(q)
    return parts
def b_cond_list(p, q, c):
    return [p, q] if c else [p]

# --- pairs that must NOT be identified
def a_neq_filter(xs):
    return [x for x in xs if x is not None]
def b_neq_filter(xs):
    return [x for x in xs if x]

def a_neq_later_mutation(xs, ys):
    out = []
    for x in xs:
        out.append(x)
    for y in ys:
        out.append(y)
    return out
def b_neq_later_mutation(xs, ys):
    return [x for x in xs]

def a_search_loop(xs, enc):
    for x in xs:
        v = enc(x)
        if v is not None:
            return v
    return None
def b_search_loop(xs, enc):
    for x in xs:
        if (v := enc(x)) is not None:
            break
    else:
        v = None
    return v

def a_comp_display(p, q, f):
    return [f(p), f(q)]
def b_comp_display(p, q, f):
    return [f(x) for x in (p, q)]

def a_star_display(p, q, f):
    return f(p, q)
def b_star_display(p, q, f):
    both = [p, q]
    return f(*both)

def a_map_display(p, q):
    a, b = _double(p), _double(q)
    return a - b
def b_map_display(p, q):
    a, b = map(_double, (p, q))
    return a - b

def a_dict_values(p, q):
    return p < 0 or q < 0
def b_dict_values(p, q):
    named = {"p": p, "q": q}
    return any(v < 0 for v in named.values())

def a_dict_setitem(p, q, f):
    return f(a=p, b=q, c=1)
def b_dict_setitem(p, q, f):
    kw = {"a": p}
    kw["b"] = q
    kw.update(c=1)
    return f(**kw)

def a_empty_appends(c, p, q, f):
    return f([p, q] if c else [q])
def b_empty_appends(c, p, q, f):
    parts = []
    if c:
        parts.append(p)
    parts.append(q)
    return f(parts)

def a_extend_comp(xs, f):
    return [f(x) for x in xs]
def b_extend_comp(xs, f):
    out = []
    out.extend(f(x) for x in xs)
    return out

def a_multi_fill(xs, ys, f):
    return [f(x) for x in xs] + [y for y in ys if y] + [0]
def b_multi_fill(xs, ys, f):
    out = []
    for x in xs:
        out.append(f(x))
    out.extend(y for y in ys if y)
    out.append(0)
    return out

def a_local_gen(xs, n):
    for x in xs:
        if x > n:
            break
        yield x + n
def b_local_gen(xs, n):
    def shifted():
        for x in xs:
            yield x, x + n
    import itertools
    for x, y in itertools.takewhile(lambda pair: not pair[0] > n, shifted()):
        yield y

def a_zip_display(p, f, u, v):
    return (f(u, p[0]), f(v, p[1]))
def b_zip_display(p, f, u, v):
    return tuple(f(k, c) for k, c in zip((u, v), p))

def a_search_preset(xs, enc):
    for x in xs:
        v = enc(x)
        if v is not None:
            return v
    return None
def b_search_preset(xs, enc):
    found = None
    for x in xs:
        if (v := enc(x)) is not None:
            found = v
            break
    return found

def a_cond_record(k, p, q):
    return p if k == "a" else q
def b_cond_record(k, p, q):
    plan = _Span(p, 0) if k == "a" else _Span(q, 1)
    return plan.lo

def a_local_call(p, q, f):
    return [f(p, 1), f(q, 1)]
def b_local_call(p, q, f):
    def g(v):
        return f(v, 1)
    return [g(p), g(q)]

def a_const_member(x):
    return x + 1
def b_const_member(x, unit="s"):
    if unit not in _UNITS:
        raise ValueError(unit)
    return x + 1

def a_neq_search_default(xs, enc):
    for x in xs:
        v = enc(x)
        if v is not None:
            return v
    return None
def b_neq_search_default(xs, enc):
    for x in xs:
        if (v := enc(x)) is not None:
            break
    else:
        v = 0
    return v

def a_explicit_defaults(m, xs, doc):
    import numpy as np
    from scipy.sparse.csgraph import connected_components
    n, labels = connected_components(m)
    return sorted(xs), labels, np.mean(xs), doc.model_dump_json(), "a:b".split(":")
def b_explicit_defaults(m, xs, doc):
    import numpy as np
    from scipy.sparse.csgraph import connected_components
    n, labels = connected_components(m, directed=True, connection="weak")
    return sorted(xs, reverse=False), labels, np.mean(xs, axis=None), doc.model_dump_json(exclude_none=False), "a:b".split(":", maxsplit=-1)

def a_guarded_loop(xs, f):
    for x in xs:
        if f(x):
            raise ValueError(x)
    return xs
def b_guarded_loop(xs, f):
    if not xs:
        return xs
    for x in xs:
        if f(x):
            raise ValueError(x)
    return xs

def a_isinstance_tuple(v):
    if isinstance(v, (list, tuple)):
        return len(v)
    return 1
def b_isinstance_tuple(v):
    if isinstance(v, list) or isinstance(v, tuple):
        return len(v)
    else:
        return 1

def a_for_else(xs, enc):
    for x in xs:
        v = enc(x)
        if v is not None:
            return v
    return None
def b_for_else(xs, enc):
    for x in xs:
        v = enc(x)
        if v is not None:
            return v
    else:
        return None

def a_range_spelled(n, d):
    return [i for i in range(n)], d.get("k")
def b_range_spelled(n, d):
    return [i for i in range(0, n, 1)], d.get("k", None)

def a_fancy_zip(M, rows, cols):
    for r, c in zip(rows, cols):
        if M[r, c] > 0:
            yield r, c
def b_fancy_zip(M, rows, cols):
    vals = M[rows, cols]
    for r, c, v in zip(rows, cols, vals):
        if v > 0:
            yield r, c

def a_helper_kw(x, y):
    return a_helper(x, y)
def b_helper_kw(x, y):
    return a_helper(x=x, y=y)

def _gen_windows(lo, hi, hop, width, partial):
    n = int((hi - lo) / hop) + 1
    for i in range(n):
        a = lo + i * hop
        if a >= hi:
            return
        b = a + width
        if b > hi:
            if not partial:
                return
            b = hi
        yield a, b

def a_gen_return(lo, hi, hop, width, partial, f):
    n = int((hi - lo) / hop) + 1
    for i in range(n):
        a = lo + i * hop
        if a >= hi:
            break
        b = a + width
        if b > hi and not partial:
            break
        b = min(b, hi)
        yield f(a, b)
def b_gen_return(lo, hi, hop, width, partial, f):
    for a, b in _gen_windows(lo, hi, hop, width, partial):
        yield f(a, b)

def _gen_skip(lo, hi, hop, n):
    for i in range(n):
        a = lo + i * hop
        if a >= hi:
            continue
        yield a

def a_neq_gen_stop(lo, hi, hop, n, f):
    for i in range(n):
        a = lo + i * hop
        if a >= hi:
            break
        yield f(a)
def b_neq_gen_stop(lo, hi, hop, n, f):
    for a in _gen_skip(lo, hi, hop, n):
        yield f(a)

def a_counted_while(n, f):
    out = []
    for i in range(n):
        out.append(f(i))
    return out
def b_counted_while(n, f):
    out = []
    i = 0
    while i < n:
        out.append(f(i))
        i += 1
    return out

def a_join_fstr(a, b):
    return f"seg:{a}:{b}"
def b_join_fstr(a, b):
    return ":".join(["seg", str(a), str(b)])

def a_minmax_ite(x, lo, hi):
    return max(x, lo), min(x, hi)
def b_minmax_ite(x, lo, hi):
    return (lo if x < lo else x), (hi if hi < x else x)

def a_gen_display(f, p, q, t):
    u = f(p, t)
    v = f(q, t)
    return u, v
def b_gen_display(f, p, q, t):
    u, v = (f(g, t) for g in (p, q))
    return u, v

def a_int_fold(b):
    return b[0], b[2]
def b_int_fold(b):
    axis = 0
    return b[axis], b[axis + 2]

def a_dict_call(x, y):
    return {"a": x, "b": y}
def b_dict_call(x, y):
    return dict(a=x, b=y)

def _clamp_opt(value, lower=None, upper=None):
    if lower is not None and lower > value:
        return lower
    if upper is not None and upper < value:
        return upper
    return value

def a_clamp_helper(x, t):
    return max(x - t, 0)
def b_clamp_helper(x, t):
    return _clamp_opt(x - t, lower=0)

_PAIR_TABLE = {
    "sum": a_helper,
    "neg": b_helper_neg,
}

def b_helper_neg(x, y):
    return x - y

def a_table_items(kind, x, y):
    if kind == "sum":
        return a_helper(x, y)
    if kind == "neg":
        return b_helper_neg(x, y)
    raise KeyError(kind)
def b_table_items(kind, x, y):
    for name, fn in _PAIR_TABLE.items():
        if kind == name:
            return fn(x, y)
    raise KeyError(kind)

def a_star_list(f, a, b, c):
    return [f(a), f(b), f(c)]
def b_star_list(f, a, b, c):
    base = [f(a), f(b)]
    return [*base, f(c)]

def a_list_concat(f, a, b, c):
    return [f(a), f(b), f(c)]
def b_list_concat(f, a, b, c):
    return [f(a), f(b)] + [f(c)]

def a_itemgetter2(b):
    return b[0], b[2]
def b_itemgetter2(b):
    import operator
    return operator.itemgetter(0, 2)(b)

def _axis_extent(b, axis):
    if axis not in ("time", "frequency"):
        raise ValueError(axis)
    return (b[0], b[2]) if axis == "time" else (b[1], b[3])

def a_axis_helper(b):
    return b[0], b[2]
def b_axis_helper(b):
    return _axis_extent(b, "time")

def a_table_member(kind, x):
    if kind in ("sum", "neg"):
        return x
    return None
def b_table_member(kind, x):
    if kind in _PAIR_TABLE:
        return x
    return None

class _Registry:
    def __init__(self):
        self._handlers = {}

    def register(self, *names):
        def decorator(handler):
            for name in names:
                self._handlers[name] = handler
            return handler
        return decorator

    def get(self, key):
        return self._handlers.get(key)

_REG = _Registry()

@_REG.register("p", "q")
def _reg_first(x):
    return x + 1

@_REG.register("r")
def _reg_second(x):
    return x - 1

_REG_LITERAL = {"p": _reg_first, "q": _reg_first, "r": _reg_second}

def a_registry(kind, x):
    fn = _REG_LITERAL.get(kind)
    if fn is None:
        raise KeyError(kind)
    return fn(x)
def b_registry(kind, x):
    fn = _REG.get(kind)
    if fn is None:
        raise KeyError(kind)
    return fn(x)

def a_neq_option(m, xs):
    from scipy.sparse.csgraph import connected_components
    n, labels = connected_components(m)
    return sorted(xs), labels
def b_neq_option(m, xs):
    from scipy.sparse.csgraph import connected_components
    n, labels = connected_components(m, directed=False)
    return sorted(xs, reverse=True), labels

def _vp_nonneg(message, *values):
    if any(v < 0 for v in values):
        raise ValueError(message)
def a_vararg_helper(p, q):
    _vp_nonneg("negative", p, q)
    return p + q
def b_vararg_helper(p, q):
    if p < 0 or q < 0:
        raise ValueError("negative")
    return p + q

def _vp_flagged(p, flag=True):
    return [p] if (p is not None) == flag else []
def a_bool_flag(p):
    return _vp_flagged(p)
def b_bool_flag(p):
    return [p] if p is not None else []

class _VPSeg(NamedTuple):
    offset: int
    frames: int
    rate: int
    @property
    def start(self):
        return self.offset / self.rate
    @property
    def end(self):
        if self.frames is None:
            raise ValueError("open ended")
        return self.start + self.frames / self.rate
    def scaled(self, k):
        return self.offset * k
def a_record_property(p, q, r):
    seg = _VPSeg(offset=int(p), frames=int(q), rate=r)
    return seg.start, seg.end, seg.scaled(2)
def b_record_property(p, q, r):
    return int(p) / r, int(p) / r + int(q) / r, int(p) * 2

def _vp_pick(c, names):
    return {n: c[n] for n in names}
def a_comp_after_subst(c, p, q):
    return _vp_pick(c, (p, q))
def b_comp_after_subst(c, p, q):
    return {p: c[p], q: c[q]}

def a_neq_vararg(p, q):
    _vp_nonneg("negative", p)
    return p + q
def b_neq_vararg(p, q):
    _vp_nonneg("negative", p, q)
    return p + q

def _vp_find(rows, k):
    for name, val in rows:
        if name == k:
            return val
    return None
def a_search_helper(rows, k, f):
    v = _vp_find(rows, k)
    return f(v)
def b_search_helper(rows, k, f):
    return f(next((val for name, val in rows if name == k), None))

def _vp_find_ne(rows, k):
    for name, val in rows:
        if name != k:
            return val
    return None
def a_neq_search_helper(rows, k, f):
    return f(_vp_find(rows, k))
def b_neq_search_helper(rows, k, f):
    return f(_vp_find_ne(rows, k))

def a_neq_property_guard(p, q, r):
    seg = _VPSeg(offset=int(p), frames=q, rate=r)
    return seg.end
def b_neq_property_guard(p, q, r):
    return int(p) / r + q / r

def a_bound_method(p, q, r, f):
    seg = _VPSeg(offset=p, frames=q, rate=r)
    return f(seg.scaled)
def b_bound_method(p, q, r, f):
    def scaled(k):
        return p * k
    return f(scaled)

def a_neq_bound_method(p, q, r, f):
    seg = _VPSeg(offset=p, frames=q, rate=r)
    return f(seg.scaled)
def b_neq_bound_method(p, q, r, f):
    seg = _VPSeg(offset=q, frames=p, rate=r)
    return f(seg.scaled)

def a_isdisjoint(p, q, s):
    return "t" if not s.isdisjoint({p, q}) else "f"
def b_isdisjoint(p, q, s):
    return "t" if p in s or q in s else "f"

def a_product_comp(xs, ys, f):
    from itertools import product
    return [f(x, y) for x, y in product(xs, ys)]
def b_product_comp(xs, ys, f):
    return [f(x, y) for x in xs for y in ys]

def _vp_merge(defaults: dict, extra):
    merged = dict(defaults)
    merged.update(extra)
    return merged
def a_dict_copy_update(p, extra):
    return _vp_merge({"k": p}, extra)
def b_dict_copy_update(p, extra):
    return {"k": p, **extra}

def a_shapely_functions(g1, g2):
    import shapely
    return shapely.area(shapely.intersection(g1, g2))
def b_shapely_functions(g1, g2):
    return g1.intersection(g2).area

def _vp_ident(obj, *fields):
    values = tuple(getattr(obj, f) for f in fields)
    if len(values) == 1:
        return values[0]
    return values
def _vp_ident_hash(obj, *fields):
    return hash(_vp_ident(obj, *fields))
def a_star_through_helpers(o):
    return _vp_ident_hash(o, "u"), _vp_ident_hash(o, "a", "b")
def b_star_through_helpers(o):
    return hash(o.u), hash((o.a, o.b))

def _vp_name(*parts):
    return ":".join("{}".format(p) for p in parts)
def a_join_after_subst(p, q):
    return _vp_name("seg", p, q)
def b_join_after_subst(p, q):
    return f"seg:{p}:{q}"

def a_neq_product_order(xs, ys, f):
    from itertools import product
    return [f(x, y) for y, x in product(ys, xs)]
def b_neq_product_order(xs, ys, f):
    return [f(x, y) for x in xs for y in ys]

import operator as _vp_operator
_VP_TESTS = {"below": _vp_operator.lt, "above": _vp_operator.gt}
def _vp_apply(test, a, b):
    return test(a, b)
def a_operator_table(p, q):
    return _vp_apply(_VP_TESTS["below"], p, q), _VP_TESTS["above"](p, q)
def b_operator_table(p, q):
    return p < q, p > q

def a_reduce_display(p, q, r):
    import functools
    return functools.reduce(lambda a, b: a if a < b else b, (p, q, r))
def b_reduce_display(p, q, r):
    m = p if p < q else q
    return m if m < r else r

def _vp_windows(xs, n, inc):
    for x in xs:
        if x > n:
            if inc:
                yield x, n
            return
        yield x, x + 1
def a_two_yields(xs, n, inc):
    for a, b in _vp_windows(xs, n, inc):
        yield a + b
def b_two_yields(xs, n, inc):
    for x in xs:
        if x > n and not inc:
            break
        yield x + (n if x > n else x + 1)
        if x > n:
            break

_VP_CONV = []
def _vp_converts(kind):
    def register(f):
        _VP_CONV.append((kind, f))
        return f
    return register
@_vp_converts("a")
def _vp_conv_a(x):
    return x + 1
@_vp_converts("b")
def _vp_conv_b(x):
    return x * 2
def a_list_registry(kind, x):
    for k, f in _VP_CONV:
        if k == kind:
            return f(x)
    raise KeyError(kind)
def b_list_registry(kind, x):
    if "a" == kind:
        return x + 1
    if "b" == kind:
        return x * 2
    raise KeyError(kind)

def a_methodcaller(xs, p, q):
    import operator
    return operator.methodcaller("count", p)(xs), operator.itemgetter(p, q)(xs)
def b_methodcaller(xs, p, q):
    return xs.count(p), (xs[p], xs[q])

_VP_OPTIONS = {"fill": 0, "touch": False}
def _vp_options(**given):
    return {name: given.get(name, default) for name, default in _VP_OPTIONS.items()}
def a_options_table(f, fill):
    return f(**_vp_options(fill=fill))
def b_options_table(f, fill):
    return f(fill=fill, touch=False)

def a_neq_order(p, q):
    return [p, q]
def b_neq_order(p, q):
    return [q, p]
'''

EQUAL = ["helper", "raise_in_helper", "ite", "single_exit", "loop_append", "dict_fill", "map", "filter", "local_def", "record",
         "partial", "format", "match", "augadd", "display_append", "dict_update", "slice", "gen_helper", "takewhile", "table",
         "record_methods", "any_display", "yield_chain", "unroll", "or_none", "demorgan", "map_fused", "cond_list",
         "search_loop", "comp_display", "star_display", "map_display", "dict_values", "dict_setitem", "empty_appends", "extend_comp",
         "multi_fill", "local_gen", "zip_display", "search_preset", "cond_record", "local_call", "explicit_defaults", "guarded_loop", "isinstance_tuple", "for_else", "range_spelled", "fancy_zip", "helper_kw",
         "gen_return", "counted_while", "join_fstr", "minmax_ite", "gen_display", "int_fold", "dict_call", "clamp_helper",
         "table_items", "star_list", "list_concat", "itemgetter2", "axis_helper", "table_member", "registry",
         "vararg_helper", "bool_flag", "record_property", "comp_after_subst", "search_helper", "bound_method",
         "isdisjoint", "product_comp", "dict_copy_update", "shapely_functions", "star_through_helpers", "join_after_subst", "operator_table", "reduce_display", "two_yields",
         "list_registry", "methodcaller", "options_table"]
DIFFERENT = ["neq_filter", "neq_later_mutation", "neq_order", "neq_search_default", "neq_option", "neq_gen_stop", "neq_vararg", "neq_search_helper", "neq_property_guard", "neq_bound_method", "neq_product_order"]


def _alpha(t, mp):
    if not isinstance(t, tuple):
        if isinstance(t, str) and t in mp:
            return mp[t]
        return t
    if t and t[0] in ("elem", "inloop") and len(t) == 2 and isinstance(t[1], str):
        mp.setdefault(t[1], f"B{len(mp)}")
    if t and t[0] == "comp":
        for lid, _, _ in t[3]:
            mp.setdefault(lid, f"B{len(mp)}")
    if t and t[0] == "lambda":
        return ("lambda", "*")
    if t and t[0] == "alloc" and len(t) == 3:
        mp.setdefault(t[2], f"A{len(mp)}")
        return ("alloc", t[1], mp[t[2]])
    if t and t[0] in ("and", "or") and isinstance(t[1], tuple) and len(t) == 2:
        return (t[0], tuple(sorted((_alpha(c, mp) for c in t[1]), key=repr)))
    return tuple(_alpha(c, mp) for c in t)


def signature(summ):
    out = []
    for e in summ.events:
        if e.kind in ("return", "raise", "yield"):
            pass
    for e in summ.returns + summ.raises + summ.yields + [e for e in summ.events if e.kind == "break"]:
        mp = {}
        out.append((e.kind, repr(_alpha(e.live, mp)), repr(_alpha(e.term, mp))))
    # the local functions / lambdas the value mentions, by their own signatures (parameters renamed by position)
    from sa.sym import walk, subst
    used = {x[1] for e in summ.returns + summ.raises + summ.yields for x in walk(e.term) if x[0] == "lambda" and x[1] in summ.lambdas}
    for lid in sorted(used):
        ls = summ.lambdas[lid]
        ren = {("param", p): ("param", f"_{i}") for i, p in enumerate(ls.params)}
        for e in ls.returns + ls.raises + ls.yields:
            mp = {}
            out.append(("local " + e.kind, repr(_alpha(subst(e.live, ren), mp)), repr(_alpha(subst(e.term, ren), mp))))
    return sorted(out)


def run(root: str):
    """-> list of failure strings (empty = engine normal forms intact)"""
    from sa.index import Index
    from sa.sym import Summaries
    ix = Index(root, {"src/soundevent/_engine_selftest.py": SRC})
    sm = Summaries(ix)
    mod = "soundevent._engine_selftest"
    fails = []
    for name in EQUAL:
        a, b = signature(sm.of_func(mod, "a_" + name)), signature(sm.of_func(mod, "b_" + name))
        if a != b:
            fails.append(f"equivalent spellings `{name}` have different summaries: {a} vs {b}")
    for name in DIFFERENT:
        a, b = signature(sm.of_func(mod, "a_" + name)), signature(sm.of_func(mod, "b_" + name))
        if a == b:
            fails.append(f"different functions `{name}` were identified: {a}")
    return fails, len(EQUAL), len(DIFFERENT)
