"""Positive fixture for the shared-state rules G.1 / G.2 (analysed on every run; both rules must fire here)."""
_CACHE = {}


def cached_area(shape, scale, rounded=False):
    key = (shape, scale)
    if key in _CACHE:
        return _CACHE[key]
    value = shape.area * scale
    if rounded:
        value = round(value)
    _CACHE[key] = value  # G.1: the cached value depends on `rounded`, which is not part of the key
    return value


class Registry:
    items = {}

    def __init__(self, names):
        for i, name in enumerate(names):
            self.items[name] = i  # G.2: class-level dict mutated through self, shared by all instances


def labelled(tag, vocabulary, _seen={}):
    if tag.uuid not in _seen:
        _seen[tag.uuid] = vocabulary.index(tag)  # G.1: mutable default argument keyed without `vocabulary`
    return _seen[tag.uuid]


_RANGES = {}


def axis_range(array, dim):
    key = (id(array), dim)
    if key not in _RANGES:
        _RANGES[key] = (array[dim].min(), array[dim].max())  # G.1: keyed by the identity of a possibly temporary object
    return _RANGES[key]


def relabel(axis, step):
    attrs = axis.attrs
    attrs["step"] = step  # G.3: the caller's axis object is changed in place through an alias
    return dict(attrs)
