"""Positive examples for the order-of-effects rules G.6 / G.7 and the validation-bypass rule G.10 (analysed on every run: all must be
reported here)."""


def indices_and_values(xs):
    pairs = enumerate(xs)
    idx = [i for i, _ in pairs]
    vals = [v for _, v in pairs]  # G.6: `pairs` is exhausted by the first comprehension
    return idx, vals


def load_all(paths, load):
    out = []
    for p in paths:
        try:
            out.append(load(p))
        except ValueError:  # G.7: a failed load is dropped silently
            pass
    return out


from pydantic import BaseModel, field_validator  # noqa: E402


class Span(BaseModel):
    start: float
    end: float

    @field_validator("end")
    def _after_start(cls, v, info):
        if v < info.data["start"]:
            raise ValueError("end before start")
        return v


def fast_span(start, end):
    return Span.model_construct(start=start, end=end)  # G.10: the ordering check never runs


def shifted(span, dt):
    return Span.model_copy(span, update={"end": span.end + dt})  # G.10: neither does it here
