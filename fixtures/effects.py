"""Positive examples for the order-of-effects rules G.6 / G.7 (analysed on every run: both must be reported here)."""


def indices_and_values(xs):
    pairs = enumerate(xs)
    idx = [i for i, _ in pairs]
    vals = [v for _, v in pairs]  # G.6: `pairs` is exhausted by the first comprehension
    return idx, vals


def load_all(paths, load):
    out = []
    for p in paths:
        try:
            out.append(load(p))
        except ValueError:  # G.7: a failed load is dropped silently
            pass
    return out
