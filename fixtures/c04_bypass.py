# Positive fixture for R04.3 (never imported, only parsed): each statement is one bypass pattern the sweep must find.
from soundevent import data


def bypass(match, clip):
    a = data.Match.model_construct(affinity=7)            # 1 model_construct
    b = data.Match.construct(affinity=7)                  # 2 construct
    c = match.model_copy(update={"affinity": 7})          # 3 model_copy(update=)
    object.__setattr__(match, "affinity", 7)              # 4 object.__setattr__
    match.__dict__["affinity"] = 7                        # 5 __dict__ store
    clip.__dict__.update(start_time=9, end_time=1)        # 6 __dict__.update
    return a, b, c
