"""E3/E4/E5/E6 -- abstract summarisation of a function body.

A function body is turned into a *summary*: every local becomes a term over parameters, attribute
chains, projections and calls (gated single assignment: definitions reaching a join are merged as
``ite(cond, a, b)``); every call / return / raise / yield / store is recorded as an *event*, in
Python's evaluation order, together with the condition under which it executes (``live``) and the
loops it is nested in.  Nothing is executed, loops are not unrolled (the loop variable is an opaque
element of its iterable), no input is chosen and no solver is involved.

Terms are plain tuples:
  ('const', v) ('param', n) ('global', qual) ('ext', dotted) ('builtin', n) ('unbound', n)
  ('attr', base, name) ('sub', base, index) ('slice', lo, hi, step)
  ('call', f, (args...), ((kw, t)...))      kwargs sorted by name; '**' entries kept under kw '**'
  ('bin', op, l, r) ('neg', x)
  ('cmp', op, l, r)   op in lt le eq ne in notin is isnot   (gt/ge are flipped)
  ('not', x) ('and', (..)) ('or', (..)) ('ite', c, a, b)
  ('tuple', (..)) ('list', (..)) ('set', (..)) ('dict', ((k, v)..))   ('star', x) / ('dstar', x)
  ('comp', kind, elt, ((loopid, iter, (conds..))..))   kind in list set gen dict(elt=('kv',k,v))
  ('elem', loopid)                loop / comprehension variable: an element of the iterable
  ('phi', name, loopid)           value of a loop-carried local at the head of an iteration
  ('loopout', name, loopid)       value of a local after a loop that assigns it
  ('exc', handlerid)              caught exception object
  ('fstr', (parts..)) ('lambda', id) ('closure', name) ('yieldval', n) ('await', x) ('unknown', txt)
"""

from __future__ import annotations

import ast
import json
import os
from dataclasses import dataclass, field
from typing import Dict, List, Optional, Tuple

from .index import AnalysisError, ClassInfo, Index, Module, Sym, dotted_name, pick_def

TRUE = ("const", True)
FALSE = ("const", False)
NONE = ("const", None)

BUILTINS = {
    "len", "max", "min", "int", "float", "str", "bool", "list", "tuple", "set", "dict", "range",
    "enumerate", "zip", "sorted", "reversed", "sum", "any", "all", "isinstance", "hasattr", "getattr",
    "abs", "round", "next", "iter", "map", "filter", "hash", "id", "type", "super", "print", "callable",
    "ValueError", "KeyError", "TypeError", "NotImplementedError", "AssertionError", "FileNotFoundError",
    "Exception", "ImportError", "RuntimeError", "IndexError", "AttributeError", "frozenset", "repr",
    "object", "slice", "divmod", "pow", "setattr", "vars", "property", "classmethod", "staticmethod",
    "DeprecationWarning", "StopIteration", "bytes", "open", "issubclass", "ZeroDivisionError",
}

# Function and method names of the reference tree, per module (tools/gen_pinned_names.py).  Calls to in-package
# functions that are NOT listed are calls to helpers a later change introduced: their summaries are inlined at the
# call site, so that extracting a helper (or moving code between a function and a new helper) is invisible to rules.
with open(os.path.join(os.path.dirname(os.path.abspath(__file__)), "pinned_names.json")) as _f:
    PINNED = {k: frozenset(v) for k, v in json.load(_f).items()}

# Functions kept opaque (never inlined) while sa/alias.py unifies a renamed helper's call sites with the reference's.
OPAQUE: set = set()

# Leading parameter names of the external functions the rules reason about (read off the installed libraries'
# signatures and frozen here; trusted).  A call that names leading parameters by keyword is normalised to the
# positional spelling, so `box(minx=a, miny=b, ...)` and `box(a, b, ...)` are one term.
EXT_SIGNATURES = {
    "shapely.geometry.box": ("minx", "miny", "maxx", "maxy"),
    "shapely.box": ("xmin", "ymin", "xmax", "ymax"),
    "shapely.geometry.Polygon": ("shell", "holes"),
    "shapely.Polygon": ("shell", "holes"),
    "shapely.geometry.LineString": ("coordinates",),
    "shapely.LineString": ("coordinates",),
    "shapely.geometry.MultiPolygon": ("polygons",),
    "shapely.geometry.MultiPoint": ("points",),
    "shapely.geometry.MultiLineString": ("lines",),
    "shapely.buffer": ("geometry", "distance"),
    "numpy.zeros": ("shape", "dtype"),
    "numpy.ones": ("shape", "dtype"),
    "numpy.empty": ("shape", "dtype"),
    "numpy.full": ("shape", "fill_value", "dtype"),
    "shapely.clip_by_rect": ("geometry", "xmin", "ymin", "xmax", "ymax"),
    "shapely.transform": ("geometry", "transformation"),
    "shapely.linestrings": ("coords",),
    "shapely.points": ("coords",),
    "shapely.polygons": ("geometries", "holes"),
    "shapely.point_on_surface": ("geometry",),
    "xarray.Variable": ("dims", "data", "attrs"),
    "xarray.DataArray": ("data", "coords", "dims", "name", "attrs"),
    "uuid.uuid5": ("namespace", "name"),
    "scipy.signal.resample": ("x", "num", "t", "axis", "window", "domain"),
    "scipy.signal.stft": ("x", "fs", "window", "nperseg", "noverlap", "nfft", "detrend", "return_onesided", "boundary", "padded", "axis", "scaling"),
    "rasterio.features.rasterize": ("shapes", "out_shape", "fill", "out", "transform", "all_touched", "merge_alg", "default_value", "dtype", "skip_invalid"),
    "numpy.swapaxes": ("a", "axis1", "axis2"),
    "numpy.moveaxis": ("a", "source", "destination"),
}

# documented default values of options of third-party / builtin callables (trusted): a keyword that passes the default is the
# same call as one that omits it ("explicit is better than implicit" refactors)
EXT_DEFAULTS = {
    "scipy.sparse.csgraph.connected_components": {"directed": True, "connection": "weak", "return_labels": True},
    "scipy.optimize.linear_sum_assignment": {"maximize": False},
    "numpy.mean": {"axis": None, "dtype": None, "out": None, "keepdims": False},
    "numpy.nanmean": {"axis": None, "dtype": None, "out": None, "keepdims": False},
    "numpy.sum": {"axis": None, "dtype": None, "out": None, "keepdims": False},
    "numpy.max": {"axis": None, "out": None, "keepdims": False},
    "numpy.min": {"axis": None, "out": None, "keepdims": False},
    "numpy.concatenate": {"axis": 0, "out": None, "dtype": None},
    "numpy.stack": {"axis": 0, "out": None},
    "numpy.diff": {"n": 1, "axis": -1},
    "numpy.isclose": {"rtol": 1e-05, "atol": 1e-08, "equal_nan": False},
    "numpy.allclose": {"rtol": 1e-05, "atol": 1e-08, "equal_nan": False},
    "numpy.round": {"decimals": 0, "out": None},
    "numpy.around": {"decimals": 0, "out": None},
    "numpy.linspace": {"endpoint": True, "retstep": False, "dtype": None, "axis": 0},
    "numpy.array": {"dtype": None, "copy": True, "order": "K", "subok": False, "ndmin": 0},
    "numpy.asarray": {"dtype": None, "order": None},
    "numpy.zeros": {"order": "C"},
    "numpy.ones": {"order": "C"},
    "numpy.searchsorted": {"side": "left", "sorter": None},
    "numpy.argsort": {"axis": -1, "kind": None, "order": None},
    "numpy.sort": {"axis": -1, "kind": None, "order": None},
    "numpy.isnan": {"out": None},
    "numpy.floor": {"out": None},
    "numpy.eye": {"M": None, "k": 0, "order": "C"},
    "sklearn.metrics.accuracy_score": {"normalize": True, "sample_weight": None},
    "sklearn.metrics.balanced_accuracy_score": {"sample_weight": None, "adjusted": False},
    "sklearn.metrics.top_k_accuracy_score": {"k": 2, "normalize": True, "sample_weight": None, "labels": None},
    "sklearn.metrics.average_precision_score": {"average": "macro", "pos_label": 1, "sample_weight": None},
    "sklearn.metrics.jaccard_score": {"labels": None, "pos_label": 1, "average": "binary", "sample_weight": None, "zero_division": "warn"},
    "shapely.buffer": {"quad_segs": 8, "cap_style": "round", "join_style": "round", "mitre_limit": 5.0, "single_sided": False},
    "shapely.transform": {"include_z": False},
    "shapely.geometry.box": {"ccw": True},
    "shapely.box": {"ccw": True},
    "shapely.linestrings": {"y": None, "z": None, "indices": None, "out": None},
    "shapely.points": {"y": None, "z": None, "indices": None, "out": None},
    "shapely.geometry.Polygon": {"holes": None},
    "shapely.Polygon": {"holes": None},
    "shapely.to_geojson": {"indent": None},
    "rasterio.features.rasterize": {"out": None, "fill": 0, "all_touched": False, "merge_alg": None, "default_value": 1, "dtype": None},
    "scipy.sparse.coo_array": {"copy": False},
    "scipy.signal.resample": {"t": None, "axis": 0, "window": None, "domain": "time"},
    "os.walk": {"topdown": True, "onerror": None, "followlinks": False},
    "os.path.relpath": {},
    "json.loads": {"cls": None, "object_hook": None, "parse_float": None, "parse_int": None, "parse_constant": None, "object_pairs_hook": None},
    "uuid.uuid4": {},
    "itertools.product": {"repeat": 1},
    "builtin:sorted": {"key": None, "reverse": False},
    "builtin:enumerate": {"start": 0},
    "builtin:round": {"ndigits": None},
    "builtin:zip": {"strict": False},
    "builtin:int": {"base": 10},
    "builtin:print": {},
    "builtin:min": {"key": None},
    "builtin:max": {"key": None},
    "builtin:sum": {"start": 0},
    "builtin:open": {"mode": "r", "buffering": -1, "encoding": None, "errors": None, "newline": None, "closefd": True, "opener": None},
}
def _load_pkg_methods():
    """{method name: {positional parameter names after self / cls}} over the classes of the reference tree"""
    out = {}
    try:
        with open(os.path.join(os.path.dirname(os.path.abspath(__file__)), "pinned_decls.json")) as f_:
            fns = json.load(f_)["functions"]
    except (OSError, KeyError, ValueError):
        return out
    for k_, v_ in fns.items():
        q_ = k_.split(":")[1]
        if "." in q_ and not q_.split(".")[1].startswith("__") and v_["pos"] and v_["pos"][0] in ("self", "cls"):
            out.setdefault(q_.split(".")[1], set()).add(tuple(v_["pos"][1:]))
    return out


_PKG_METHODS = _load_pkg_methods()

# named constants of third-party / standard modules (trusted values)
EXT_CONSTANTS = {"soundfile.SEEK_SET": 0, "soundfile.SEEK_CUR": 1, "soundfile.SEEK_END": 2, "os.SEEK_SET": 0, "os.SEEK_CUR": 1, "os.SEEK_END": 2,
                 "io.SEEK_SET": 0, "io.SEEK_CUR": 1, "io.SEEK_END": 2, "os.pardir": "..", "os.curdir": ".", "os.sep": "/", "os.path.sep": "/",
                 "os.path.pardir": "..", "os.path.curdir": ".", "os.extsep": "."}
# leading positional parameters of methods the package calls (pandas / shapely / numpy), so that `m(label=v, side="right")` is `m(v, "right")`
METHOD_SIGNATURES = {
    "get_slice_bound": ("label", "side"),
    "intersection": ("other",),
    "union": ("other",),
    "get_axis_num": ("dim",),
    "astype": ("dtype",),
    "seek": ("frames", "whence"),
    "read": ("frames", "dtype", "always_2d"),
    "relative_to": ("other",),
    "encode": ("tag",),
    "decode": ("index",),
    "get": ("key", "default"),
    "split": ("sep", "maxsplit"),
    "remove": ("value",),
    "append": ("object",),
}
# the same for methods, by method name, restricted to options whose default no class in use here defines otherwise
METHOD_DEFAULTS = {
    "sort": {"key": None, "reverse": False},
    "split": {"sep": None, "maxsplit": -1},
    "rsplit": {"sep": None, "maxsplit": -1},
    "model_dump": {"mode": "python", "include": None, "exclude": None, "by_alias": False, "exclude_unset": False, "exclude_defaults": False,
                   "exclude_none": False, "round_trip": False, "warnings": True},
    "model_dump_json": {"indent": None, "include": None, "exclude": None, "by_alias": False, "exclude_unset": False, "exclude_defaults": False,
                        "exclude_none": False, "round_trip": False, "warnings": True},
    "model_validate": {"strict": None, "from_attributes": None, "context": None},
    "model_validate_json": {"strict": None, "context": None},
    "model_copy": {"update": None, "deep": False},
    "mean": {"axis": None, "dtype": None, "out": None, "keepdims": False},
    "sum": {"axis": None, "dtype": None, "out": None, "keepdims": False},
    "any": {"axis": None, "out": None, "keepdims": False},
    "all": {"axis": None, "out": None, "keepdims": False},
    "sel": {"method": None, "tolerance": None, "drop": False},
    "isel": {"drop": False},
    "resolve": {"strict": False},
    "mkdir": {"mode": 0o777, "parents": False, "exist_ok": False},
    "astype": {"copy": True},
    "tolist": {},
    "buffer": {"cap_style": "round", "join_style": "round", "mitre_limit": 5.0, "single_sided": False},
    "intersection": {"grid_size": None},
    "union": {"grid_size": None},
    "difference": {"grid_size": None},
    "symmetric_difference": {"grid_size": None},
    "reindex": {"method": None, "tolerance": None, "copy": True},
    "read_text": {"encoding": None, "errors": None},
    "write_text": {"encoding": None, "errors": None, "newline": None},
    "get": {"default": None},
    "pop": {},
    "read": {"frames": -1, "dtype": "float64", "always_2d": False, "fill_value": None, "out": None},
    "seek": {"whence": 0},
    "encode": {"encoding": "utf-8", "errors": "strict"},
    "decode": {"encoding": "utf-8", "errors": "strict"},
}

with open(os.path.join(os.path.dirname(os.path.abspath(__file__)), "pinned_assigns.json")) as _f:
    PINNED_ASSIGNS = {k: frozenset(v) for k, v in json.load(_f).items()}

# external functions documented to return a tuple of fixed length (trusted)
EXT_RETURNS_TUPLE = {"scipy.optimize.linear_sum_assignment": 2}

CMP_FLIP = {"gt": "lt", "ge": "le"}
CMP_NEG = {"lt": "ge", "le": "gt", "eq": "ne", "ne": "eq", "in": "notin", "notin": "in", "is": "isnot", "isnot": "is",
           "gt": "le", "ge": "lt"}
CMP_AST = {ast.Lt: "lt", ast.LtE: "le", ast.Gt: "gt", ast.GtE: "ge", ast.Eq: "eq", ast.NotEq: "ne",
           ast.In: "in", ast.NotIn: "notin", ast.Is: "is", ast.IsNot: "isnot"}
BIN_AST = {ast.Add: "+", ast.Sub: "-", ast.Mult: "*", ast.Div: "/", ast.FloorDiv: "//", ast.Mod: "%",
           ast.Pow: "**", ast.BitOr: "|", ast.BitAnd: "&", ast.BitXor: "^", ast.LShift: "<<", ast.RShift: ">>",
           ast.MatMult: "@"}


def mk_cmp(op, l, r):
    if op in CMP_FLIP:
        return ("cmp", CMP_FLIP[op], r, l)
    if op in ("is", "isnot") and l[0] == "const" and r[0] == "const" and (l[1] is None or r[1] is None):
        same = l[1] is None and r[1] is None
        return ("const", same if op == "is" else not same)
    if op in ("eq", "ne") and l[0] == "const" and r[0] == "const" and type(l[1]) is type(r[1]) and isinstance(l[1], (str, int)) \
            and not isinstance(l[1], bool):
        return ("const", (l[1] == r[1]) == (op == "eq"))  # "above" == "below": a constant key against a constant table key
    if op in ("eq", "ne") and l[0] == "tuple" and r[0] == "tuple" and len(l[1]) == len(r[1]) and all(x[0] == "const" for x in r[1]):
        # (a, b) == (True, False) against a constant key: component by component
        parts_ = [mk_cmp("eq", a_, b_) for a_, b_ in zip(l[1], r[1])]
        if all(p_[0] == "const" for p_ in parts_):
            same_ = all(p_[1] for p_ in parts_)
            return ("const", same_ if op == "eq" else not same_)
        if op == "eq" and all(b_[0] == "const" and isinstance(b_[1], bool) for b_ in r[1]):
            # a key of truth values: (p, q) == (True, False) is p and not q
            return AND(*[(a_ if b_[1] else NOT(a_)) for a_, b_ in zip(l[1], r[1])])
    if op in ("in", "notin") and l[0] == "const":
        # membership of a constant in a display of constants (a literal table of accepted values) is decided
        keys = None
        if r[0] in ("tuple", "list", "set") and all(x[0] == "const" for x in r[1]):
            keys = [x[1] for x in r[1]]
        elif r[0] == "dict" and all(k[0] == "const" for k, _ in r[1]):
            keys = [k[1] for k, _ in r[1]]
        if keys is not None:
            try:
                hit = l[1] in keys
                return ("const", hit if op == "in" else not hit)
            except TypeError:
                pass
    return ("cmp", op, l, r)


def NOT(t):
    if t == TRUE:
        return FALSE
    if t == FALSE:
        return TRUE
    if t[0] == "not":
        return t[1]
    if t[0] == "cmp":
        return mk_cmp(CMP_NEG[t[1]], t[2], t[3])
    if t[0] == "and":
        return OR(*[NOT(x) for x in t[1]])  # De Morgan: negations are pushed to the atoms
    if t[0] == "or":
        return AND(*[NOT(x) for x in t[1]])
    return ("not", t)


def ITE(c, a, b):
    """Conditional value in canonical form: the condition is never a negation (`not x`, `is not`, `!=`, `not in`,
    `<=`): those swap the branches, so that `a if c else b` and `b if not c else a` are the same term."""
    if c == TRUE:
        return a
    if c == FALSE:
        return b
    if a == b:
        return a
    if isinstance(a, tuple) and a and a[0] == "ite" and a[3] == b and b != NONE:
        # nested guards with a common alternative: `x if (c and d) else y` (optional chains `... else None` keep their steps)
        return ITE(AND(c, a[1]), a[2], b)
    if isinstance(a, tuple) and a and a[0] == "ite" and a[2] == b and b != NONE:
        return ITE(AND(c, NOT(a[1])), a[3], b)
    if c[0] == "not" or (c[0] == "cmp" and c[1] in ("isnot", "ne", "notin", "le")):
        return ITE(NOT(c), b, a)
    if c[0] == "cmp" and c[1] == "lt" and a != b and {a, b} == {c[2], c[3]} and not any(x[0] == "const" and not isinstance(x[1], (int, float)) for x in (a, b)):
        # `q if p < q else p` is max(p, q) and `p if p < q else q` is min(q, p) -- the very definition of the two builtins
        p_, q_ = c[2], c[3]
        return ("call", ("builtin", "max"), (p_, q_), ()) if a == q_ else ("call", ("builtin", "min"), (q_, p_), ())
    return ("ite", c, a, b)


def none_cond(t, never_none=None):
    """Condition under which the conditional value t is None, when every leaf is decidably None / not None; else None."""
    if t == NONE:
        return TRUE
    if never_none is not None and t[0] == "call" and never_none(t):
        return FALSE
    if t[0] == "ite":
        a, b = none_cond(t[2], never_none), none_cond(t[3], never_none)
        if a is None or b is None:
            return None
        return OR(AND(t[1], a), AND(NOT(t[1]), b))
    if t[0] in ("global", "lambda", "tuple", "list", "dict", "fstr") or (t[0] == "const" and t[1] is not None):
        return FALSE
    if t[0] in ("bin", "neg", "cmp", "not", "set", "comp", "slice"):
        return FALSE  # the result of arithmetic / a comparison / a display is never None
    if t[0] == "call" and t[1] in (("builtin", "len"), ("builtin", "int"), ("builtin", "float"), ("builtin", "str"), ("builtin", "bool"),
                                   ("builtin", "abs"), ("builtin", "sum"), ("builtin", "list"), ("builtin", "tuple"), ("builtin", "set"),
                                   ("builtin", "dict"), ("builtin", "sorted"), ("builtin", "range")):
        return FALSE
    return None


def prune(t, live):
    """Drop the branches of conditional values inside t that the path condition `live` rules out."""
    if not isinstance(t, tuple) or not t or live == TRUE:
        return t
    if not isinstance(t[0], str):
        return tuple(prune(c, live) for c in t)
    if t[0] == "ite":
        c = t[1]
        if any(x[0] == "ite" for x in walk(c)):
            # the condition is itself a conditional value (a switch read from a table row): decide it on this path first
            c = prune(c, live)
            if c[0] == "const" and isinstance(c[1], bool):
                return prune(t[2] if c[1] else t[3], live)
        la, lb = AND(live, c), AND(live, NOT(c))
        if la == FALSE:
            return prune(t[3], lb)
        if lb == FALSE:
            return prune(t[2], la)
        return ITE(c, prune(t[2], la), prune(t[3], lb))
    if t[0] in ("comp", "lambda", "const", "param", "global", "ext", "elem", "alloc"):
        return t
    return tuple(prune(c, live) if isinstance(c, tuple) else c for c in t)


def sub_const(t, i):
    """t[i] for a constant index, distributed over conditional values and folded on displays"""
    if t[0] == "ite":
        return ITE(t[1], sub_const(t[2], i), sub_const(t[3], i))
    if t[0] in ("tuple", "list") and -len(t[1]) <= i < len(t[1]) and not any(x[0] == "star" for x in t[1]):
        return t[1][i]
    return ("sub", t, ("const", i))


def AND(*ts):
    out = []
    for t in ts:
        if t == TRUE:
            continue
        if t == FALSE:
            return FALSE
        items = t[1] if t[0] == "and" else (t,)
        for x in items:
            if x not in out:
                out.append(x)
    for x in out:
        if NOT(x) in out:
            return FALSE
        if x[0] == "or" and all(NOT(d) in out for d in x[1]):
            return FALSE
    # absorption: (a or b) and a  ==  a ; unit resolution: (a or b) and not a  ==  b and not a
    out = [x for x in out if not (x[0] == "or" and any(d in out for d in x[1]))]
    changed = True
    while changed:
        changed = False
        for i, x in enumerate(out):
            if x[0] == "or":
                keep = [d for d in x[1] if NOT(d) not in out]
                if len(keep) < len(x[1]):
                    repl = OR(*keep)
                    out = out[:i] + [c for c in (conjuncts(repl) if repl != TRUE else ()) if c not in out] + out[i + 1:]
                    if repl == FALSE:
                        return FALSE
                    changed = True
                    break
    if not out:
        return TRUE
    if len(out) == 1:
        return out[0]
    return ("and", tuple(out))


def OR(*ts):
    out = []
    for t in ts:
        if t == FALSE:
            continue
        if t == TRUE:
            return TRUE
        items = t[1] if t[0] == "or" else (t,)
        for x in items:
            if x not in out:
                out.append(x)
    for x in out:
        if NOT(x) in out:
            return TRUE
    # absorption: a or (a and b) == a ; complement: a or (not a and b) == a or b
    if len(out) > 1 and any(x[0] == "and" for x in out):
        changed = True
        while changed:
            changed = False
            for i, x in enumerate(out):
                if x[0] != "and":
                    continue
                others = out[:i] + out[i + 1:]
                if any(d in x[1] for d in others):
                    out = others
                    changed = True
                    break
                keep = [c for c in x[1] if NOT(c) not in others]
                if len(keep) < len(x[1]):
                    repl = AND(*keep)
                    if repl == TRUE:
                        return TRUE
                    out = out[:i] + [d for d in (repl[1] if repl[0] == "or" else (repl,)) if d not in others] + out[i + 1:]
                    changed = True
                    break
        for x in out:
            if NOT(x) in out:
                return TRUE
    if not out:
        return FALSE
    if len(out) == 1:
        return out[0]
    return ("or", tuple(out))


def conjuncts(t) -> Tuple:
    if t == TRUE:
        return ()
    if t[0] == "and":
        return t[1]
    return (t,)


def join_live(a, b):
    """Disjunction of two path conditions with common-prefix factoring."""
    if a == FALSE:
        return b
    if b == FALSE:
        return a
    ca, cb = list(conjuncts(a)), list(conjuncts(b))
    common = [x for x in ca if x in cb]
    ra = [x for x in ca if x not in common]
    rb = [x for x in cb if x not in common]
    if not ra or not rb:
        return AND(*common)
    if len(ra) == 1 and len(rb) == 1 and NOT(ra[0]) == rb[0]:
        return AND(*common)
    return AND(*common, OR(AND(*ra), AND(*rb)))


@dataclass
class Event:
    kind: str  # call return raise yield store delete continue break
    live: tuple
    term: tuple
    node: ast.AST
    loops: Tuple[str, ...]
    idx: int
    handlers: Tuple[str, ...] = ()  # enclosing try bodies (ids) at this point
    in_handler: Tuple[str, ...] = ()

    @property
    def lineno(self):
        return getattr(self.node, "lineno", 0)


def _split_ite(e: "Event") -> List["Event"]:
    t = e.term
    if t[0] == "or" and len(t[1]) == 2:
        # `return a or b` is `if a: return a` / `return b`
        t = ("ite", t[1][0], t[1][0], t[1][1])
    if t[0] != "ite" or (t[1][0] == "completed"):
        return [e]
    out = []
    for lv, tm in ((AND(e.live, t[1]), t[2]), (AND(e.live, NOT(t[1])), t[3])):
        if lv == FALSE:
            continue
        ne = Event(e.kind, lv, tm, e.node, e.loops, e.idx, e.handlers, e.in_handler)
        for a in ("inlined_from",):
            if hasattr(e, a):
                setattr(ne, a, getattr(e, a))
        out += _split_ite(ne)
    return out


@dataclass
class LoopInfo:
    id: str
    kind: str  # for | comp | while
    iter: tuple
    node: ast.AST
    parent: Optional[str]
    target_text: str = ""
    conds: Tuple = ()
    assigned: Tuple[str, ...] = ()
    has_else: bool = False


@dataclass
class TryInfo:
    id: str
    node: ast.Try
    handlers: List[Tuple[str, Tuple[str, ...]]] = field(default_factory=list)  # (handler id, exception names)
    falls: Dict[str, tuple] = field(default_factory=dict)  # handler id -> condition under which the handler falls through


@dataclass
class Summary:
    qual: str
    module: Module
    node: ast.AST
    params: List[str]
    defaults: Dict[str, tuple]
    annotations: Dict[str, ast.expr]
    events: List[Event]
    loops: Dict[str, LoopInfo]
    tries: Dict[str, TryInfo]
    env: Dict[str, tuple]
    fall_live: tuple  # condition under which control falls off the end (implicit return None)
    lambdas: Dict[str, "Summary"]
    nested: Dict[str, ast.AST]
    is_generator: bool = False
    kwarg: Optional[str] = None
    vararg: Optional[str] = None
    alloc_comps: Dict[tuple, tuple] = field(default_factory=dict)  # accumulator identity -> the comprehension it was read as
    inlined: List[str] = field(default_factory=list)  # helpers whose bodies were spliced into this summary (transitively)
    rec_types: Dict[tuple, object] = field(default_factory=dict)  # terms known to be NamedTuple records (class info)
    unpacked: Dict[tuple, int] = field(default_factory=dict)  # value term -> number of names it is unpacked into (an arity check)

    def of(self, kind) -> List[Event]:
        return [e for e in self.events if e.kind == kind]

    @property
    def returns(self):
        """Return events, one per returned alternative: `return a if c else b` (and the single-exit style
        `if c: r = a / else: r = b / return r`) counts as two returns under the conditions c and not c."""
        out = []
        for e in self.of("return"):
            out += _split_ite(e)
        # the same value returned outside any loop / handler on two paths is one return under the disjunction of the paths
        # (`if not xs: return r` in front of a loop over xs that ends in `return r`)
        merged = []
        for e in out:
            prev = next((m for m in merged if m.term == e.term and not m.loops and not e.loops and not m.in_handler and not e.in_handler
                         and m.handlers == e.handlers), None)
            if prev is not None and prev.term[0] != "ite":
                lv = OR(prev.live, e.live)
                if lv == TRUE or len(conjuncts(lv)) <= 1 and lv[0] != "or":
                    i = merged.index(prev)
                    merged[i] = Event("return", lv, e.term, e.node, e.loops, e.idx, e.handlers, e.in_handler)
                    continue
            merged.append(e)
        return merged

    @property
    def raw_returns(self):
        return self.of("return")

    @property
    def raises(self):
        return self.of("raise")

    @property
    def yields(self):
        return self.of("yield")

    @property
    def calls(self):
        return self.of("call")

    def calls_to(self, pred) -> List[Event]:
        return [e for e in self.calls if pred(e.term[1])]


class Evaluator:
    def __init__(self, index: Index, module: Module, node, qual: str, cls: Optional[ClassInfo] = None,
                 outer_env: Optional[Dict[str, tuple]] = None):
        self.index = index
        self.module = module
        self.node = node
        self.qual = qual
        self.cls = cls
        self.events: List[Event] = []
        self.loops: Dict[str, LoopInfo] = {}
        self.tries: Dict[str, TryInfo] = {}
        self.loop_stack: List[str] = []
        self.try_stack: List[str] = []
        self.handler_stack: List[str] = []
        self.env: Dict[str, tuple] = dict(outer_env or {})
        self.lambdas: Dict[str, Summary] = {}
        self.nested: Dict[str, ast.AST] = {}
        self.is_generator = False
        self._n = 0
        self.inline_stack: Tuple[str, ...] = ()
        self._post: List[tuple] = []  # conditions that hold once the current statement completed normally (inlined raises)
        self.inlined: List[str] = []
        self.alloc_loops: Dict[str, Tuple[str, ...]] = {}
        self.list_defs: Dict[str, tuple] = {}  # local bound to a list display: (loop stack, live) at the binding
        self.dict_defs: Dict[str, tuple] = {}
        self.alloc_comps: Dict[tuple, tuple] = {}
        self.param_classes: Dict[str, ClassInfo] = {}
        self.unpacked: Dict[tuple, int] = {}
        if not index.__dict__.get("_make_arity_done"):
            index.__dict__["_make_arity_done"] = True
            for ci_ in index.all_classes():
                if not ci_.bases and any(str(b).split(".")[-1] == "NamedTuple" for b in ci_.ext_bases):
                    _MAKE_ARITY[ci_.qual] = len([st for st in ci_.node.body if isinstance(st, ast.AnnAssign)])
        self.rec_types: Dict[tuple, ClassInfo] = {}  # opaque values (loop elements, parameters) known to be NamedTuple records

    # ------------------------------------------------------------------ plumbing
    def fresh(self, prefix):
        self._n += 1
        return f"{prefix}{self._n}"

    def _records_to_tuples(self, t):
        """NamedTuple constructor calls inside an event term as the tuples they are (events carry no record classes)"""
        if not isinstance(t, tuple) or not t:
            return t
        t = tuple(self._records_to_tuples(c) if isinstance(c, tuple) else c for c in t)
        if isinstance(t[0], str) and t[0] == "call" and t[1][0] == "global" and t[1][2] == "class":
            ci = self.index.class_by_qual(t[1][1])
            if ci is not None and not ci.bases and any(b.split(".")[-1] == "NamedTuple" for b in ci.ext_bases):
                rv = self._record_values(ci, t)
                if rv is not None:
                    tt = ("tuple", tuple(rv.values()))
                    self.rec_types.setdefault(tt, ci)  # the tuple keeps its record type for attribute access
                    return tt
        return t

    def _record_class_of_annotation(self, ann, module, element=False):
        """the NamedTuple class an annotation names (element=True: the element class of Iterable[X] / List[X] / ...)"""
        if ann is None:
            return None
        if isinstance(ann, ast.Constant) and isinstance(ann.value, str):
            try:
                ann = ast.parse(ann.value, mode="eval").body
            except SyntaxError:
                return None
        if element:
            if not isinstance(ann, ast.Subscript):
                return None
            head = ast.unparse(ann.value).split(".")[-1]
            if head not in ("Iterable", "Iterator", "List", "list", "Sequence", "Generator", "Tuple", "tuple", "Collection"):
                return None
            sl = ann.slice
            ann = sl.elts[0] if isinstance(sl, ast.Tuple) and sl.elts else sl
        sy = self.index.resolve_expr(module, ann) if isinstance(ann, (ast.Name, ast.Attribute)) else None
        if sy is not None and sy.kind == "class" and sy.cls is not None and not sy.cls.bases \
                and any(b.split(".")[-1] == "NamedTuple" for b in sy.cls.ext_bases):
            return sy.cls
        return None

    def emit(self, kind, live, term, node):
        term = self._records_to_tuples(term)
        if live not in (TRUE, FALSE) and any(x[0] == "ite" for x in walk(term)):
            pruned = prune(term, live)
            if pruned != term:
                term = fold_sub(pruned)  # a branch went away: a field read of the remaining record / display is that field
        if self._post and live != FALSE:
            # an inlined helper raised under some condition earlier in this statement: what follows runs otherwise
            live = AND(live, *self._post)
        ev = Event(kind, live, term, node, tuple(self.loop_stack), len(self.events), tuple(self.try_stack),
                   tuple(self.handler_stack))
        self.events.append(ev)
        return ev

    def run(self) -> Summary:
        fn = self.node
        params, defaults, annotations = [], {}, {}
        kwarg = vararg = None
        if isinstance(fn, (ast.FunctionDef, ast.AsyncFunctionDef, ast.Lambda)):
            a = fn.args
            allp = list(a.posonlyargs) + list(a.args)
            for p in allp:
                params.append(p.arg)
                self.env[p.arg] = ("param", p.arg)
                if p.annotation is not None:
                    annotations[p.arg] = p.annotation
            nd = len(a.defaults)
            for p, d in zip(allp[len(allp) - nd:], a.defaults):
                defaults[p.arg] = self.ev_quiet(d)
            for p, d in zip(a.kwonlyargs, a.kw_defaults):
                params.append(p.arg)
                self.env[p.arg] = ("param", p.arg)
                if p.annotation is not None:
                    annotations[p.arg] = p.annotation
                if d is not None:
                    defaults[p.arg] = self.ev_quiet(d)
            if a.vararg:
                vararg = a.vararg.arg
                self.env[vararg] = ("param", "*" + vararg)
            if a.kwarg:
                kwarg = a.kwarg.arg
                self.env[kwarg] = ("param", "**" + kwarg)
        self._mapping_params = {pn for pn, an in annotations.items()
                                if ast.unparse(an).split("[")[0].split(".")[-1] in ("Dict", "dict", "Mapping", "MutableMapping", "OrderedDict", "DefaultDict")}
        for pname, ann in annotations.items():
            ci_ = self._record_class_of_annotation(ann, self.module)
            if ci_ is not None:
                self.rec_types[("param", pname)] = ci_
            # the in-package class a parameter is declared as (methods added to it later are seen through)
            if isinstance(ann, (ast.Name, ast.Attribute)):
                try:
                    sy_ = self.index.resolve_expr(self.module, ann)
                except AnalysisError:
                    sy_ = None
                if sy_ is not None and sy_.kind == "class" and ":" in sy_.qual:
                    pc_ = self.index.class_by_qual(sy_.qual)
                    if pc_ is not None:
                        self.param_classes[pname] = pc_
        if isinstance(fn, ast.Lambda):
            t = self.ev(fn.body, TRUE)
            self.emit("return", TRUE, t, fn.body)
            fall = FALSE
        else:
            body_ = self._split_filled_displays(fn.body)
            # names grown in place at more than one site: their first fill is a phase, not the whole value
            self.multi_mutated = {}
            for st_ in body_:
                for x_ in ast.walk(st_):
                    if isinstance(x_, ast.Call) and isinstance(x_.func, ast.Attribute) and x_.func.attr in ("append", "extend", "insert") \
                            and isinstance(x_.func.value, ast.Name):
                        self.multi_mutated[x_.func.value.id] = self.multi_mutated.get(x_.func.value.id, 0) + 1
            fall = self.block(body_, TRUE)
            self._normalise_search_loops()
            self._normalise_accumulators()
        return Summary(self.qual, self.module, fn, params, defaults, annotations, self.events, self.loops,
                       self.tries, self.env, fall, self.lambdas, self.nested, self.is_generator, kwarg, vararg,
                       self.alloc_comps, list(dict.fromkeys(self.inlined)), dict(self.rec_types), dict(self.unpacked))

    @staticmethod
    def _split_filled_displays(body):
        """`xs = [<comprehension or display>]` followed somewhere by `xs.extend(...)` / `xs.append(...)` is the accumulator
        `xs = []; xs.extend([<comprehension or display>])`: the first fill is a phase like the later ones (a list that is
        bound to a comprehension and then grown in place must not be read as the comprehension alone)."""
        MUT = {"append", "extend", "insert"}
        # `xs += ys` on a name bound to a list (display, comprehension, []) at the top level of the function is `xs.extend(ys)`
        lists_ = set()
        for st in body:
            tgt_ = st.targets[0] if isinstance(st, ast.Assign) and len(st.targets) == 1 else (st.target if isinstance(st, ast.AnnAssign) else None)
            val_ = getattr(st, "value", None)
            if isinstance(tgt_, ast.Name) and (isinstance(val_, ast.ListComp) or (isinstance(val_, ast.List) and val_.elts)):
                lists_.add(tgt_.id)  # (an empty `[]` grown by `+=` in a loop is read as a comprehension elsewhere)
        rebound = {}
        for st in body:
            for x in ast.walk(st):
                if isinstance(x, (ast.Assign, ast.AnnAssign)):
                    for t_ in (x.targets if isinstance(x, ast.Assign) else [x.target]):
                        for nn in ast.walk(t_):
                            if isinstance(nn, ast.Name):
                                rebound[nn.id] = rebound.get(nn.id, 0) + 1
        aug = [x for st in body for x in ast.walk(st) if isinstance(x, ast.AugAssign) and isinstance(x.op, ast.Add) and isinstance(x.target, ast.Name)
               and x.target.id in lists_ and rebound.get(x.target.id, 0) == 1]
        if aug:
            import copy as _copy

            class _Aug(ast.NodeTransformer):
                def visit_AugAssign(self, node):
                    if isinstance(node.op, ast.Add) and isinstance(node.target, ast.Name) and node.target.id in lists_ and rebound.get(node.target.id, 0) == 1:
                        new_ = ast.Expr(value=ast.Call(func=ast.Attribute(value=ast.Name(id=node.target.id, ctx=ast.Load()), attr="extend", ctx=ast.Load()),
                                                       args=[node.value], keywords=[]))
                        return ast.fix_missing_locations(ast.copy_location(new_, node))
                    return node
            body = [_Aug().visit(_copy.deepcopy(st)) for st in body]
        grown = set()
        for st in body:
            for x in ast.walk(st):
                if isinstance(x, ast.Call) and isinstance(x.func, ast.Attribute) and x.func.attr in MUT and isinstance(x.func.value, ast.Name):
                    grown.add(x.func.value.id)
        if not grown:
            return body
        out = []
        for st in body:
            tgt = None
            if isinstance(st, ast.Assign) and len(st.targets) == 1 and isinstance(st.targets[0], ast.Name):
                tgt = st.targets[0].id
            elif isinstance(st, ast.AnnAssign) and isinstance(st.target, ast.Name) and st.value is not None:
                tgt = st.target.id
            val = getattr(st, "value", None)
            if tgt in grown and (isinstance(val, ast.ListComp) or (isinstance(val, ast.List) and val.elts)):
                empty = ast.Assign(targets=[ast.Name(id=tgt, ctx=ast.Store())], value=ast.List(elts=[], ctx=ast.Load()))
                fill = ast.Expr(value=ast.Call(func=ast.Attribute(value=ast.Name(id=tgt, ctx=ast.Load()), attr="extend", ctx=ast.Load()), args=[val], keywords=[]))
                for n_ in (empty, fill):
                    ast.copy_location(n_, st)
                    ast.fix_missing_locations(n_)
                out += [empty, fill]
            else:
                out.append(st)
        return out

    def _normalise_accumulators(self):
        """`out = []` filled by exactly one `out.append(v)` in a for loop and not otherwise touched until the loop
        has finished is the list comprehension `[v for ... if ...]`; likewise a dict filled by one `d[k] = v`.
        Later uses of the accumulator see the comprehension term (the append / store events themselves stay)."""
        for key, outer in self.alloc_loops.items():
            als = [("alloc", k, key) for k in ("list", "dict", "set")]
            uses = [e for e in self.events if any(x in als for x in walk(e.term)) or any(x in als for x in walk(e.live))]
            if not uses:
                continue
            # `return out` in front of the first fill (an early exit with the still empty accumulator) returns an empty container
            MUT0 = ("append", "extend", "insert", "add", "update", "setdefault")
            first_fill = next((e.idx for e in uses if (e.kind == "call" and e.term[1][0] == "attr" and e.term[1][1] in als and e.term[1][2] in MUT0)
                               or (e.kind == "store" and e.term[1][0] == "sub" and e.term[1][1] in als)), None)
            if first_fill is not None:
                for e in list(uses):
                    if e.idx < first_fill and e.kind == "return" and e.term in als and not e.loops:
                        e.term = {"list": ("list", ()), "dict": ("dict", ()), "set": ("call", ("builtin", "set"), (), ())}[e.term[1]]
                        uses.remove(e)
            if not uses:
                continue
            m = uses[0]
            al = next((x for x in als if any(y == x for y in walk(m.term))), None)
            if al is None:
                continue  # first use is a test on the (still empty) accumulator, not a fill
            # `if c: out.append(a) / else: out.append(b)` in one loop is one append of `a if c else b`
            if len(uses) >= 2 and al[1] == "list":
                m2 = uses[1]
                app = ("attr", al, "append")
                if m.kind == m2.kind == "call" and m.term[1] == m2.term[1] == app and len(m.term[2]) == len(m2.term[2]) == 1 and not m.term[3] \
                        and not m2.term[3] and m.loops == m2.loops and m.loops and m.handlers == m2.handlers and m.in_handler == m2.in_handler:
                    c1, c2 = list(conjuncts(m.live)), list(conjuncts(m2.live))
                    if len(c1) == len(c2) and c1[:-1] == c2[:-1] and c1 and NOT(c1[-1]) == c2[-1] and c1[-1][0] != "inloop" \
                            and not any(x == al for x in walk(c1[-1])):
                        m.term = ("call", app, (ITE(c1[-1], m.term[2][0], m2.term[2][0]),), ())
                        m.live = AND(*c1[:-1]) if c1[:-1] else TRUE
                        self.events.remove(m2)
                        uses = [e for e in uses if e is not m2]
            if al[1] == "list" and self._normalise_multi_fill(al, outer, uses):
                continue
            elt = None
            if m.kind == "call" and m.term[1] in (("attr", al, "append"), ("attr", al, "add")) and len(m.term[2]) == 1 \
                    and not m.term[3] and al[1] in ("list", "set"):
                elt = m.term[2][0]
                kind = al[1]
            elif m.kind == "store" and m.term[1][0] == "sub" and m.term[1][1] == al and al[1] == "dict":
                elt = ("kv", m.term[1][2], m.term[2])
                kind = "dict"
            if elt is None or m.loops[:len(outer)] != outer or len(m.loops) <= len(outer):
                continue
            gens_ids = m.loops[len(outer):]
            if any(self.loops[l].kind != "for" for l in gens_ids):
                continue
            if any(x == al or x[0] in ("phi", "yieldval") for x in walk(elt)):
                continue
            if any(e.kind == "break" and gens_ids[0] in e.loops for e in self.events):
                continue
            rest = uses[1:]
            if any(gens_ids[0] in e.loops or e.idx < m.idx for e in rest):
                continue
            MUT = ("append", "extend", "insert", "add", "update", "pop", "remove", "clear", "sort", "reverse", "setdefault",
                   "popitem", "discard", "__setitem__", "__delitem__")
            if any((e.kind == "call" and e.term[1][0] == "attr" and e.term[1][1] == al and e.term[1][2] in MUT)
                   or (e.kind in ("store", "delete") and any(x[0] == "sub" and x[1] == al for x in walk(e.term[1] if e.kind == "store" else e.term)))
                   for e in rest):
                continue  # mutated again later: not a comprehension
            # split the path condition of the mutation into per-loop filters
            conds: Dict[str, list] = {l: [] for l in gens_ids}
            cur = None
            bad = False
            for cj in conjuncts(m.live):
                if cj[0] == "inloop" and cj[1] in gens_ids:
                    cur = cj[1]
                elif cur is not None:
                    if any(x == al or x[0] == "phi" for x in walk(cj)):
                        bad = True
                    conds[cur].append(cj)
            if bad or cur != gens_ids[-1]:
                continue
            if any(any(x[0] == "phi" for x in walk(self.loops[l].iter)) for l in gens_ids):
                continue
            if any(any(x == al for x in walk(self.loops[l].iter)) for l in gens_ids):
                continue
            comp = ("comp", kind, elt, tuple((l, self.loops[l].iter, tuple(conds[l])) for l in gens_ids))
            mp = {al: comp}
            for li in self.loops.values():
                if li.id not in gens_ids:
                    li.iter = subst(li.iter, mp)
                    li.conds = tuple(subst(c, mp) for c in li.conds)
            for e in rest:
                e.term = subst(e.term, mp)
                e.live = subst(e.live, mp)
            for k, v in list(self.env.items()):
                self.env[k] = subst(v, mp)
            self.normalised = getattr(self, "normalised", []) + [key]
            self.alloc_comps[al] = comp

    def _normalise_multi_fill(self, al, outer, uses) -> bool:
        """A list filled in several consecutive phases -- a loop that appends, `xs.extend(<comprehension>)`, `xs.append(v)` --
        and only read afterwards is the concatenation of the phases' lists:  [..loop..] + [..comprehension..] + [v]."""
        MUT = ("append", "extend", "insert", "add", "update", "pop", "remove", "clear", "sort", "reverse", "setdefault",
               "popitem", "discard", "__setitem__", "__delitem__")

        def is_mut(e):
            return (e.kind == "call" and e.term[1][0] == "attr" and e.term[1][1] == al and e.term[1][2] in MUT) \
                or (e.kind in ("store", "delete") and any(x[0] == "sub" and x[1] == al for x in walk(e.term[1] if e.kind == "store" else e.term)))

        muts = [e for e in uses if is_mut(e)]
        if len(muts) < 2:
            return False
        reads = [e for e in uses if not is_mut(e)]
        last = max(e.idx for e in muts)
        if any(e.idx < last for e in reads):
            return False  # read while it is being filled
        base = None
        pieces = []
        phase_loops = set()
        for m in muts:
            if m.kind != "call" or m.term[1][2] not in ("append", "extend") or len(m.term[2]) != 1 or m.term[3]:
                return False
            arg = m.term[2][0]
            if any(x == al or x[0] in ("phi", "yieldval") for x in walk(arg)):
                return False
            cj = list(conjuncts(m.live))
            if m.loops[:len(outer)] != outer:
                return False
            gens_ids = m.loops[len(outer):]
            first_in = next((i for i, c in enumerate(cj) if c[0] == "inloop" and c[1] in gens_ids), len(cj))
            b = tuple(cj[:first_in])
            if base is None:
                base = b
            elif b != base:
                return False  # a phase that runs only on some paths
            if not gens_ids:
                if len(cj) != first_in:
                    return False
                if m.term[1][2] == "append":
                    pieces.append(("list", (arg,)))
                elif arg[0] == "comp" and arg[1] in ("gen", "list"):
                    pieces.append(("comp", "list", arg[2], arg[3]))
                elif arg[0] in ("list", "tuple") and not any(x[0] == "star" for x in arg[1]):
                    pieces.append(("list", arg[1]))
                else:
                    pieces.append(("call", ("builtin", "list"), (arg,), ()))
                continue
            if m.term[1][2] != "append" or any(self.loops[l].kind != "for" for l in gens_ids) or gens_ids[0] in phase_loops:
                return False
            phase_loops.add(gens_ids[0])
            if any(e.kind == "break" and gens_ids[0] in e.loops for e in self.events):
                return False
            if any(e is not m and gens_ids[0] in e.loops for e in uses):
                return False
            conds: Dict[str, list] = {l: [] for l in gens_ids}
            cur = None
            for c in cj[first_in:]:
                if c[0] == "inloop" and c[1] in gens_ids:
                    cur = c[1]
                elif cur is not None:
                    if any(x == al or x[0] == "phi" for x in walk(c)):
                        return False
                    conds[cur].append(c)
            if cur != gens_ids[-1]:
                return False
            if any(any(x[0] == "phi" or x == al for x in walk(self.loops[l].iter)) for l in gens_ids):
                return False
            pieces.append(("comp", "list", arg, tuple((l, self.loops[l].iter, tuple(conds[l])) for l in gens_ids)))
        whole = pieces[0]
        for pc in pieces[1:]:
            whole = ("bin", "+", whole, pc)
        mp = {al: whole}
        for li in self.loops.values():
            if li.id not in phase_loops:
                li.iter = subst(li.iter, mp)
                li.conds = tuple(subst(c, mp) for c in li.conds)
        for e in reads:
            e.term = subst(e.term, mp)
            e.live = subst(e.live, mp)
        for k, v in list(self.env.items()):
            self.env[k] = subst(v, mp)
        self.alloc_comps[al] = whole
        return True

    def ev_quiet(self, node):
        saved = self.events
        self.events = []
        try:
            return self.ev(node, TRUE)
        finally:
            self.events = saved

    # ------------------------------------------------------------------ statements
    def block(self, stmts, live):
        for st in stmts:
            if live == FALSE:
                break
            before = live
            live = self.stmt(st, live)
            if self._post and live != FALSE:
                live = AND(live, *self._post)
                # a display bound by this very statement (`d = {"k": helper(x)}` where the inlined helper may raise) is defined on
                # the path that continues: later `d[k] = v` / `xs.append(v)` on that path still fold into it
                tg = st.targets[0] if isinstance(st, ast.Assign) and len(st.targets) == 1 else (st.target if isinstance(st, ast.AnnAssign) else None)
                if isinstance(tg, ast.Name):
                    for defs_ in (getattr(self, "dict_defs", None), getattr(self, "list_defs", None)):
                        if defs_ and defs_.get(tg.id) == (tuple(self.loop_stack), before):
                            defs_[tg.id] = (tuple(self.loop_stack), live)
            self._post = []
        return live

    @staticmethod
    def _dict_set(items, key, val):
        """the items of a dict display after `d[key] = val` (a constant key keeps its first position, as in a dict)"""
        out, hit = [], False
        for k_, v_ in items:
            if k_ == key and not hit:
                out.append((k_, val))
                hit = True
            else:
                out.append((k_, v_))
        if not hit:
            out.append((key, val))
        return tuple(out)

    def stmt(self, st, live):
        if isinstance(st, ast.Expr) and isinstance(st.value, ast.Call) and isinstance(st.value.func, ast.Attribute) \
                and st.value.func.attr == "update" and isinstance(st.value.func.value, ast.Name) \
                and len(st.value.args) <= 1 and (st.value.args or st.value.keywords) and all(k.arg is not None for k in st.value.keywords):
            # `d = {..}` ... `d.update(other, k=v)` on the same path: d is the display {.., **other, "k": v}
            nm = st.value.func.value.id
            cur = self.env.get(nm)
            if cur is not None and cur[0] == "dict" and cur[1] and self.dict_defs.get(nm) == (tuple(self.loop_stack), live):
                items = cur[1]
                if st.value.args:
                    arg = self.ev(st.value.args[0], live)
                    items = items + ((("dstar",), arg),)
                for k in st.value.keywords:
                    v_ = self.ev(k.value, live)
                    if any(kk[0] == "dstar" for kk, _ in items):
                        items = items + ((("const", k.arg), v_),)
                    else:
                        items = self._dict_set(items, ("const", k.arg), v_)
                self.env[nm] = fold_sub(("dict", items))
                return live
        if isinstance(st, ast.Expr) and isinstance(st.value, ast.Call) and isinstance(st.value.func, ast.Attribute) \
                and st.value.func.attr == "setdefault" and isinstance(st.value.func.value, ast.Name) and len(st.value.args) == 2 \
                and not st.value.keywords and isinstance(st.value.args[0], ast.Constant) and isinstance(st.value.args[0].value, str):
            # `kwargs.setdefault("k", v)` on the function's own **kwargs: from here on kwargs is {"k": v, **kwargs} (the caller's wins)
            nm = st.value.func.value.id
            cur = self.env.get(nm)
            if cur is not None and cur[0] == "param" and cur[1].startswith("**"):
                v_ = self.ev(st.value.args[1], live)
                self.env[nm] = ("dict", ((("const", st.value.args[0].value), v_), (("dstar",), cur)))
                return live
        if isinstance(st, ast.Assign) and len(st.targets) == 1 and isinstance(st.targets[0], ast.Subscript) \
                and isinstance(st.targets[0].value, ast.Name):
            # `d = {..}` ... `d["k"] = v` on the same path: d is the display with that item set
            nm = st.targets[0].value.id
            cur = self.env.get(nm)
            dd_ = self.dict_defs.get(nm)

            def plain_displays(t_):
                if t_[0] == "ite":
                    return plain_displays(t_[2]) and plain_displays(t_[3])
                return t_[0] == "dict" and bool(t_[1]) and all(kk[0] == "const" for kk, _ in t_[1])
            # ... also in a branch of the path that bound the display (the join makes the item conditional), and on a display
            # that already became conditional at an earlier join
            if cur is not None and dd_ is not None and dd_[0] == tuple(self.loop_stack) and plain_displays(cur) \
                    and all(c in conjuncts(live) for c in conjuncts(dd_[1])):
                saved = len(self.events)
                key = self.ev(st.targets[0].slice, live)
                if key[0] == "const" and len(self.events) == saved:
                    val = self.ev(st.value, live)

                    def upd_(t_):
                        if t_[0] == "ite":
                            return ITE(t_[1], upd_(t_[2]), upd_(t_[3]))
                        return ("dict", self._dict_set(t_[1], key, val))
                    self.env[nm] = upd_(cur)
                    return live
                del self.events[saved:]
        if isinstance(st, ast.Expr) and isinstance(st.value, ast.Call) and isinstance(st.value.func, ast.Attribute) \
                and st.value.func.attr in ("append", "extend", "insert") and isinstance(st.value.func.value, ast.Name) \
                and len(st.value.args) == (2 if st.value.func.attr == "insert" else 1) and not st.value.keywords:
            # `xs = [a, b]` ... `xs.append(c)` on the same path (or in a branch of it: the join makes the value
            # conditional): xs is the display [a, b, c]
            nm = st.value.func.value.id
            cur = self.env.get(nm)
            ld = self.list_defs.get(nm)

            def fresh_alloc(t):
                # the still empty `xs = []` itself (on the path where nothing was appended yet)
                return t[0] == "alloc" and t[1] == "list" and t[2].split("@")[0] == nm and not any(t in walk(e_.term) for e_ in self.events)

            def leaves_are_lists(t):
                return t[0] == "list" or fresh_alloc(t) or (t[0] == "ite" and leaves_are_lists(t[2]) and leaves_are_lists(t[3]))

            # `xs = []` grown by straight-line appends (not in a loop) is the display of what was appended
            if cur is not None and leaves_are_lists(cur) and ld is not None and ld[0] == tuple(self.loop_stack) \
                    and all(c in conjuncts(live) for c in conjuncts(ld[1])):
                def upd(t, fn):
                    if t[0] == "alloc":
                        return ("list", fn(()))
                    return ITE(t[1], upd(t[2], fn), upd(t[3], fn)) if t[0] == "ite" else ("list", fn(t[1]))

                if st.value.func.attr == "append":
                    arg = self.ev(st.value.args[0], live)
                    self.env[nm] = upd(cur, lambda xs: xs + (arg,))
                    return live
                if st.value.func.attr == "insert":
                    pos = self.ev(st.value.args[0], live)
                    if pos == ("const", 0):
                        arg = self.ev(st.value.args[1], live)
                        self.env[nm] = upd(cur, lambda xs: (arg,) + xs)
                        return live
                else:
                    mark_ = len(self.events)
                    arg = self.ev(st.value.args[0], live)
                    if arg[0] in ("list", "tuple"):
                        self.env[nm] = upd(cur, lambda xs: xs + arg[1])
                        return live
                    if arg[0] == "comp" and arg[1] in ("gen", "list") and getattr(self, "multi_mutated", {}).get(nm, 0) < 2:
                        # xs = []; xs.extend(f(v) for v in vs)  is  xs = [f(v) for v in vs]
                        def upd2(t):
                            if t[0] == "ite":
                                return ITE(t[1], upd2(t[2]), upd2(t[3]))
                            items = () if t[0] == "alloc" else t[1]
                            if not items:
                                return ("comp", "list", arg[2], arg[3])
                            return ("list", items + (("star", arg),))
                        self.env[nm] = upd2(cur)
                        self.list_defs.pop(nm, None)
                        return live
                    del self.events[mark_:]
        if isinstance(st, ast.Expr):
            if isinstance(st.value, ast.Constant):
                return live
            self.ev(st.value, live)
            return live
        if isinstance(st, ast.Assign):
            val = self.ev(st.value, live)
            if len(st.targets) == 1 and isinstance(st.targets[0], ast.Name):
                val = self._alloc(st.value, val, st.targets[0].id, st)
                if val[0] == "list" or (val[0] == "alloc" and val[1] == "list"):
                    self.list_defs[st.targets[0].id] = (tuple(self.loop_stack), live)
                else:
                    self.list_defs.pop(st.targets[0].id, None)
                if val[0] == "dict" and val[1]:
                    self.dict_defs[st.targets[0].id] = (tuple(self.loop_stack), live)
                else:
                    self.dict_defs.pop(st.targets[0].id, None)
            for t in st.targets:
                self.assign(t, val, live, st)
            return live
        if isinstance(st, ast.AnnAssign):
            if st.value is not None:
                val = self.ev(st.value, live)
                if isinstance(st.target, ast.Name):
                    val = self._alloc(st.value, val, st.target.id, st)
                    nm_ = st.target.id
                    if val[0] == "list" or (val[0] == "alloc" and val[1] == "list"):
                        self.list_defs[nm_] = (tuple(self.loop_stack), live)
                    else:
                        self.list_defs.pop(nm_, None)
                    if val[0] == "dict" and val[1]:
                        self.dict_defs[nm_] = (tuple(self.loop_stack), live)
                    else:
                        self.dict_defs.pop(nm_, None)
                self.assign(st.target, val, live, st)
            return live
        if isinstance(st, ast.AugAssign):
            cur = self.ev(st.target, live)
            val = self.ev(st.value, live)
            if isinstance(st.op, ast.Add) and isinstance(st.target, ast.Name) and cur[0] == "alloc" and cur[1] == "list":
                # xs += [a] mutates the list in place: xs.append(a) / xs.extend(...)
                if val[0] == "list" and len(val[1]) == 1 and val[1][0][0] != "star":
                    self.emit("call", live, ("call", ("attr", cur, "append"), (val[1][0],), ()), st)
                else:
                    self.emit("call", live, ("call", ("attr", cur, "extend"), (val,), ()), st)
                return live
            if isinstance(st.op, ast.Add) and isinstance(st.target, ast.Name) and cur[0] == "list" and val[0] in ("list", "tuple") \
                    and self.list_defs.get(st.target.id) == (tuple(self.loop_stack), live):
                self.env[st.target.id] = ("list", cur[1] + val[1])
                return live
            op = BIN_AST.get(type(st.op), "?")
            self.assign(st.target, ("bin", op, cur, val), live, st)
            return live
        if isinstance(st, ast.Return):
            t = self.ev(st.value, live) if st.value is not None else NONE
            self.emit("return", live, t, st)
            return FALSE
        if isinstance(st, ast.Raise):
            t = self.ev(st.exc, live) if st.exc is not None else ("reraise",)
            cause = self.ev(st.cause, live) if st.cause is not None else None
            self.emit("raise", live, t if cause is None else ("raise_from", t, cause), st)
            return FALSE
        if isinstance(st, ast.If):
            return self.if_(st, live)
        if isinstance(st, ast.For):
            return self.for_(st, live)
        if isinstance(st, ast.While):
            counted = self._counted_while(st)
            if counted is not None:
                return self.for_(counted, live)
            return self.while_(st, live)
        if isinstance(st, ast.Try):
            return self.try_(st, live)
        if isinstance(st, ast.With):
            for item in st.items:
                ctx = self.ev(item.context_expr, live)
                if item.optional_vars is not None:
                    self.assign(item.optional_vars, ("enter", ctx), live, st)
            return self.block(st.body, live)
        if isinstance(st, (ast.FunctionDef, ast.AsyncFunctionDef)):
            # a local function is a named lambda: summarise it in the current environment
            self.nested[st.name] = st
            self.env[st.name] = ("closure", st.name)
            if isinstance(st, ast.FunctionDef) and not st.decorator_list:
                lid = self.fresh("F")
                try:
                    sub = Evaluator(self.index, self.module, st, f"{self.qual}.{st.name}", self.cls, self.env)
                    sub.inline_stack = self.inline_stack
                    sub._n = self._n  # ids stay unique across nested evaluators, so the local functions defined so far
                    sub.lambdas = dict(self.lambdas)  # can be applied inside this one
                    self.lambdas[lid] = sub.run()
                    self._n = sub._n
                    self.inlined += list(self.lambdas[lid].inlined)
                    self.env[st.name] = ("lambda", lid)
                except (AnalysisError, RecursionError):
                    pass
            return live
        if isinstance(st, ast.ClassDef):
            self.env[st.name] = ("closure", st.name)
            return live
        if isinstance(st, ast.Continue):
            self.emit("continue", live, NONE, st)
            return FALSE
        if isinstance(st, ast.Break):
            ev_ = self.emit("break", live, NONE, st)
            ev_.env_at = dict(self.env)  # type: ignore[attr-defined]  # what the loop's variables hold where it is left
            return FALSE
        if isinstance(st, ast.Pass):
            return live
        if isinstance(st, ast.Delete):
            for t in st.targets:
                self.emit("delete", live, self.ev(t, live) if not isinstance(t, ast.Name) else ("local", t.id), st)
            return live
        if isinstance(st, (ast.Import, ast.ImportFrom)):
            for a in st.names:
                nm = (a.asname or a.name).split(".")[0]
                if isinstance(st, ast.ImportFrom):
                    self.env[a.asname or a.name] = ("ext", f"{st.module}.{a.name}")
                else:
                    self.env[nm] = ("ext", a.name if a.asname else nm)
            return live
        if isinstance(st, ast.Assert):
            c = self.ev(st.test, live)
            self.emit("raise", AND(live, NOT(c)), ("call", ("builtin", "AssertionError"), (), ()), st)
            return AND(live, c)
        if isinstance(st, (ast.Global, ast.Nonlocal)):
            return live
        if isinstance(st, ast.Match):
            return self.match_(st, live)
        raise AnalysisError(f"unsupported statement {type(st).__name__}", site=f"{self.module.relpath}:{st.lineno}")

    def _alloc(self, node, val, name, st):
        """An empty list/dict/set bound to a local is a fresh mutable accumulator: give it an identity so that
        several accumulators in one function stay distinguishable (`a = []; b = []; a.append(x)`)."""
        kind = None
        if isinstance(node, ast.List) and not node.elts:
            kind = "list"
        elif isinstance(node, ast.Dict) and not node.keys:
            kind = "dict"
        elif isinstance(node, ast.Call) and not node.args and not node.keywords and isinstance(node.func, ast.Name) \
                and node.func.id in ("list", "dict", "set") and node.func.id not in self.env:
            kind = node.func.id
        if kind is None:
            return val
        self.alloc_loops[f"{name}@{st.lineno}"] = tuple(self.loop_stack)
        return ("alloc", kind, f"{name}@{st.lineno}")

    def assign(self, target, val, live, st):
        if isinstance(target, ast.Name):
            self.env[target.id] = val
        elif isinstance(target, (ast.Tuple, ast.List)):
            if not any(isinstance(e, ast.Starred) for e in target.elts) and val[0] not in ("tuple", "list"):
                self.unpacked.setdefault(val, len(target.elts))  # `a, b = v` fails unless v has exactly two items
            if val[0] in ("call", "ite") and self._is_record(val):
                parts = [self._record_get(val, index=i) for i in range(len(target.elts))]
                if all(p_ is not None for p_ in parts) and self._record_get(val, index=len(target.elts)) is None:
                    val = ("tuple", tuple(parts))
            if val[0] in ("tuple", "list") and len(val[1]) == len(target.elts) and not any(
                    isinstance(e, ast.Starred) for e in target.elts):
                for e, v in zip(target.elts, val[1]):
                    self.assign(e, v, live, st)
            else:
                for i, e in enumerate(target.elts):
                    if isinstance(e, ast.Starred):
                        self.assign(e.value, ("unknown", "starred-unpack"), live, st)
                    else:
                        self.assign(e, sub_const(prune(val, live), i) if val[0] == "ite" else ("sub", val, ("const", i)), live, st)
        elif isinstance(target, ast.Attribute):
            base = self.ev(target.value, live)
            self.emit("store", live, ("store", ("attr", base, target.attr), val), st)
        elif isinstance(target, ast.Subscript):
            base = self.ev(target.value, live)
            idx = self.ev(target.slice, live)
            self.emit("store", live, ("store", ("sub", base, idx), val), st)
        elif isinstance(target, ast.Starred):
            self.assign(target.value, ("unknown", "starred"), live, st)
        else:
            raise AnalysisError(f"unsupported assignment target {type(target).__name__}")

    def if_(self, st, live):
        c = self.ev(st.test, live)
        env0 = dict(self.env)
        l_then = self.block(st.body, AND(live, c))
        env_then = self.env
        self.env = dict(env0)
        l_else = self.block(st.orelse, AND(live, NOT(c)))
        env_else = self.env
        if l_then == FALSE and l_else == FALSE:
            self.env = env_else
            return FALSE
        if l_then == FALSE:
            self.env = env_else
            return l_else
        if l_else == FALSE:
            self.env = env_then
            return l_then
        merged = {}
        for k in set(env_then) | set(env_else):
            a = env_then.get(k, ("unbound", k))
            b = env_else.get(k, ("unbound", k))
            merged[k] = ITE(c, a, b)
        self.env = merged
        return join_live(l_then, l_else)

    def _pattern(self, pat, subj, live):
        """Condition under which `pat` matches `subj` (bindings are made in self.env); None = not expressible."""
        if isinstance(pat, ast.MatchValue):
            return mk_cmp("eq", subj, self.ev(pat.value, live))
        if isinstance(pat, ast.MatchSingleton):
            return mk_cmp("is", subj, ("const", pat.value))
        if isinstance(pat, ast.MatchOr):
            parts = [self._pattern(p, subj, live) for p in pat.patterns]
            return None if any(p is None for p in parts) else OR(*parts)
        if isinstance(pat, ast.MatchAs):
            if pat.pattern is None:
                if pat.name is not None:
                    self.env[pat.name] = subj
                return TRUE
            c = self._pattern(pat.pattern, subj, live)
            if c is not None and pat.name is not None:
                self.env[pat.name] = subj
            return c
        if isinstance(pat, ast.MatchClass) and not pat.patterns and not pat.kwd_patterns:
            return ("call", ("builtin", "isinstance"), (subj, self.ev(pat.cls, live)), ())
        return None

    def match_(self, st, live):
        """match subject: case <value | None | a | b | _ | name | Class()> [if guard]: ...  as an if/elif chain."""
        subj = self.ev(st.subject, live)
        env0 = dict(self.env)
        rest = live
        outs = []
        for case in st.cases:
            self.env = dict(env0)
            c = self._pattern(case.pattern, subj, rest)
            if c is None:
                raise AnalysisError("unsupported match pattern " + ast.unparse(case.pattern),
                                    site=f"{self.module.relpath}:{case.pattern.lineno}")
            if case.guard is not None:
                c = AND(c, self.ev(case.guard, AND(rest, c)))
            l_case = self.block(case.body, AND(rest, c))
            outs.append((c, l_case, self.env))
            rest = AND(rest, NOT(c))
            if rest == FALSE:
                break
        # fall-through (no case matched)
        outs.append((TRUE, rest, dict(env0)))
        alive = [(c, l, e) for c, l, e in outs if l != FALSE]
        if not alive:
            self.env = dict(env0)
            return FALSE
        merged = {}
        keys = set()
        for _, _, e in outs:
            keys |= set(e)
        # value of each local: conditional chain over the cases in order
        for k in keys:
            v = None
            for c, l, e in reversed(alive):
                val = e.get(k, ("unbound", k))
                v = val if v is None else ITE(c, val, v)
            merged[k] = v
        self.env = merged
        out = alive[0][1]
        for _, l, _ in alive[1:]:
            out = join_live(out, l)
        return out

    def _aug_only_lists(self, stmts, names) -> List[str]:
        """names bound to a list accumulator that the statements only touch by `name += ...` (an in-place extend)"""
        cand = [n for n in names if self.env.get(n, ("?",))[0] == "alloc" and self.env[n][1] == "list"]
        if not cand:
            return []
        bad = set()

        class V(ast.NodeVisitor):
            def visit_AugAssign(s, n):
                if isinstance(n.target, ast.Name) and isinstance(n.op, ast.Add):
                    s.visit(n.value)
                    return
                s.generic_visit(n)

            def visit_Name(s, n):
                if isinstance(n.ctx, (ast.Store, ast.Del)):
                    bad.add(n.id)

            def visit_FunctionDef(s, n):
                pass

            def visit_Lambda(s, n):
                pass

        for st in stmts:
            V().visit(st)
        return [n for n in cand if n not in bad]

    def _assigned_names(self, stmts) -> List[str]:
        out = []

        class V(ast.NodeVisitor):
            def visit_Name(s, n):
                if isinstance(n.ctx, (ast.Store, ast.Del)) and n.id not in out:
                    out.append(n.id)

            def visit_FunctionDef(s, n):
                pass

            def visit_Lambda(s, n):
                pass

            def visit_ListComp(s, n):
                pass

            visit_SetComp = visit_DictComp = visit_GeneratorExp = visit_ListComp

        for st in stmts:
            V().visit(st)
        return out

    def for_(self, st, live):
        r = self._for_over_helper_generator(st, live)
        if r is not None:
            return r
        it = self.ev(st.iter, live)
        if it[0] == "call" and it[1][0] == "attr" and it[1][2] in ("items", "keys", "values") and not it[2] and not it[3] and it[1][1][0] == "global" \
                and it[1][1][2] == "assign":
            # a loop over the rows of a module-level table with constant keys that nothing mutates: the display of its rows
            try:
                m_, node_ = self.index.need_assign(*it[1][1][1].split(":"))
            except (AnalysisError, ValueError):
                node_ = None
            ks_ = self._table_keys(it[1][1]) if isinstance(node_, ast.Dict) else None
            rows_ = self._table_rows(it[1][1], m_, node_, ks_) if ks_ is not None else None
            if rows_ is not None:
                it = ("tuple", tuple(("tuple", (k_, v_)) if it[1][2] == "items" else (k_ if it[1][2] == "keys" else v_) for k_, v_ in rows_))
        # a loop over a display of known elements is the sequence of its iterations (table-driven code)
        if it[0] in ("tuple", "list") and 0 < len(it[1]) <= 32 and not any(x[0] == "star" for x in it[1]) and not st.orelse \
                and not any(isinstance(n_, (ast.Break, ast.Continue)) for b_ in st.body for n_ in ast.walk(b_)):
            for item in it[1]:
                if live == FALSE:
                    break
                self.assign(st.target, item, live, st)
                live = self.block(st.body, live)
            return live
        # for x in takewhile(p, xs): ...  is  for x in xs: if not p(x): break; ...
        preds = []
        while it[0] == "call" and it[1] == ("ext", "itertools.takewhile") and len(it[2]) == 2 and not it[3]:
            preds.append(it[2][0])
            it = it[2][1]
        # for x in (f(v) for v in xs if c): ...  is  for v in xs: if not c: continue; x = f(v); ...  (also map / filter)
        value, conds, lid = None, (), None
        if it[0] == "comp" and it[1] in ("gen", "list") and len(it[3]) == 1 and it[3][0][0] in self.loops \
                and self.loops[it[3][0][0]].kind == "comp":
            lid, base, conds = it[3][0]
            value, it = it[2], base
        # ... and the generator's own source may again be cut short: for x in (f(v) for v in takewhile(q, ys)) -- q is tested on v
        preds_in = []
        while value is not None and it[0] == "call" and it[1] == ("ext", "itertools.takewhile") and len(it[2]) == 2 and not it[3]:
            preds_in.append(it[2][0])
            it = it[2][1]
        if lid is None:
            lid = self.fresh("L")
        assigned = self._assigned_names(st.body)
        keep = self._aug_only_lists(st.body, assigned)
        assigned = [n for n in assigned if n not in keep]
        self.loops[lid] = LoopInfo(lid, "for", it, st, self.loop_stack[-1] if self.loop_stack else None,
                                   ast.unparse(st.target), (), tuple(assigned), bool(st.orelse))
        env0 = dict(self.env)
        for n in assigned:
            if n in self.env:
                self.env[n] = ("phi", n, lid)
        if value is None:
            ci_ = self._element_record_class(it)
            if ci_ is not None:
                self.rec_types[("elem", lid)] = ci_
        self.loop_stack.append(lid)
        elem_v = value if value is not None else ("elem", lid)
        self.assign(st.target, elem_v, live, st)
        if value is None and it[0] == "call" and it[1] == ("builtin", "zip") and not it[3] and isinstance(st.target, ast.Tuple) \
                and len(st.target.elts) == len(it[2]) and not any(a[0] == "star" for a in it[2]):
            # for r, c, v in zip(R, C, M[R, C]): numpy's integer-array indexing is element-wise, so v is M[r, c]
            derived_ = []
            for k_, (tn_, a_) in enumerate(zip(st.target.elts, it[2])):
                if isinstance(tn_, ast.Name) and a_[0] == "sub" and a_[2][0] == "tuple" and len(a_[2][1]) >= 2 \
                        and all(c_ in it[2] and c_ != a_ and c_[0] not in ("const", "slice") for c_ in a_[2][1]):
                    self.env[tn_.id] = ("sub", a_[1], ("tuple", tuple(("sub", ("elem", lid), ("const", it[2].index(c_))) for c_ in a_[2][1])))
                    derived_.append(k_)
            if derived_ and derived_ == list(range(len(it[2]) - len(derived_), len(it[2]))) and len(it[2]) - len(derived_) >= 2:
                # the derived columns are trailing: the loop is the zip of the others (same element positions)
                it = ("call", it[1], it[2][:len(it[2]) - len(derived_)], ())
                self.loops[lid].iter = it
        # inside the loop its iterable is known to be non-empty: a guard `if xs:` / `if len(xs) > 0:` around (or an early exit
        # `if not xs: return` before) the loop adds nothing to the condition of what happens in the body
        ln_ = ("call", ("builtin", "len"), (it,), ())
        implied = {it, ("cmp", "gt", ln_, ("const", 0)), ("cmp", "ne", ln_, ("const", 0)), ("cmp", "ge", ln_, ("const", 1)),
                   ("cmp", "lt", ("const", 0), ln_), ("cmp", "le", ("const", 1), ln_), ln_,
                   NOT(("cmp", "eq", ln_, ("const", 0))), NOT(("cmp", "eq", it, ("list", ())))}
        if value is None and it[0] in ("param", "attr", "name", "sub", "loopout"):
            live_in = AND(*[c_ for c_ in conjuncts(live) if c_ not in implied])
        else:
            live_in = live
        inner = AND(live_in, ("inloop", lid))
        for p in reversed(preds_in):
            c = self._fold_records(fold_sub(self._apply_fn(p, [("elem", lid)])))
            self.emit("break", AND(inner, NOT(c)), NONE, st)
            inner = AND(inner, c)
        inner = AND(inner, *conds)
        for p in reversed(preds):
            c = self._fold_records(fold_sub(self._apply_fn(p, [elem_v])))
            self.emit("break", AND(inner, NOT(c)), NONE, st)
            inner = AND(inner, c)
        self.block(st.body, inner)
        self.loop_stack.pop()
        body_env = self.env
        pre_ = {n: env0.get(n) for n in assigned}
        self.env = env0
        for n in assigned:
            self.env[n] = ("loopout", n, lid)
        for n in _target_names(st.target):
            self.env[n] = ("loopout", n, lid)
        self.loops[lid].body_env = body_env  # type: ignore[attr-defined]
        self.loops[lid].pre_env = dict(pre_)  # type: ignore[attr-defined]
        if not st.orelse:
            # `v = d; for ...: if c: v = f(x); break` -- a variable that only changes on the way to the (single) `break` holds
            # that value if the loop was left by it, else what it held before the loop
            brk = [e for e in self.events if e.kind == "break" and e.loops and e.loops[-1] == lid]
            if len(brk) == 1 and hasattr(brk[0], "env_at"):
                for n in assigned:
                    if pre_.get(n) is not None and body_env.get(n) == ("phi", n, lid) and brk[0].env_at.get(n) not in (None, ("phi", n, lid)):
                        self.env[n] = ITE(("broke", lid), ("loopout", n, lid), pre_[n])
        if st.orelse:
            brk = [e for e in self.events if e.kind == "break" and e.loops and e.loops[-1] == lid]
            if not brk:
                return self.block(st.orelse, live)
            # the else clause runs iff the loop was not left by `break`
            B = ("broke", lid)
            env_b = dict(self.env)
            l_else = self.block(st.orelse, AND(live, NOT(B)))
            env_e = self.env
            merged = dict(env_e)
            for k in set(env_b) | set(env_e):
                vb, ve = env_b.get(k, ("unbound", k)), env_e.get(k, ("unbound", k))
                if vb != ve:
                    merged[k] = ITE(B, vb, ve) if l_else != FALSE else vb
            self.env = merged
            if l_else == FALSE:
                return AND(live, B)
            return live
        return live

    def _normalise_search_loops(self):
        """A search loop left by `break`

            for x in xs:
                v = f(x)
                if c(v): break
            else:
                v = d
            return g(v)

        is the loop that returns from inside: `for x in xs: v = f(x); if c(v): return g(v)` followed by `return g(d)`.
        Only when nothing but the return follows the loop (the else clause aside)."""
        for lid, li in list(self.loops.items()):
            B = ("broke", lid)
            rets = [e for e in self.events if e.kind == "return" and any(x == B for x in walk(e.term))]
            if len(rets) != 1 or B in set(walk(rets[0].live)):
                continue
            r = rets[0]
            brk = [e for e in self.events if e.kind == "break" and e.loops and e.loops[-1] == lid]
            if len(brk) != 1 or not hasattr(brk[0], "env_at"):
                continue
            b = brk[0]
            after = [e for e in self.events if e.idx > b.idx and lid not in e.loops and e is not r]
            if any(NOT(B) not in conjuncts(e.live) for e in after):
                continue  # something else runs after the loop on the `break` path
            mp = {}
            for x in walk(r.term):
                if x[0] == "loopout" and x[2] == lid:
                    v = b.env_at.get(x[1])
                    if v is None:
                        mp = None
                        break
                    mp[x] = v
            if mp is None:
                continue

            def choose(t, broke):
                if not isinstance(t, tuple) or not t:
                    return t
                if t[0] == "ite" and t[1] == B:
                    return choose(t[2] if broke else t[3], broke)
                return tuple(choose(c, broke) if isinstance(c, tuple) else c for c in t)

            t_break = subst(choose(r.term, True), mp)
            t_done = choose(r.term, False)
            if any(x == B or (x[0] == "loopout" and x[2] == lid) for x in walk(t_break)) or any(x == B for x in walk(t_done)):
                continue
            i = self.events.index(b)
            self.events[i] = Event("return", b.live, t_break, r.node, b.loops, b.idx, b.handlers, b.in_handler)
            j = self.events.index(r)
            self.events[j] = Event("return", r.live, t_done, r.node, r.loops, r.idx, r.handlers, r.in_handler)
            for e in after:
                e.live = AND(*[c for c in conjuncts(e.live) if c != NOT(B)])
            li.has_else = False

    def while_(self, st, live):
        lid = self.fresh("L")
        assigned = self._assigned_names(st.body)
        keep = self._aug_only_lists(st.body, assigned)
        assigned = [n for n in assigned if n not in keep]
        env0 = dict(self.env)
        for n in assigned:
            if n in self.env:
                self.env[n] = ("phi", n, lid)
        c = self.ev(st.test, live)
        self.loops[lid] = LoopInfo(lid, "while", c, st, self.loop_stack[-1] if self.loop_stack else None,
                                   "", (c,), tuple(assigned), bool(st.orelse))
        self.loop_stack.append(lid)
        self.block(st.body, AND(live, ("inloop", lid), c))
        self.loop_stack.pop()
        body_env = self.env
        self.env = env0
        for n in assigned:
            self.env[n] = ("loopout", n, lid)
        self.loops[lid].body_env = body_env  # type: ignore[attr-defined]
        if st.orelse:
            self.block(st.orelse, live)
        return live

    def try_(self, st, live):
        tid = self.fresh("T")
        info = TryInfo(tid, st)
        self.tries[tid] = info
        env0 = dict(self.env)
        self.try_stack.append(tid)
        l_body = self.block(st.body, live)
        self.try_stack.pop()
        if st.orelse:
            # the else clause runs iff the body completed without an exception
            l_body = self.block(st.orelse, AND(l_body, ("completed", tid)))
            if l_body != FALSE:
                l_body = AND(*[c for c in conjuncts(l_body) if c != ("completed", tid)])
        env_body = self.env
        lives = [l_body]
        envs = [env_body]
        for h in st.handlers:
            hid = self.fresh("H")
            names = _handler_names(h)
            info.handlers.append((hid, names))
            self.env = dict(env0)
            # locals assigned in the try body may or may not be bound in the handler
            for k, v in env_body.items():
                if env0.get(k) != v:
                    self.env[k] = ("ite", ("completed", tid), v, env0.get(k, ("unbound", k)))
            if h.name:
                self.env[h.name] = ("exc", hid)
            self.handler_stack.append(hid)
            lh = self.block(h.body, AND(live, ("caught", hid, names)))
            self.handler_stack.pop()
            info.falls[hid] = lh
            lives.append(lh)
            envs.append(self.env)
        alive = [(l, e) for l, e in zip(lives, envs) if l != FALSE]
        if not alive:
            self.env = env_body
            out = FALSE
        else:
            merged = {}
            keys = set()
            for _, e in alive:
                keys |= set(e)
            for k in keys:
                vals = [e.get(k, ("unbound", k)) for _, e in alive]
                if all(v == vals[0] for v in vals):
                    merged[k] = vals[0]
                else:
                    merged[k] = ("tryphi", tid, tuple(vals))
            self.env = merged
            out = alive[0][0]
            for l, _ in alive[1:]:
                out = join_live(out, l) if out != live else live
            if any(l == live for l, _ in alive):
                out = live
        if st.finalbody:
            out2 = self.block(st.finalbody, live)
            if out2 == FALSE:
                return FALSE
        return out

    # ------------------------------------------------------------------ expressions
    def ev(self, node, live) -> tuple:
        if node is None:
            return NONE
        m = getattr(self, "e_" + type(node).__name__, None)
        if m is None:
            return ("unknown", ast.unparse(node))
        return m(node, live)

    def e_Constant(self, n, live):
        return ("const", n.value)

    def e_Name(self, n, live):
        if n.id in self.env:
            return self.env[n.id]
        s = self.index.resolve(self.module, n.id)
        if s is not None:
            if s.kind == "func" and s.module is not None and s.module is not self.module and ":" in s.qual \
                    and n.id in PINNED.get(self.module.name, ()) and n.id != s.qual.split(":")[1]:
                # a reference function of this module that now lives elsewhere under another name and is imported back
                # under its old one (`from .x import f as _f`): still the reference function
                return ("global", f"{self.module.name}:{n.id}", "func")
            return self._new_constant(s) or sym_term(s)
        if n.id in BUILTINS or n.id in ("True", "False", "None"):
            return ("builtin", n.id)
        return ("unbound", n.id)

    def _new_constant(self, s):
        """A module-level name bound (once) to a display / constant / simple call that the reference tree does not have is
        a named constant introduced by a later change: its value, so that hoisting a literal into a constant is invisible."""
        if s.kind != "assign" or s.module is None or ":" not in s.qual:
            return None
        modname, name = s.qual.split(":")
        if name in PINNED_ASSIGNS.get(modname, ()) or len(s.module.defs.get(name, [])) != 1:
            return None
        if self.index.canonical_qual("assign", s.qual) != s.qual:
            return None  # a reference table / constant that moved to another module: the rules know it by name
        d = s.module.defs[name][0]
        node = d.value if isinstance(d, (ast.Assign, ast.AnnAssign)) else None
        if isinstance(node, ast.Dict) and node.keys and all(isinstance(k, ast.Constant) for k in node.keys) \
                and all(isinstance(v, ast.Constant) for v in node.values):
            mut = self._mutated_globals()
            if s.qual not in mut:
                return ("dict", tuple((("const", k.value), ("const", v.value)) for k, v in zip(node.keys, node.values)))
        if node is None or isinstance(node, (ast.Dict, ast.DictComp, ast.ListComp, ast.SetComp, ast.GeneratorExp, ast.Lambda)):
            return None  # tables are handled by _table_lookup; mutable containers keep their identity (rule G.1)
        if isinstance(node, (ast.List, ast.Set)) and not node.elts:
            return None
        if len(self.inline_stack) >= 4:
            return None
        try:
            sub = Evaluator(self.index, s.module, node, s.qual, None)
            sub.inline_stack = self.inline_stack + (s.qual,)
            v = sub.ev(node, TRUE)
        except (AnalysisError, RecursionError):
            return None
        if any(x[0] in ("unbound", "unknown") for x in walk(v)):
            return None
        if sub.lambdas:
            # the value mentions functions written in the module-level expression (`extent = lambda b: (b[0], b[2])`): they travel with it
            self._n += 1
            tag_ = f"g{self._n}"
            idmap_ = {lid_: tag_ + lid_ for lid_ in sub.lambdas}
            v = _rename_ids(v, idmap_, tag_)
            for lid_, ls_ in sub.lambdas.items():
                self.lambdas.setdefault(idmap_[lid_], ls_)
        return v

    def e_Attribute(self, n, live):
        base = self.ev(n.value, live)
        if base[0] == "global_module":
            s = self.index._descend(Sym("module", base[1], self.index.modules[base[1]]), [n.attr], 0)
            if s is not None:
                return sym_term(s)
            return ("attr", base, n.attr)
        if base[0] == "ext":
            if base[1] + "." + n.attr in EXT_CONSTANTS:
                return ("const", EXT_CONSTANTS[base[1] + "." + n.attr])
            return ("ext", base[1] + "." + n.attr)
        if base[0] in ("call", "ite") and self._is_record(base):
            v = self._record_get(base, attr=n.attr)
            if v is not None:
                return v
            bm = self._bound_method_value(base, n) if base[0] == "call" else None
            if bm is not None:
                return bm
        if base in self.rec_types:
            v = self._typed_get(base, self.rec_types[base], n.attr)
            if v is not None:
                return v
        if base[0] == "global" and base[2] == "class":
            s = self.index._descend(_sym_from_term(self.index, base), [n.attr], 0)
            if s is not None and s.kind in ("func",):
                # a classmethod's result depends on the class it is called on: keep the receiver
                if isinstance(s.node, ast.FunctionDef) and any(ast.unparse(d) == "classmethod" for d in s.node.decorator_list):
                    return ("attr", base, n.attr)
                return sym_term(s)
            # a constant kept as a class attribute of a plain helper class (not an Enum member, not a model field)
            ci_ = self.index.class_by_qual(base[1]) if ":" in base[1] else None
            if ci_ is not None and not ci_.bases and not ci_.ext_bases:
                d_ = [st_ for st_ in ci_.node.body if isinstance(st_, (ast.Assign, ast.AnnAssign))
                      and any(isinstance(t_, ast.Name) and t_.id == n.attr for t_ in (st_.targets if isinstance(st_, ast.Assign) else [st_.target]))]
                if len(d_) == 1 and isinstance(d_[0].value, ast.Constant) and not any(
                        isinstance(x_, (ast.Assign, ast.AugAssign)) and any(isinstance(t_, ast.Attribute) and t_.attr == n.attr for t_ in (x_.targets if isinstance(x_, ast.Assign) else [x_.target]))
                        for x_ in ast.walk(ci_.module.tree)):
                    return ("const", d_[0].value.value)
            return ("attr", base, n.attr)
        if base == ("param", "self") and self.cls is not None and not self.index.class_by_qual(self.cls.qual) is None:
            v = self._class_constant(n.attr)
            if v is not None:
                return v
        return ("attr", base, n.attr)

    def _bound_method_value(self, base, n):
        """`rec.method` handed on as a value (not called on the spot), rec a record whose fields are known: the local function that
        method is once `self` is fixed"""
        if id(n) in getattr(self, "_callee_nodes", ()) or len(self.inline_stack) >= 4:
            return None
        ci = self.index.class_by_qual(base[1][1])
        if ci is None or n.attr not in ci.methods:
            return None
        node = pick_def(ci.methods[n.attr])
        if not isinstance(node, ast.FunctionDef) or node.decorator_list or not node.args.args or node.args.posonlyargs:
            return None
        import copy
        fn = copy.deepcopy(node)
        selfname = fn.args.args[0].arg
        fn.args.args = fn.args.args[1:]
        lid = self.fresh("F")
        try:
            sub = Evaluator(self.index, ci.module, fn, f"{ci.qual}.{n.attr}", ci, {selfname: base})
            sub.inline_stack = self.inline_stack + (f"{ci.qual}.{n.attr}",)
            sub._n = self._n
            sub.lambdas = dict(self.lambdas)
            ls = sub.run()
        except (AnalysisError, RecursionError):
            return None
        self.lambdas[lid] = ls
        self._n = sub._n
        self.inlined += list(ls.inlined)
        return ("lambda", lid)

    def _class_constant(self, name):
        """self.<name> where <name> is a class-level table of constants (a display of constant strings / numbers / tuples of them)
        declared in a class the reference tree does not have or overridden along the MRO of the class under analysis, and never
        assigned through an instance: its value for THIS class (the first declaration along the MRO)"""
        for c in (getattr(self, "dyn_cls", None) or self.cls).mro():
            for st in c.node.body:
                tg = st.targets if isinstance(st, ast.Assign) else ([st.target] if isinstance(st, ast.AnnAssign) and st.value is not None else [])
                if any(isinstance(t_, ast.Name) and t_.id == name for t_ in tg):
                    val = st.value

                    def const_display(v):
                        if isinstance(v, ast.Constant):
                            return ("const", v.value)
                        if isinstance(v, (ast.Tuple, ast.List)) and not any(isinstance(e, ast.Starred) for e in v.elts):
                            items = [const_display(e) for e in v.elts]
                            return None if any(i is None for i in items) else ("tuple" if isinstance(v, ast.Tuple) else "list", tuple(items))
                        return None
                    if not isinstance(val, (ast.Tuple, ast.List)):
                        return None
                    out = const_display(val)
                    if out is None:
                        return None
                    # never written through an instance or the class anywhere in the package
                    key = ("_attr_stores", name)
                    cache = self.index.__dict__.setdefault("_attr_store_cache", {})
                    if name not in cache:
                        cache[name] = any(isinstance(x, ast.Attribute) and x.attr == name and isinstance(x.ctx, (ast.Store, ast.Del))
                                          for m_ in self.index.modules.values() for x in ast.walk(m_.tree))
                    return None if cache[name] else out
        return None

    def _is_record(self, t) -> bool:
        if t[0] == "ite":
            # a failed lookup at the end of a chain of records is still "a record or nothing"
            if t[3][0] == "error":
                return self._is_record(t[2])
            return self._is_record(t[2]) and self._is_record(t[3])
        if t[0] == "call" and t[1][0] == "global" and t[1][2] == "class":
            ci = self.index.class_by_qual(t[1][1])
            if ci is not None and not ci.bases and any(b.split(".")[-1] == "NamedTuple" for b in ci.ext_bases):
                _MAKE_ARITY[t[1][1]] = len([st for st in ci.node.body if isinstance(st, ast.AnnAssign)])
            return ci is not None and not ci.bases and (
                any(b.split(".")[-1] == "NamedTuple" for b in ci.ext_bases)
                or any(ast.unparse(d).split("(")[0].split(".")[-1] == "dataclass" for d in ci.node.decorator_list))
        return False

    def _record_get(self, t, attr=None, index=None):
        """field `attr` / position `index` of a record value (distributes over conditional records); None = unknown"""
        if t[0] == "ite":
            a, b = self._record_get(t[2], attr, index), self._record_get(t[3], attr, index)
            return None if a is None or b is None else ITE(t[1], a, b)
        if t[0] == "error":
            return t
        ci = self.index.class_by_qual(t[1][1])
        rv = self._record_values(ci, t)
        if rv is None:
            return None
        if attr is not None and attr not in rv and attr in ci.methods:
            # a read-only property of the record: its body with self bound to the record
            node = pick_def(ci.methods[attr])
            if any(ast.unparse(d) == "property" for d in node.decorator_list) and len(self.inline_stack) < 4:
                try:
                    sub = Evaluator(self.index, ci.module, node, f"{ci.qual}.{attr}", ci)
                    sub.inline_stack = self.inline_stack + (f"{ci.qual}.{attr}",)
                    ps = sub.run()
                except (AnalysisError, RecursionError):
                    return None
                rets = ps.raw_returns
                if len(rets) == 1 and not any(e.kind in ("store", "yield", "delete") for e in ps.events) and ps.params:
                    # a guard of the property that cannot fire for THIS record (`if self.frames is None: raise` with frames = int(...))
                    b_ = {("param", ps.params[0]): t}
                    if all(fold_sub(self._fold_records(fold_sub(subst(e.live, b_)))) == FALSE for e in ps.events if e.kind == "raise"):
                        rv_ = self._retype(rets[0].term, self._record_class_of_annotation(getattr(node, "returns", None), ci.module))
                        return fold_sub(self._fold_records(fold_sub(subst(rv_, b_))))
            return None
        if attr is not None:
            return rv.get(attr)
        vals = list(rv.values())
        return vals[index] if -len(vals) <= index < len(vals) else None

    def _never_none(self, t) -> bool:
        """a call to an in-package function all of whose paths return a display / constructor result (never None)"""
        f = t[1]
        if f[0] == "global" and f[2] == "class":
            return True
        if not (f[0] == "global" and f[2] == "func" and ":" in f[1]) or len(self.inline_stack) >= 4:
            return False
        modname, fname = f[1].split(":")
        try:
            m, fn = self.index.need_func(modname, fname)
            sub = Evaluator(self.index, m, fn, f[1], None)
            sub.inline_stack = self.inline_stack + (f[1],)
            cs = sub.run()
        except (AnalysisError, RecursionError):
            return False
        if cs.fall_live != FALSE or cs.is_generator or not cs.raw_returns:
            return False
        return all(none_cond(r.term) == FALSE for r in cs.raw_returns)

    def _typed_get(self, base, ci, attr):
        """field / property `attr` of an opaque value known to be a record of class ci: base[i] / the property's body"""
        fields = [st.target.id for st in ci.node.body if isinstance(st, ast.AnnAssign) and isinstance(st.target, ast.Name)]
        if attr in fields:
            return sub_const(base, fields.index(attr))
        if attr in ci.methods and len(self.inline_stack) < 4:
            node = pick_def(ci.methods[attr])
            if any(ast.unparse(d) == "property" for d in node.decorator_list):
                try:
                    sub = Evaluator(self.index, ci.module, node, f"{ci.qual}.{attr}", ci)
                    sub.inline_stack = self.inline_stack + (f"{ci.qual}.{attr}",)
                    if node.args.args:
                        sub.rec_types[("param", node.args.args[0].arg)] = ci
                    ps = sub.run()
                except (AnalysisError, RecursionError):
                    return None
                rets = ps.raw_returns
                if len(rets) == 1 and not any(e.kind in ("store", "raise", "yield", "delete") for e in ps.events) and ps.params:
                    return fold_sub(subst(rets[0].term, {("param", ps.params[0]): base}))
        return None

    def _record_field(self, call, attr):
        """Point(x=a, y=b).x -> a for NamedTuple / dataclass records defined in the package (plain annotated fields)."""
        ci = self.index.class_by_qual(call[1][1])
        if ci is None:
            return None
        is_nt = any(b.split(".")[-1] == "NamedTuple" for b in ci.ext_bases)
        is_dc = any(ast.unparse(d).split("(")[0].split(".")[-1] == "dataclass" for d in ci.node.decorator_list)
        if not (is_nt or is_dc) or ci.bases:
            return None
        vals = self._record_values(ci, call)
        return None if vals is None else vals.get(attr)

    def _record_values(self, ci, call):
        """{field: argument term} of a record constructor call, or None"""
        fields = [st.target.id for st in ci.node.body if isinstance(st, ast.AnnAssign) and isinstance(st.target, ast.Name)]
        if len(call[2]) == 1 and call[2][0][0] == "star" and not call[3] and \
                not any(isinstance(st, ast.AnnAssign) and st.value is not None for st in ci.node.body):
            # Rec(*seq): the i-th field is seq[i] (the arity is checked by the constructor)
            return {f: ("sub", call[2][0][1], ("const", i)) for i, f in enumerate(fields)}
        if any(a[0] == "star" for a in call[2]) or any(k == "**" for k, _ in call[3]) or len(call[2]) > len(fields):
            return None
        if any(isinstance(st, ast.FunctionDef) and st.name in ("__post_init__", "__new__", "__init__") for st in ci.node.body):
            return None
        vals = dict(zip(fields, call[2]))
        for k, v in call[3]:
            if k not in fields or k in vals:
                return None
            vals[k] = v
        for st in ci.node.body:
            if isinstance(st, ast.AnnAssign) and isinstance(st.target, ast.Name) and st.target.id not in vals:
                if st.value is None:
                    return None
                vals[st.target.id] = self.ev_quiet(st.value)
        return {f: vals[f] for f in fields}

    def e_Subscript(self, n, live):
        base = self.ev(n.value, live)
        idx = self.ev(n.slice, live)
        if idx[0] == "elem" and idx[1] in self.loops:
            idx = self._zip_elem(idx, self.loops[idx[1]].iter)
        if base[0] == "global" and base[2] == "assign" and isinstance(n.ctx, ast.Load):
            v = self._table_lookup(base, idx, ("error", "KeyError"))
            if v is not None:
                return v
        if base[0] in ("call", "ite") and idx[0] == "const" and isinstance(idx[1], int) and not isinstance(idx[1], bool) \
                and self._is_record(base):
            v = self._record_get(base, index=idx[1])
            if v is not None:
                return v
        if base[0] in ("tuple", "list") and idx[0] == "const" and isinstance(idx[1], int) and not isinstance(idx[1], bool):
            if -len(base[1]) <= idx[1] < len(base[1]) and not any(x[0] == "star" for x in base[1]):
                return base[1][idx[1]]
        if base[0] == "dict" and idx[0] == "const":
            for k, v in base[1]:
                if k == idx:
                    return v
        if base[0] == "comp" and isinstance(n.ctx, ast.Load):
            return fold_sub(("sub", base, idx))  # [f(x) for x in xs][k] is f(xs[k])
        return ("sub", base, idx)

    def e_Slice(self, n, live):
        return ("slice", self.ev(n.lower, live), self.ev(n.upper, live), self.ev(n.step, live))

    def e_Tuple(self, n, live):
        return ("tuple", tuple(self.ev(e, live) for e in n.elts))

    def e_List(self, n, live):
        if len(n.elts) == 1 and isinstance(n.elts[0], ast.Starred) and "list" not in self.env:
            return ("call", ("builtin", "list"), (self.ev(n.elts[0].value, live),), ())  # [*xs] is list(xs)
        return _splice_stars(("list", tuple(self.ev(e, live) for e in n.elts)))

    def e_Set(self, n, live):
        return ("set", tuple(self.ev(e, live) for e in n.elts))

    def e_Starred(self, n, live):
        return ("star", self.ev(n.value, live))

    def e_Dict(self, n, live):
        items = []
        for k, v in zip(n.keys, n.values):
            if k is None:
                items.append((("dstar",), self.ev(v, live)))
            else:
                items.append((self.ev(k, live), self.ev(v, live)))
        return ("dict", tuple(items))

    def e_UnaryOp(self, n, live):
        x = self.ev(n.operand, live)
        if isinstance(n.op, ast.Not):
            return NOT(x)
        if isinstance(n.op, ast.USub):
            if x[0] == "const" and isinstance(x[1], (int, float)) and not isinstance(x[1], bool):
                return ("const", -x[1])
            return ("neg", x)
        if isinstance(n.op, ast.UAdd):
            return x
        return ("invert", x)

    def e_BinOp(self, n, live):
        l = self.ev(n.left, live)
        r = self.ev(n.right, live)
        if isinstance(n.op, ast.Add) and l[0] == "const" and r[0] == "const" and isinstance(l[1], str) and isinstance(r[1], str):
            return ("const", l[1] + r[1])  # "onset" + "_sample"
        if isinstance(n.op, ast.Add) and l[0] == "list" and r[0] == "list":
            return ("list", l[1] + r[1])
        if isinstance(n.op, (ast.Add, ast.Sub, ast.Mult)) and l[0] == "const" and r[0] == "const" \
                and all(isinstance(x[1], int) and not isinstance(x[1], bool) for x in (l, r)):
            return fold_sub(("bin", BIN_AST[type(n.op)], l, r))
        return ("bin", BIN_AST.get(type(n.op), "?"), l, r)

    def e_BoolOp(self, n, live):
        terms = []
        cur = live
        for v in n.values:
            t = self.ev(v, cur)
            terms.append(t)
            cur = AND(cur, t) if isinstance(n.op, ast.And) else AND(cur, NOT(t))
        if isinstance(n.op, ast.And):
            return ("and", tuple(terms)) if len(terms) > 1 else terms[0]
        return ("or", tuple(terms)) if len(terms) > 1 else terms[0]

    def e_Compare(self, n, live):
        left = self.ev(n.left, live)
        parts = []
        for op, comp in zip(n.ops, n.comparators):
            right = self.ev(comp, live)
            if isinstance(op, (ast.In, ast.NotIn)) and right[0] == "global" and right[2] == "assign":
                # membership in a module-level table with constant keys that nothing mutates: membership in the display of its keys
                ks = self._table_keys(right, dict_only=True)
                if ks is not None:
                    right = ("tuple", tuple(ks))
            c = mk_cmp(CMP_AST[type(op)], left, right)
            if c[1] in ("is", "isnot") and NONE in (c[2], c[3]):
                other = c[3] if c[2] == NONE else c[2]
                if other[0] == "ite":
                    nc = none_cond(other, self._never_none)
                    if nc is not None:
                        c = nc if c[1] == "is" else NOT(nc)
            parts.append(c)
            left = right
        if len(parts) == 1:
            return parts[0]
        return ("and", tuple(parts))

    def e_IfExp(self, n, live):
        c = self.ev(n.test, live)
        a = self.ev(n.body, AND(live, c))
        b = self.ev(n.orelse, AND(live, NOT(c)))
        if a == c and c[0] in ("attr", "param", "sub", "elem") and ast.unparse(n.test) == ast.unparse(n.body):
            return ("or", (c, b))  # `x if x else y` is `x or y`
        return ITE(c, a, b)

    def e_NamedExpr(self, n, live):
        v = self.ev(n.value, live)
        self.env[n.target.id] = v
        return v

    def e_JoinedStr(self, n, live):
        parts = []
        for v in n.values:
            if isinstance(v, ast.Constant):
                parts.append(("const", v.value))
            elif v.format_spec is not None or v.conversion not in (-1, 115, 114):
                # a format spec / conversion may lose information: keep it distinct from the bare value
                spec = ast.unparse(v.format_spec) if v.format_spec is not None else ""
                parts.append(("fmt", self.ev(v.value, live), spec, v.conversion))
            else:
                parts.append(self.ev(v.value, live))
        return ("fstr", tuple(parts))

    def e_FormattedValue(self, n, live):
        return self.ev(n.value, live)

    def e_Lambda(self, n, live):
        lid = self.fresh("F")
        sub = Evaluator(self.index, self.module, n, f"{self.qual}.<lambda {lid}>", self.cls, self.env)
        sub._n = self._n
        sub.lambdas = dict(self.lambdas)
        self.lambdas[lid] = sub.run()
        self._n = sub._n
        self.inlined += list(self.lambdas[lid].inlined)
        return ("lambda", lid)

    def e_Await(self, n, live):
        return ("await", self.ev(n.value, live))

    def e_Yield(self, n, live):
        self.is_generator = True
        t = self.ev(n.value, live) if n.value is not None else NONE
        ev = self.emit("yield", live, t, n)
        return ("yieldval", ev.idx)

    def e_YieldFrom(self, n, live):
        self.is_generator = True
        self._yield_from = True
        try:
            t = self.ev(n.value, live)
        finally:
            self._yield_from = False
        if t[0] == "inlined_gen":
            return NONE  # the helper generator's yields were re-emitted in place
        self._yield_from_term(t, live, n)
        return NONE

    def _yield_from_term(self, t, live, n):
        """`yield from t` as explicit yields where t's structure is known: chain(a, b) -> a then b; a generator
        expression / zip(xs, repeat(c)) -> a loop yielding its elements; anything else stays one `yield from` event."""
        if t[0] == "call" and t[1] == ("ext", "itertools.chain") and not t[3] and not any(a[0] == "star" for a in t[2]):
            for a in t[2]:
                self._yield_from_term(a, live, n)
            return
        if t[0] == "comp" and t[1] in ("gen", "list") and len(t[3]) == 1 and t[3][0][0] in self.loops:
            lid, it, conds = t[3][0]
            self.loops[lid].kind = "for"
            self.loop_stack.append(lid)
            self.emit("yield", AND(live, ("inloop", lid), *conds), t[2], n)
            self.loop_stack.pop()
            return
        if t[0] == "call" and t[1] == ("builtin", "zip") and not t[3] and len(t[2]) >= 2 and not any(a[0] == "star" for a in t[2]):
            rep = [a[2][0] if (a[0] == "call" and a[1] == ("ext", "itertools.repeat") and len(a[2]) == 1 and not a[3]) else None for a in t[2]]
            real = [i for i, r in enumerate(rep) if r is None]
            if len(real) == 1:
                # zip(xs, repeat(c)): one element per x
                lid = self.fresh("L")
                self.loops[lid] = LoopInfo(lid, "for", t[2][real[0]], n, self.loop_stack[-1] if self.loop_stack else None, "_")
                self.loop_stack.append(lid)
                self.emit("yield", AND(live, ("inloop", lid)), ("tuple", tuple(("elem", lid) if i == real[0] else rep[i] for i in range(len(rep)))), n)
                self.loop_stack.pop()
                return
        self.emit("yield", live, ("yieldfrom", t), n)

    def e_Call(self, n, live):
        if isinstance(n.func, ast.Name) and n.func.id == "dict" and "dict" not in self.env and len(n.args) == 1 \
                and isinstance(n.args[0], (ast.Name, ast.Attribute, ast.Dict)):
            # dict(d) of a mapping is the fresh copy {**d}; dict(d, k=v, **e) is {**d, "k": v, **e}
            src_ = self.ev(n.args[0], live)
            # (only of something KNOWN to be a mapping: dict(model) iterates a pydantic model's (name, value) pairs, {**model} fails)
            if src_[0] == "dict" or (src_[0] == "param" and (src_[1].startswith("**") or src_[1] in getattr(self, "_mapping_params", ()))):
                items_ = list(src_[1]) if src_[0] == "dict" else [(("dstar",), src_)]
                for k_ in n.keywords:
                    items_.append(((("dstar",) if k_.arg is None else ("const", k_.arg)), self.ev(k_.value, live)))
                return fold_sub(("dict", tuple(items_)))
        self._callee_nodes = getattr(self, "_callee_nodes", set()) | {id(n.func)}
        f = self.ev(n.func, live)
        args = []
        for a in n.args:
            av = None
            if isinstance(a, ast.GeneratorExp) and len(n.args) == 1 and not n.keywords and f[0] == "builtin" \
                    and f[1] in ("tuple", "list", "set", "frozenset", "sum", "min", "max", "sorted", "dict") and f[1] not in self.env:
                # a generator consumed on the spot over a literal display: the display of its elements
                av = self._comp_unrolled(a, live, "list", lambda l, a=a: self.ev(a.elt, l))
            if av is None:
                av = self.ev(a, live)
            if av[0] == "star" and av[1][0] in ("tuple", "list") and not any(x[0] == "star" for x in av[1][1]):
                args.extend(av[1][1])  # f(*[a, b]) is f(a, b)
            else:
                args.append(av)
        # `Base.method(self, ...)` inside a method of a subclass, Base being the class the MRO would pick next for that method, is
        # `super().method(...)`
        base_q, meth_ = None, None
        if f[0] == "attr" and f[1][0] == "global" and f[1][2] == "class":
            base_q, meth_ = f[1][1], f[2]
        elif f[0] == "global" and f[2] == "func" and "." in f[1].split(":")[-1]:
            base_q, meth_ = f[1].rsplit(".", 1)
        if base_q is not None and args and args[0] == ("param", "self") and self.cls is not None:
            try:
                mro_ = self.cls.mro()
                nxt = next((c_ for c_ in mro_[1:] if meth_ in c_.methods), None)
                if nxt is not None and self.index.canonical_qual("class", nxt.qual) == self.index.canonical_qual("class", base_q):
                    f = ("attr", ("call", ("builtin", "super"), (), ()), meth_)
                    args = args[1:]
            except Exception:  # noqa: BLE001
                pass
        kws = []
        for k in n.keywords:
            v = self.ev(k.value, live)
            kws.append((k.arg if k.arg is not None else "**", v))
        # f(**{"a": x, "b": y}) is f(a=x, b=y)
        if any(k_ == "**" and v_[0] == "dict" and v_[1] and all(kk[0] == "const" and isinstance(kk[1], str) for kk, _ in v_[1]) for k_, v_ in kws):
            kws2 = []
            for k_, v_ in kws:
                if k_ == "**" and v_[0] == "dict" and v_[1] and all(kk[0] == "const" and isinstance(kk[1], str) for kk, _ in v_[1]):
                    for kk, vv in v_[1]:
                        kws2 = [(a_, b_) for a_, b_ in kws2 if a_ != kk[1]] + [(kk[1], vv)]
                else:
                    kws2.append((k_, v_))
            kws = kws2
        # stable: named keywords sorted, '**' spreads keep their relative order at the end
        named = sorted([kv for kv in kws if kv[0] != "**"], key=lambda kv: kv[0])
        spreads = [kv for kv in kws if kv[0] == "**"]
        if named:
            dflt = EXT_DEFAULTS.get(f[1]) if f[0] == "ext" else EXT_DEFAULTS.get("builtin:" + f[1]) if (f[0] == "builtin" and f[1] not in self.env) \
                else METHOD_DEFAULTS.get(f[2]) if f[0] == "attr" else None
            if dflt:
                named = [(k_, v_) for k_, v_ in named if not (k_ in dflt and v_[0] == "const" and v_[1] == dflt[k_] and type(v_[1]) is type(dflt[k_]))]
        if f[0] == "ext" and f[1] in ("numpy.zeros", "numpy.ones", "numpy.empty", "numpy.full") and named:
            # the default element type spelled out
            named = [(k_, v_) for k_, v_ in named if not (k_ == "dtype" and v_ in (("builtin", "float"), ("ext", "numpy.float64"), ("ext", "numpy.double"),
                                                                                  ("const", "float64"), ("const", "float"), ("const", None)))]
        # numpy: the function form of a method (np.argmax(x, axis=1) is x.argmax(axis=1)); joining columns
        # (np.concatenate((a, b), axis=1 | -1), np.column_stack((a, b)), np.hstack of 2-D blocks are np.c_[a, b] for matrices)
        if f[0] == "ext" and f[1] in ("numpy.argmax", "numpy.argmin", "numpy.sum", "numpy.astype") and len(args) == 1 and not spreads \
                and not any(a[0] == "star" for a in args):
            f, args = ("attr", args[0], f[1].split(".")[1]), []
        if f in (("ext", "numpy.logical_not"), ("ext", "numpy.invert")) and len(args) == 1 and not named and not spreads and args[0][0] != "star":
            return ("invert", args[0])  # ~x on a boolean array
        if f == ("ext", "numpy.concatenate") and len(args) == 1 and args[0][0] in ("tuple", "list") and len(args[0][1]) >= 2 and not spreads \
                and dict(named).get("axis") in (("const", 1), ("const", -1)) and len(named) == 1 and not any(c_[0] == "star" for c_ in args[0][1]):
            return ("sub", ("ext", "numpy.c_"), ("tuple", tuple(args[0][1])))
        if f == ("ext", "numpy.column_stack") and len(args) == 1 and args[0][0] in ("tuple", "list") and len(args[0][1]) >= 2 and not named and not spreads \
                and not any(c_[0] == "star" for c_ in args[0][1]):
            return ("sub", ("ext", "numpy.c_"), ("tuple", tuple(args[0][1])))
        if not named and not spreads and not any(a[0] == "star" for a in args):
            if f in (("builtin", "max"), ("builtin", "min")) and f[1] not in self.env and len(args) == 1 and args[0][0] in ("tuple", "list") \
                    and len(args[0][1]) >= 2 and not any(c_[0] == "star" for c_ in args[0][1]):
                args = list(args[0][1])  # max((a, b)) is max(a, b)
            if f == ("builtin", "range") and "range" not in self.env:
                if len(args) == 3 and args[2] == ("const", 1):
                    args = args[:2]
                if len(args) == 2 and args[0] == ("const", 0):
                    args = args[1:]
            elif f == ("builtin", "enumerate") and "enumerate" not in self.env and len(args) == 2 and args[1] == ("const", 0):
                args = args[:1]
            elif f[0] == "attr" and f[2] == "get" and len(args) == 2 and args[1] == NONE:
                args = args[:1]
            elif f == ("builtin", "round") and "round" not in self.env and len(args) == 2 and args[1] == NONE:
                args = args[:1]
        if f[0] == "attr" and named and not spreads and f[2] in _PKG_METHODS and f[2] not in METHOD_SIGNATURES \
                and not any(a[0] == "star" for a in args):
            # a method of the package called by keyword: positional when every class that defines a method of that name agrees
            sigs_ = _PKG_METHODS[f[2]]
            kd = dict(named)
            args = list(args)
            if len(sigs_) == 1:
                sig = next(iter(sigs_))
                while len(args) < len(sig) and sig[len(args)] in kd:
                    args.append(kd.pop(sig[len(args)]))
            elif all(len(sg_) == 1 for sg_ in sigs_) and not args and len(kd) == 1 and next(iter(kd)) in {sg_[0] for sg_ in sigs_}:
                args.append(kd.pop(next(iter(kd))))
            named = sorted(kd.items(), key=lambda kv: kv[0])
        if f[0] == "attr" and f[2] in METHOD_SIGNATURES and named and not spreads and not any(a[0] == "star" for a in args) \
                and f[1] not in (("param", "self"), ("param", "cls")):
            sig = METHOD_SIGNATURES[f[2]]
            kd = dict(named)
            args = list(args)
            while len(args) < len(sig) and sig[len(args)] in kd:
                args.append(kd.pop(sig[len(args)]))
            named = sorted(kd.items(), key=lambda kv: kv[0])
        if f[0] == "ext" and f[1] in EXT_SIGNATURES and named and not spreads and not any(a[0] == "star" for a in args):
            sig = EXT_SIGNATURES[f[1]]
            kd = dict(named)
            while len(args) < len(sig) and sig[len(args)] in kd:
                args.append(kd.pop(sig[len(args)]))
            named = sorted(kd.items(), key=lambda kv: kv[0])
        if f[0] == "global" and f[2] == "func" and not spreads and not any(a[0] == "star" for a in args):
            args, named = self._reference_spelling(f[1], args, named)
        if f[0] == "global" and f[2] == "assign":
            f = self._getter_global(f)
        if f[0] == "global" and f[2] == "class" and self._is_record(("call", f, (), ())):
            # Rec(values=[], col=[]): each empty display is its own accumulator
            def ident(node, val, nm):
                if isinstance(node, (ast.List, ast.Dict, ast.Set)) and not getattr(node, "elts", getattr(node, "keys", None)):
                    kind = {"List": "list", "Dict": "dict", "Set": "set"}[type(node).__name__]
                    key = f"{nm}@{node.lineno}:{node.col_offset}"
                    self.alloc_loops[key] = tuple(self.loop_stack)
                    return ("alloc", kind, key)
                return val
            args = [ident(a_, v_, f"arg{i_}") for i_, (a_, v_) in enumerate(zip(n.args, args))]
            kwn = {k.arg: k.value for k in n.keywords if k.arg is not None}
            named = [(k_, ident(kwn[k_], v_, k_) if k_ in kwn else v_) for k_, v_ in named]
        if f == ("builtin", "isinstance") and "isinstance" not in self.env and not named and not spreads and len(args) == 2 \
                and args[1][0] == "tuple" and len(args[1][1]) >= 2 and not any(c_[0] == "star" for c_ in args[1][1]):
            # isinstance(x, (A, B)) is isinstance(x, A) or isinstance(x, B)
            return OR(*[("call", f, (args[0], c_), ()) for c_ in args[1][1]])
        norm = self._norm_call(f, args, named, spreads, live, n)
        if norm is not None:
            return norm
        if f[0] == "lambda" and not named and not spreads and not any(a[0] == "star" for a in args):
            # calling a local single-expression function: its value with the arguments substituted
            v = self._apply_fn(f, args)
            if not (v[0] == "call" and v[1] == f):
                ev = self.emit("call", live, ("call", f, tuple(args), ()), n)
                ev.kw_order = []  # type: ignore[attr-defined]
                self._emit_lambda_calls(f, args, live, n)  # the calls the local function makes happen here
                return v
        if f == ("builtin", "slice") and "slice" not in self.env and not named and not spreads and 1 <= len(args) <= 3 \
                and not any(a[0] == "star" for a in args):
            # slice(a, b[, c]) is the subscript a:b[:c]
            a3 = [NONE, args[0], NONE] if len(args) == 1 else list(args) + [NONE] * (3 - len(args))
            return ("slice", a3[0], a3[1], a3[2])
        t = fold_sub(("call", f, tuple(args), tuple(named + spreads))) if spreads else ("call", f, tuple(args), tuple(named))
        yf = getattr(self, "_yield_from", False)
        self._yield_from = False
        inl = self._try_inline(f, t, live, n, yield_from=yf)
        if inl is not None:
            return inl
        ev = self.emit("call", live, t, n)
        ev.kw_order = [kv[0] for kv in kws]  # type: ignore[attr-defined]
        return t

    # ------------------------------------------------------------------ spelling normal forms of calls
    OPERATOR_BIN = {"add": "+", "sub": "-", "mul": "*", "truediv": "/", "floordiv": "//", "mod": "%", "pow": "**"}
    OPERATOR_CMP = {"lt": "lt", "le": "le", "eq": "eq", "ne": "ne", "gt": "gt", "ge": "ge", "is_": "is", "is_not": "isnot"}

    def _apply_fn(self, fn, arg_terms):
        """value of fn(*arg_terms) when fn is a lambda / local function with a single return, else the call term"""
        if fn[0] == "global" and fn[2] == "assign":
            fn = self._getter_global(fn)
        if fn[0] == "call" and fn[1] in (("ext", "operator.attrgetter"), ("ext", "operator.itemgetter")) and len(fn[2]) == 1 \
                and len(arg_terms) == 1 and fn[2][0][0] == "const":
            pass
        if fn[0] == "call" and fn[1] == ("ext", "operator.attrgetter") and len(fn[2]) > 1 and len(arg_terms) == 1 \
                and all(a[0] == "const" and isinstance(a[1], str) for a in fn[2]):
            outs = []
            for a in fn[2]:
                v = arg_terms[0]
                for part in a[1].split("."):
                    v = ("attr", v, part)
                outs.append(v)
            return ("tuple", tuple(outs))
        if fn[0] == "call" and fn[1] in (("ext", "operator.attrgetter"), ("ext", "operator.itemgetter")) and len(fn[2]) == 1 \
                and len(arg_terms) == 1 and fn[2][0][0] == "const":
            if fn[1][1].endswith("attrgetter") and isinstance(fn[2][0][1], str):
                v = arg_terms[0]
                for part in fn[2][0][1].split("."):
                    v = ("attr", v, part)
                return v
            if fn[1][1].endswith("itemgetter"):
                return ("sub", arg_terms[0], fn[2][0])
        if fn[0] == "call" and fn[1] == ("ext", "operator.itemgetter") and len(fn[2]) >= 2 and len(arg_terms) == 1 and all(k_[0] == "const" for k_ in fn[2]) and not fn[3]:
            return ("tuple", tuple(fold_sub(("sub", arg_terms[0], k_)) for k_ in fn[2]))  # itemgetter(i, j)(x) is (x[i], x[j])
        if fn[0] == "lambda" and fn[1] in self.lambdas:
            ls = self.lambdas[fn[1]]
            rets = ls.raw_returns
            if len(rets) == 1 and len(ls.params) == len(arg_terms) and not ls.kwarg and not ls.vararg \
                    and not any(e.kind in ("store", "raise", "yield", "delete") for e in ls.events):
                return subst(rets[0].term, {("param", p): a for p, a in zip(ls.params, arg_terms)})
        return ("call", fn, tuple(arg_terms), ())

    def _table_lookup(self, g, key, default):
        """G[key] / G.get(key, default) for a module-level dict display G with constant keys that nothing mutates:
        the conditional chain `v1 if key == k1 else v2 if key == k2 ... else default`.  None = not such a table."""
        try:
            modname, name = g[1].split(":")
            m, node = self.index.need_assign(modname, name)
        except (AnalysisError, ValueError):
            return None
        if not isinstance(node, ast.Dict) or not node.keys or len(m.defs.get(name, [])) != 1:
            return None
        keys = [self._const_key(m, k) for k in node.keys]
        if any(k is None for k in keys):
            return None
        cache = self._mutated_globals()
        if False:
            cache = set()
            for mm in self.index.modules.values():
                for nd in ast.walk(mm.tree):
                    tgt = None
                    if isinstance(nd, (ast.Subscript,)) and isinstance(nd.ctx, (ast.Store, ast.Del)):
                        tgt = nd.value
                    elif isinstance(nd, ast.Call) and isinstance(nd.func, ast.Attribute) and nd.func.attr in (
                            "update", "setdefault", "pop", "popitem", "clear", "__setitem__", "append", "extend"):
                        tgt = nd.func.value
                    if tgt is not None:
                        sy = self.index.resolve_expr(mm, tgt) if isinstance(tgt, (ast.Name, ast.Attribute)) else None
                        if sy is not None and sy.kind == "assign":
                            cache.add(sy.qual)
            self.index.__dict__["_mutated_globals"] = cache
        if g[1] in cache:
            return None
        rows = self._table_rows(g, m, node, keys)
        if rows is None:
            return None
        v = default
        for kc, val in reversed(rows):
            v = ITE(mk_cmp("eq", key, kc), val, v)
        return v

    def _table_rows(self, g, m, node, keys):
        """[(constant key, value term)] of a module-level dict display, in its order; None when a value cannot be read"""
        rows = []
        for kc, vn in zip(keys, node.values):
            sy = self.index.resolve_expr(m, vn) if isinstance(vn, (ast.Name, ast.Attribute)) else None
            if sy is not None:
                val = sym_term(sy)
            elif isinstance(vn, ast.Constant):
                val = ("const", vn.value)
            elif isinstance(vn, ast.Lambda):
                lid = f"T{abs(hash((g[1], kc[1]))) % 10**8}"
                if lid not in self.lambdas:
                    try:
                        self.lambdas[lid] = Evaluator(self.index, m, vn, f"{g[1]}[{kc[1]!r}]", None).run()
                    except (AnalysisError, RecursionError):
                        return None
                val = ("lambda", lid)
            else:
                # any other row value (a record of a function and its switches, a tuple, ...): its module-level value
                try:
                    sub = Evaluator(self.index, m, vn, f"{g[1]}[{kc[1]!r}]", None)
                    sub.inline_stack = self.inline_stack + (g[1],)
                    mark = len(sub.events)
                    val = sub.ev(vn, TRUE)
                except (AnalysisError, RecursionError):
                    return None
                if any(x[0] in ("unbound", "unknown", "alloc") for x in walk(val)) or any(e.kind != "call" for e in sub.events[mark:]):
                    return None
            rows.append((kc, val))
        return rows

    def _table_keys(self, g, dict_only=False):
        """the constant keys of a module-level dict display (or the constant items of a tuple / list / set display) that nothing mutates"""
        try:
            modname, name = g[1].split(":")
            m, node = self.index.need_assign(modname, name)
        except (AnalysisError, ValueError):
            return None
        if len(m.defs.get(name, [])) != 1 or g[1] in self._mutated_globals():
            return None
        items = node.keys if isinstance(node, ast.Dict) else (node.elts if isinstance(node, (ast.Tuple, ast.List, ast.Set)) and not dict_only else None)
        if not items:
            return None
        ks = [self._const_key(m, k) if k is not None else None for k in items]
        return None if any(k is None for k in ks) else ks

    def _mutated_globals(self):
        """module-level names that some code mutates: `G[...] = `, `del G[...]`, `G.<mutator>(...)` anywhere in the package"""
        cache = self.index.__dict__.setdefault("_mutated_globals", None)
        if cache is None:
            cache = set()
            for mm in self.index.modules.values():
                for nd in ast.walk(mm.tree):
                    tgt = None
                    if isinstance(nd, (ast.Subscript,)) and isinstance(nd.ctx, (ast.Store, ast.Del)):
                        tgt = nd.value
                    elif isinstance(nd, ast.Call) and isinstance(nd.func, ast.Attribute) and nd.func.attr in (
                            "update", "setdefault", "pop", "popitem", "clear", "__setitem__", "append", "extend"):
                        tgt = nd.func.value
                    if tgt is not None:
                        sy = self.index.resolve_expr(mm, tgt) if isinstance(tgt, (ast.Name, ast.Attribute)) else None
                        if sy is not None and sy.kind == "assign":
                            cache.add(sy.qual)
            self.index.__dict__["_mutated_globals"] = cache
        return cache

    def _const_key(self, m, knode):
        """the constant a table key denotes: a literal, or `Class.tag()` of a classmethod that returns the declared default
        of one of the class's fields (`cls.model_fields["type"].default`)"""
        if isinstance(knode, ast.Constant):
            return ("const", knode.value)
        if isinstance(knode, ast.Tuple) and knode.elts and all(isinstance(e_, ast.Constant) for e_ in knode.elts):
            return ("tuple", tuple(("const", e_.value) for e_ in knode.elts))  # a key made of several constants: (True, False)
        if isinstance(knode, ast.Call) and not knode.args and not knode.keywords and isinstance(knode.func, ast.Attribute):
            try:
                sy = self.index.resolve_expr(m, knode.func.value)
            except AnalysisError:
                return None
            ci = self.index.class_by_qual(sy.qual) if sy is not None and sy.kind == "class" and ":" in sy.qual else None
            return self._class_tag(ci, knode.func.attr) if ci is not None else None
        return None

    def _class_tag(self, ci, meth):
        """`Class.meth()` when meth is a classmethod returning `cls.model_fields[<field>].default` and the class declares a
        constant default for that field: that constant (the tag of a tagged union member).  None otherwise."""
        cache = self.index.__dict__.setdefault("_class_tags", {})
        key = (ci.qual, meth)
        if key in cache:
            return cache[key]
        cache[key] = None
        cache[key] = self._class_tag_uncached(ci, meth)
        return cache[key]

    def _class_tag_uncached(self, ci, meth):
        if True:
            found = ci.find_method(meth)
            if not found or not any(ast.unparse(d) == "classmethod" for d in found[1].decorator_list):
                return None
            try:
                cs = Evaluator(self.index, found[0].module, found[1], f"{found[0].qual}.{meth}", found[0]).run()
            except (AnalysisError, RecursionError):
                return None
            rets = [e for e in cs.events if e.kind == "return"]
            if len(rets) != 1 or any(e.kind == "raise" for e in cs.events) or not cs.params:
                return None
            t = rets[0].term
            c0 = ("param", cs.params[0])
            if t[0] == "attr" and t[2] == "default" and t[1][0] == "sub" and t[1][1] == ("attr", c0, "model_fields") \
                    and t[1][2][0] == "const" and isinstance(t[1][2][1], str):
                fname = t[1][2][1]
                for c in ci.mro():
                    for st in c.node.body:
                        if isinstance(st, ast.AnnAssign) and isinstance(st.target, ast.Name) and st.target.id == fname:
                            if isinstance(st.value, ast.Constant):
                                return ("const", st.value.value)
                            return None
        return None

    def _getter_global(self, f):
        """`_get = operator.attrgetter("a.b")` at module level: the term of the getter call it is bound to"""
        try:
            modname, name = f[1].split(":")
            m, node = self.index.need_assign(modname, name)
        except (AnalysisError, ValueError):
            return f
        if isinstance(node, ast.Call) and all(isinstance(a, ast.Constant) for a in node.args) and not node.keywords:
            fn = self.index.resolve_expr(m, node.func)
            if fn is not None and fn.kind == "ext" and fn.qual[4:] in ("operator.attrgetter", "operator.itemgetter"):
                return ("call", ("ext", fn.qual[4:]), tuple(("const", a.value) for a in node.args), ())
        return f

    def _dict_view(self, t):
        """(P, fn) when t enumerates the **kwargs dict P in item order: fn(e) is t's element for the item e = (key, value)"""
        def is_kw(x):
            return x[0] == "param" and x[1].startswith("**")
        if is_kw(t):
            return t, (lambda e: ("sub", e, ("const", 0)))
        if t[0] == "call" and t[1][0] == "attr" and is_kw(t[1][1]) and not t[2] and not t[3]:
            if t[1][2] == "keys":
                return t[1][1], (lambda e: ("sub", e, ("const", 0)))
            if t[1][2] == "values":
                return t[1][1], (lambda e: ("sub", e, ("const", 1)))
            if t[1][2] == "items":
                return t[1][1], (lambda e: e)
        if t[0] == "comp" and t[1] == "gen" and len(t[3]) == 1 and not t[3][0][2]:
            inner = self._dict_view(t[3][0][1])
            if inner is not None:
                lid, elt = t[3][0][0], t[2]
                return inner[0], (lambda e, lid=lid, elt=elt, g=inner[1]: fold_sub(subst(elt, {("elem", lid): g(e)})))
        return None

    def _zip_elem(self, el, it):
        """the element of a loop over zip(a, b, ...) as the tuple of its components (so that `m[pair]` is `m[i, j]`)"""
        if it[0] == "call" and it[1] == ("builtin", "zip") and len(it[2]) >= 2 and not it[3] and not any(a[0] == "star" for a in it[2]):
            return ("tuple", tuple(("sub", el, ("const", i)) for i in range(len(it[2]))))
        return el

    @staticmethod
    def _ite_leaves(t):
        if t[0] == "ite":
            return Evaluator._ite_leaves(t[2]) + Evaluator._ite_leaves(t[3])
        return [t]

    def _emit_lambda_calls(self, fn, arg_terms, live, n):
        """the calls a local function makes, re-emitted where it is applied (so that call-site rules see them)"""
        if fn[0] != "lambda" or fn[1] not in self.lambdas:
            return
        ls = self.lambdas[fn[1]]
        if len(ls.params) != len(arg_terms):
            return
        mp = {("param", p): a for p, a in zip(ls.params, arg_terms)}
        for e in ls.events:
            if e.kind == "call" and not e.loops:
                ev = self.emit("call", AND(live, subst(e.live, mp)), self._fold_records(fold_sub(subst(e.term, mp))), n)
                ev.kw_order = getattr(e, "kw_order", [])  # type: ignore[attr-defined]

    def _apply_once(self, fn, item, live, n):
        """fn(item), evaluated here: the value, with the call (or the calls an inlined / local function makes) emitted"""
        v = self._apply_fn(fn, [item])
        if fn[0] == "lambda" and not (v[0] == "call" and v[1] == fn):
            self._emit_lambda_calls(fn, [item], live, n)
            return v
        if v[0] == "call" and v[1] == fn:
            t = ("call", fn, (item,), ())
            inl = self._try_inline(fn, t, live, n)
            if inl is not None:
                return inl
            ev = self.emit("call", live, t, n)
            ev.kw_order = []  # type: ignore[attr-defined]
            return t
        return v

    def _apply_in_loop(self, fn, el, lid, live, n):
        """fn(el) evaluated once per element of loop `lid`: the call is an event of that loop (as in a comprehension)"""
        v = self._apply_fn(fn, [el])
        if fn[0] == "lambda" and not (v[0] == "call" and v[1] == fn):
            self.loop_stack.append(lid)
            try:
                self._emit_lambda_calls(fn, [el], AND(live, ("inloop", lid)), n)
            finally:
                self.loop_stack.pop()
        if v[0] == "call" and v[1] == fn:
            self.loop_stack.append(lid)
            try:
                t = ("call", fn, (el,), ())
                if fn[0] == "call" and fn[1] == ("ext", "functools.partial") and fn[2]:
                    # map(partial(g, a, b, **kw), xs): g(a, b, x, **kw) per element
                    nm = sorted([kv for kv in fn[3] if kv[0] != "**"], key=lambda kv: kv[0])
                    t = ("call", fn[2][0], tuple(fn[2][1:]) + (el,), tuple(nm + [kv for kv in fn[3] if kv[0] == "**"]))
                    fn = fn[2][0]
                    v = t
                inl = self._try_inline(fn, t, AND(live, ("inloop", lid)), n)
                if inl is not None:
                    return inl
                ev = self.emit("call", AND(live, ("inloop", lid)), t, n)
                ev.kw_order = []  # type: ignore[attr-defined]
            finally:
                self.loop_stack.pop()
        return v

    def _norm_call(self, f, args, named, spreads, live, n):
        plain = not named and not spreads and not any(a[0] == "star" for a in args)
        # Class.tag() of a tagged-union member is the constant tag the class declares
        if f[0] == "attr" and f[1][0] == "global" and f[1][2] == "class" and plain and not args and ":" in f[1][1]:
            ci_ = self.index.class_by_qual(f[1][1])
            tg_ = self._class_tag(ci_, f[2]) if ci_ is not None else None
            if tg_ is not None:
                return tg_
        # getattr(x, "name") is x.name
        if f == ("builtin", "getattr") and "getattr" not in self.env and plain and len(args) == 2 and args[1][0] == "const" \
                and isinstance(args[1][1], str) and args[1][1].isidentifier():
            return ("attr", args[0], args[1][1])
        # list(record) / tuple(record) is the display of its fields
        if f in (("builtin", "list"), ("builtin", "tuple")) and plain and len(args) == 1 and args[0][0] == "call" and self._is_record(args[0]) \
                and f[1] not in self.env:
            ci_ = self.index.class_by_qual(args[0][1][1])
            rv_ = self._record_values(ci_, args[0]) if any(b.split(".")[-1] == "NamedTuple" for b in ci_.ext_bases) else None
            if rv_ is not None:
                return (f[1], tuple(rv_.values()))
        # tuple([a, b]) / list((a, b)) / set([a, b]) of a display is the display of the other kind
        if f in (("builtin", "tuple"), ("builtin", "list"), ("builtin", "set")) and f[1] not in self.env and plain and len(args) == 1 \
                and args[0][0] in ("tuple", "list") and not any(x[0] == "star" for x in args[0][1]) and (args[0][1] or f[1] != "list"):
            return (f[1], args[0][1])
        # list(<generator expression>) is the list comprehension (same for set / dict of pairs)
        if f in (("builtin", "list"), ("builtin", "set")) and plain and len(args) == 1 and args[0][0] == "comp" and args[0][1] == "gen" \
                and f[1] not in self.env:
            return ("comp", f[1], args[0][2], args[0][3])
        if f == ("builtin", "dict") and "dict" not in self.env:
            if plain and len(args) == 1 and args[0][0] == "comp" and args[0][1] == "gen" and args[0][2][0] == "tuple" and len(args[0][2][1]) == 2:
                return ("comp", "dict", ("kv", args[0][2][1][0], args[0][2][1][1]), args[0][3])
            if not args and not any(a[0] == "star" for a in args):
                # dict(a=1, **b) is the display {"a": 1, **b}
                items = [(("const", k), v) for k, v in named] + [(("dstar",), v) for _, v in spreads]
                if items:
                    return fold_sub(("dict", tuple(items)))
        # {"a": x, "b": y}.values() / .keys() / .items() of a dict display are the displays of its parts
        if f[0] == "attr" and f[2] in ("values", "keys", "items") and f[1][0] == "dict" and plain and not args \
                and f[1][1] and not any(k_[0] == "dstar" for k_, _ in f[1][1]):
            if f[2] == "values":
                return ("tuple", tuple(v_ for _, v_ in f[1][1]))
            if f[2] == "keys":
                return ("tuple", tuple(k_ for k_, _ in f[1][1]))
            return ("tuple", tuple(("tuple", (k_, v_)) for k_, v_ in f[1][1]))
        # any(c(x) for x in (a, b)) is c(a) or c(b); all(...) likewise
        if f in (("builtin", "any"), ("builtin", "all")) and f[1] not in self.env and plain and len(args) == 1 and args[0][0] == "comp" \
                and len(args[0][3]) == 1 and not args[0][3][0][2] and args[0][3][0][1][0] in ("tuple", "list") \
                and 0 < len(args[0][3][0][1][1]) <= 8 and not any(x[0] == "star" for x in args[0][3][0][1][1]):
            lid0 = args[0][3][0][0]
            parts = [subst(args[0][2], {("elem", lid0): item}) for item in args[0][3][0][1][1]]
            return OR(*parts) if f[1] == "any" else AND(*parts)
        # any((a, b)) over a display of conditions is a or b (a generator over a display arrives here as that display)
        if f in (("builtin", "any"), ("builtin", "all")) and f[1] not in self.env and plain and len(args) == 1 and args[0][0] in ("tuple", "list") \
                and 0 < len(args[0][1]) <= 8 and not any(x[0] == "star" for x in args[0][1]):
            return OR(*args[0][1]) if f[1] == "any" else AND(*args[0][1])
        # functools.reduce(f, (a, b, c)[, init]) over a display is f(f(a, b), c)
        if f == ("ext", "functools.reduce") and plain and len(args) in (2, 3) and args[1][0] in ("tuple", "list") and 0 < len(args[1][1]) <= 8 \
                and not any(x[0] == "star" for x in args[1][1]):
            items_ = list(args[1][1])
            acc_ = args[2] if len(args) == 3 else items_.pop(0)
            for it_ in items_:
                acc_ = self._fold_records(fold_sub(self._apply_fn(args[0], [acc_, it_])))
            return acc_
        # S.isdisjoint({a, b}) is not (a in S or b in S)
        if f[0] == "attr" and f[2] == "isdisjoint" and plain and len(args) == 1 and args[0][0] in ("set", "tuple", "list") \
                and 0 < len(args[0][1]) <= 8 and not any(x[0] == "star" for x in args[0][1]):
            return NOT(OR(*[mk_cmp("in", x, f[1]) for x in args[0][1]]))
        # itertools.filterfalse(p, xs) is (x for x in xs if not p(x))
        if f == ("ext", "itertools.filterfalse") and plain and len(args) == 2:
            lid = self.fresh("L")
            el = ("elem", lid)
            self.loops[lid] = LoopInfo(lid, "comp", args[1], n, self.loop_stack[-1] if self.loop_stack else None, "_")
            cond = NOT(el) if args[0] == NONE else NOT(self._apply_in_loop(args[0], self._zip_elem(el, args[1]), lid, live, n))
            self.loops[lid].conds = (cond,)
            return ("comp", "gen", el, ((lid, args[1], (cond,)),))
        # zip(*pair) with a call known to return a pair is zip(pair[0], pair[1])
        if f == ("builtin", "zip") and "zip" not in self.env and not named and not spreads and len(args) == 1 and args[0][0] == "star" \
                and args[0][1][0] == "call" and args[0][1][1][0] == "ext" and args[0][1][1][1] in EXT_RETURNS_TUPLE:
            k = EXT_RETURNS_TUPLE[args[0][1][1][1]]
            t_ = ("call", f, tuple(("sub", args[0][1], ("const", i)) for i in range(k)), ())
            ev_ = self.emit("call", live, t_, n)
            ev_.kw_order = []  # type: ignore[attr-defined]
            return t_
        # zip(xs, itertools.count()) pairs every x with its position: enumerate with the components swapped
        if f == ("builtin", "zip") and "zip" not in self.env and plain and len(args) == 2:
            cnt = [a == ("call", ("ext", "itertools.count"), (), ()) or a == ("call", ("ext", "itertools.count"), (("const", 0),), ()) for a in args]
            if cnt.count(True) == 1:
                xs = args[1] if cnt[0] else args[0]
                base, xelt, lid = xs, None, None
                if xs[0] == "comp" and xs[1] == "gen" and len(xs[3]) == 1 and not xs[3][0][2] and xs[3][0][0] in self.loops:
                    lid, base = xs[3][0][0], xs[3][0][1]
                    xelt = xs[2]
                en = ("call", ("builtin", "enumerate"), (base,), ())
                if lid is None:
                    lid = self.fresh("L")
                    self.loops[lid] = LoopInfo(lid, "comp", en, n, self.loop_stack[-1] if self.loop_stack else None, "_")
                    item = ("sub", ("elem", lid), ("const", 1))
                else:
                    # the generator's own loop now runs over enumerate(base): its element is component 1
                    item = fold_sub(subst(xelt, {("elem", lid): ("sub", ("elem", lid), ("const", 1))}))
                    self.loops[lid].iter = en
                    for e_ in self.events:
                        if lid in e_.loops:
                            e_.term = subst(e_.term, {("elem", lid): ("sub", ("elem", lid), ("const", 1))})
                            e_.live = subst(e_.live, {("elem", lid): ("sub", ("elem", lid), ("const", 1))})
                idx = ("sub", ("elem", lid), ("const", 0))
                return ("comp", "gen", ("tuple", (idx, item) if cnt[0] else (item, idx)), ((lid, en, ()),))
        # zip / map over several views of one **kwargs dict (d, d.keys(), d.values(), d.items(), generators over them) walk the
        # dict's items in lock step: one generator over d.items()
        if f in (("builtin", "zip"), ("builtin", "map")) and f[1] not in self.env and plain:
            its = args if f[1] == "zip" else args[1:]
            views = [self._dict_view(a) for a in its]
            if len(its) >= 2 and all(v is not None for v in views) and len({v[0] for v in views}) == 1:
                P = views[0][0]
                items = ("call", ("attr", P, "items"), (), ())
                lid = self.fresh("L")
                el = ("elem", lid)
                self.loops[lid] = LoopInfo(lid, "comp", items, n, self.loop_stack[-1] if self.loop_stack else None, "_")
                comps = [v[1](el) for v in views]
                if f[1] == "zip":
                    return ("comp", "gen", ("tuple", tuple(comps)), ((lid, items, ()),))
                self.loop_stack.append(lid)
                try:
                    t_ = ("call", args[0], tuple(comps), ())
                    if args[0][0] == "call" and args[0][1] == ("ext", "functools.partial") and args[0][2]:
                        nm_ = sorted([kv for kv in args[0][3] if kv[0] != "**"], key=lambda kv: kv[0])
                        t_ = ("call", args[0][2][0], tuple(args[0][2][1:]) + tuple(comps), tuple(nm_ + [kv for kv in args[0][3] if kv[0] == "**"]))
                    v_ = self._apply_fn(args[0], comps) if args[0][0] in ("lambda",) else t_
                    if v_ is t_:
                        inl_ = self._try_inline(t_[1], t_, AND(live, ("inloop", lid)), n)
                        if inl_ is not None:
                            v_ = inl_
                        else:
                            ev_ = self.emit("call", AND(live, ("inloop", lid)), t_, n)
                            ev_.kw_order = []  # type: ignore[attr-defined]
                finally:
                    self.loop_stack.pop()
                return ("comp", "gen", v_, ((lid, items, ()),))
        # map(f, (a, b)) over a literal display is (f(a), f(b))
        if f == ("builtin", "map") and "map" not in self.env and plain and len(args) == 2 and args[1][0] in ("tuple", "list") \
                and 0 < len(args[1][1]) <= 8 and not any(x[0] == "star" for x in args[1][1]) and not self.loop_stack:
            return ("tuple", tuple(self._apply_once(args[0], item, live, n) for item in args[1][1]))
        # map(f, xs) / filter(p, xs) are generator expressions
        if f == ("builtin", "map") and "map" not in self.env and plain and len(args) == 2:
            lid = self.fresh("L")
            self.loops[lid] = LoopInfo(lid, "comp", args[1], n, self.loop_stack[-1] if self.loop_stack else None, "_")
            elt = self._apply_in_loop(args[0], ("elem", lid), lid, live, n)
            return ("comp", "gen", elt, ((lid, args[1], ()),))
        if f == ("builtin", "filter") and "filter" not in self.env and plain and len(args) == 2:
            lid = self.fresh("L")
            el = ("elem", lid)
            self.loops[lid] = LoopInfo(lid, "comp", args[1], n, self.loop_stack[-1] if self.loop_stack else None, "_")
            cond = el if args[0] == NONE else self._apply_in_loop(args[0], self._zip_elem(el, args[1]), lid, live, n)
            self.loops[lid].conds = (cond,)
            return ("comp", "gen", el, ((lid, args[1], (cond,)),))
        # functools.partial(helper, a, k=v) of a new helper function is the local function `lambda rest: helper(a, rest, k=v)`
        if f == ("ext", "functools.partial") and args and not spreads and not any(a[0] == "star" for a in args) \
                and self._inline_target(args[0]) is not None and len(self.inline_stack) < 4:
            module_, node_, qual_, cls_, selfterm_ = self._inline_target(args[0])
            if selfterm_ is None:
                try:
                    sub = Evaluator(self.index, module_, node_, qual_, cls_)
                    sub.inline_stack = self.inline_stack + (qual_,)
                    sub._n = self._n + 1000
                    cs = sub.run()
                except (AnalysisError, RecursionError):
                    cs = None
                if cs is not None and not cs.vararg and not cs.kwarg and len(args) - 1 <= len(cs.params) \
                        and all(k in cs.params[len(args) - 1:] for k, _ in named):
                    bound = {("param", p_): a_ for p_, a_ in zip(cs.params, args[1:])}
                    bound.update({("param", k): v for k, v in named})
                    rest = [p_ for p_ in cs.params if ("param", p_) not in bound]

                    def inst_(t):
                        return self._fold_records(fold_sub(subst(t, bound)))

                    ls = _bind_summary(cs, inst_)
                    ls.params = rest
                    ls.defaults = {k: v for k, v in ls.defaults.items() if k in rest}
                    lid = self.fresh("F")
                    self.lambdas[lid] = ls
                    return ("lambda", lid)
        # functools.partial(g, a, k=v)(b) is g(a, b, k=v)
        if f[0] == "call" and f[1] == ("ext", "functools.partial") and f[2]:
            spreads = [kv for kv in f[3] if kv[0] == "**"] + list(spreads)
            kws = dict(kv for kv in f[3] if kv[0] != "**")
            kws.update(dict(named))
            again = self._norm_call(f[2][0], list(f[2][1:]) + list(args), sorted(kws.items()), list(spreads), live, n)
            if again is not None:
                return again
            merged = ("call", f[2][0], tuple(f[2][1:]) + tuple(args), tuple(sorted(kws.items())) + tuple(spreads))
            inl = self._try_inline(merged[1], merged, live, n)
            if inl is not None:
                return inl
            ev = self.emit("call", live, merged, n)
            ev.kw_order = sorted(kws)  # type: ignore[attr-defined]
            return merged
        # operator.add(a, b) is a + b, operator.lt(a, b) is a < b, ...
        if f[0] == "ext" and f[1].startswith("operator.") and plain:
            name = f[1].split(".", 1)[1]
            if name in self.OPERATOR_BIN and len(args) == 2:
                return ("bin", self.OPERATOR_BIN[name], args[0], args[1])
            if name in self.OPERATOR_CMP and len(args) == 2:
                return mk_cmp(self.OPERATOR_CMP[name], args[0], args[1])
            if name == "contains" and len(args) == 2:
                return mk_cmp("in", args[1], args[0])
            if name == "getitem" and len(args) == 2:
                return ("sub", args[0], args[1])
            if name == "not_" and len(args) == 1:
                return NOT(args[0])
            if name == "neg" and len(args) == 1:
                return ("neg", args[0])
        # TABLE.get(key[, default]) on a constant module-level table
        if f[0] == "attr" and f[2] == "get" and f[1][0] == "global" and f[1][2] == "assign" and plain and len(args) in (1, 2):
            v = self._table_lookup(f[1], args[0], args[1] if len(args) == 2 else NONE)
            if v is not None:
                return v
        # calling a conditional choice of functions: (f if c else g)(x) is f(x) if c else g(x)
        if f[0] == "ite" and all(x[0] in ("global", "const", "lambda", "ext", "error") or (x[0] == "call" and x[1] == ("ext", "functools.partial"))
                                 for x in self._ite_leaves(f)):
            args0, named0 = list(args), list(named)

            def dist(fn, lv):
                nonlocal args, named
                if fn[0] == "ite":
                    return ITE(fn[1], dist(fn[2], AND(lv, fn[1])), dist(fn[3], AND(lv, NOT(fn[1]))))
                if fn[0] == "error":
                    return fn  # the lookup that chose the function failed: nothing is called
                if fn == NONE or fn[0] == "const":
                    return ("error", "call of a non-function")
                # arguments that were chosen by the same condition (a record's switch deciding what is passed)
                args = [prune(a, lv) if lv not in (TRUE, FALSE) and any(x[0] == "ite" for x in walk(a)) else a for a in args0]
                named = [(k_, prune(v_, lv) if lv not in (TRUE, FALSE) and any(x[0] == "ite" for x in walk(v_)) else v_) for k_, v_ in named0]
                if fn[0] == "call" and fn[1] == ("ext", "functools.partial") and fn[2]:
                    kws_ = dict(kv for kv in fn[3] if kv[0] != "**")
                    kws_.update(dict(named))
                    sp_ = [kv for kv in fn[3] if kv[0] == "**"] + list(spreads)
                    t2 = ("call", fn[2][0], tuple(fn[2][1:]) + tuple(args), tuple(sorted(kws_.items())) + tuple(sp_))
                    if lv == FALSE:
                        return t2
                    inl2 = self._try_inline(t2[1], t2, lv, n)
                    if inl2 is not None:
                        return inl2
                    ev3 = self.emit("call", lv, t2, n)
                    ev3.kw_order = sorted(kws_)  # type: ignore[attr-defined]
                    return t2
                if fn[0] == "lambda" and not named and not spreads:
                    v_ = self._apply_fn(fn, list(args))
                    if v_[0] == "call" and v_[1] != fn and lv != FALSE:
                        inl_ = self._try_inline(v_[1], v_, lv, n)
                        if inl_ is not None:
                            return inl_
                        ev2 = self.emit("call", lv, v_, n)
                        ev2.kw_order = [k for k, _ in v_[3]]  # type: ignore[attr-defined]
                    return v_
                t_ = ("call", fn, tuple(args), tuple(named + spreads))
                if lv == FALSE:
                    return t_
                inl = self._try_inline(fn, t_, lv, n)
                if inl is not None:
                    return inl
                ev_ = self.emit("call", lv, t_, n)
                ev_.kw_order = [k for k, _ in named]  # type: ignore[attr-defined]
                return t_
            return dist(f, live)
        # operator.methodcaller("m", a)(x) is x.m(a)
        if f[0] == "call" and f[1] == ("ext", "operator.methodcaller") and plain and len(args) == 1 and f[2] and f[2][0][0] == "const" \
                and isinstance(f[2][0][1], str) and not any(a_[0] == "star" for a_ in f[2]):
            v_ = ("call", ("attr", args[0], f[2][0][1]), tuple(f[2][1:]), tuple(f[3]))
            ev_ = self.emit("call", live, v_, n)
            ev_.kw_order = [k_ for k_, _ in f[3]]  # type: ignore[attr-defined]
            return v_
        # operator.itemgetter(k1, k2)(x) with any keys is (x[k1], x[k2])
        if f[0] == "call" and f[1] == ("ext", "operator.itemgetter") and plain and len(args) == 1 and len(f[2]) >= 2 and not f[3] \
                and not any(a_[0] == "star" for a_ in f[2]) and not all(k_[0] == "const" for k_ in f[2]):
            return ("tuple", tuple(("sub", args[0], k_) for k_ in f[2]))
        # operator.attrgetter("a.b")(x) is x.a.b ; operator.itemgetter(k)(x) is x[k]
        if f[0] == "call" and f[1] == ("ext", "operator.itemgetter") and plain and len(args) == 1 and len(f[2]) >= 2:
            v = self._apply_fn(f, args)
            if v[0] == "tuple":
                return v
        if f[0] == "call" and f[1] in (("ext", "operator.attrgetter"), ("ext", "operator.itemgetter")) and plain and len(args) == 1:
            v = self._apply_fn(f, args)
            if not (v[0] == "call" and v[1] == f):
                return v
        # rec._replace(f=v) is the record with that field changed
        if f[0] == "attr" and f[2] == "_replace" and not args and not spreads and named and f[1][0] in ("call", "ite") and self._is_record(f[1]):
            def repl(rec):
                if rec[0] == "ite":
                    a, b = repl(rec[2]), repl(rec[3])
                    return None if a is None or b is None else ITE(rec[1], a, b)
                ci = self.index.class_by_qual(rec[1][1])
                rv = self._record_values(ci, rec)
                if rv is None or not all(k in rv for k, _ in named):
                    return None
                rv.update(dict(named))
                return ("call", rec[1], tuple(rv.values()), ())

            out = repl(f[1])
            if out is not None:
                return out
        # "{}:{}".format(a, b) is the f-string
        if f[0] == "attr" and f[2] == "format" and f[1][0] == "const" and isinstance(f[1][1], str) and not spreads \
                and not any(a[0] == "star" for a in args):
            parts = self._format_parts(f[1][1], args, dict(named))
            if parts is not None:
                return ("fstr", tuple(parts))
        # shapely.centroid(x) is x.centroid, shapely.intersection(a, b) is a.intersection(b)
        if f[0] == "ext" and plain and _shapely_method_form(f, tuple(args)) is not None:
            v_ = _shapely_method_form(f, tuple(args))
            if v_[0] == "call":
                ev_ = self.emit("call", live, v_, n)
                ev_.kw_order = []  # type: ignore[attr-defined]
            return v_
        # typing.get_args(Alias) of a module-level `Alias = Literal[...]` is the tuple of its values
        if f in (("ext", "typing.get_args"), ("ext", "typing_extensions.get_args")) and plain and len(args) == 1 and args[0][0] == "global" and args[0][2] == "assign":
            try:
                m_, node_ = self.index.need_assign(*args[0][1].split(":"))
            except (AnalysisError, ValueError):
                node_ = None
            if isinstance(node_, ast.Subscript) and ast.unparse(node_.value).split(".")[-1] == "Literal":
                elts_ = node_.slice.elts if isinstance(node_.slice, ast.Tuple) else [node_.slice]
                if all(isinstance(x_, ast.Constant) for x_ in elts_):
                    return ("tuple", tuple(("const", x_.value) for x_ in elts_))
        # Cls.geom_type() of a geometry class is its type tag (BaseGeometry.geom_type returns the default of the `type` field: R03.1)
        if f[0] == "attr" and f[2] == "geom_type" and f[1][0] == "global" and f[1][2] == "class" and plain and not args:
            ci_ = self.index.class_by_qual(f[1][1])
            for c_ in (ci_.mro() if ci_ is not None else ()):
                for st_ in c_.node.body:
                    if isinstance(st_, ast.AnnAssign) and isinstance(st_.target, ast.Name) and st_.target.id == "type" and isinstance(st_.value, ast.Constant) \
                            and isinstance(st_.value.value, str):
                        return ("const", st_.value.value)
        # ":".join(["a", str(x), str(y)]) over a display of constants and str(...) items is the f-string f"a:{x}:{y}"
        if f[0] == "attr" and f[2] == "join" and f[1][0] == "const" and isinstance(f[1][1], str) and plain and len(args) == 1:
            v_ = _join_as_fstr(f[1][1], args[0])
            if v_ is not None:
                return v_
        return None

    @staticmethod
    def _format_parts(fmt, args, kws):
        import string
        out = []
        auto = 0
        try:
            for lit, field, spec, conv in string.Formatter().parse(fmt):
                if lit:
                    out.append(("const", lit))
                if field is None:
                    continue
                if spec or conv not in (None, "s", "r") or any(ch in field for ch in ".["):
                    return None
                if field == "":
                    if auto >= len(args):
                        return None
                    out.append(args[auto])
                    auto += 1
                elif field.isdigit():
                    if int(field) >= len(args):
                        return None
                    out.append(args[int(field)])
                elif field in kws:
                    out.append(kws[field])
                else:
                    return None
        except ValueError:
            return None
        return out

    def _reference_spelling(self, qual, args, named):
        """A call to a reference function passes each argument positionally or by keyword as the reference tree's call sites do
        (the same caller's site when there is one, else the most common spelling): `f(geom=g)` and `f(g)` are one call."""
        from .alias import CALLS
        ent = CALLS.get(qual)
        if not ent or not ent.get("sites") or "npos" not in ent["sites"][0]:
            return args, named
        params = ent["params"]
        mine = [s_["npos"] for s_ in ent["sites"] if s_["caller"] == self.qual.split("@")[0]]
        pool = mine if mine and len(set(mine)) == 1 else [s_["npos"] for s_ in ent["sites"]]
        want = max(set(pool), key=lambda v_: (pool.count(v_), -v_))
        if len(args) > len(params):
            return args, named
        bound = dict(zip(params, args))
        for k_, v_ in named:
            if k_ not in params or k_ in bound:
                return args, named
            bound[k_] = v_
        # an argument that passes the callee's own (constant) default is the same call as one that omits it
        try:
            _, fn_ = self.index.need_func(*qual.split(":"))
            a_ = fn_.args
            pos_ = list(a_.posonlyargs) + list(a_.args)
            dflt_ = {p_.arg: d_ for p_, d_ in zip(pos_[len(pos_) - len(a_.defaults):], a_.defaults)}
            dflt_.update({p_.arg: d_ for p_, d_ in zip(a_.kwonlyargs, a_.kw_defaults) if d_ is not None})
        except Exception:  # noqa: BLE001
            dflt_ = {}
        for p_ in reversed(params):
            d_ = dflt_.get(p_)
            if p_ in bound and isinstance(d_, ast.Constant) and bound[p_] == ("const", d_.value) and type(bound[p_][1]) is type(d_.value):
                # only trailing ones when positional: a dropped middle argument would shift the rest
                if all(q_ not in bound for q_ in params[params.index(p_) + 1:]) or params.index(p_) >= want:
                    del bound[p_]
        new_args = []
        for p_ in params[:want]:
            if p_ not in bound:
                break
            new_args.append(bound.pop(p_))
        if len(new_args) < len(args):
            # more positional arguments than the reference spelling: keep the extra ones as keywords only if that is unambiguous
            pass
        return new_args, sorted(bound.items(), key=lambda kv: kv[0])

    # ------------------------------------------------------------------ helper inlining
    def _overridden_below(self, ci, meth) -> bool:
        cache = self.index.__dict__.setdefault("_overrides", {})
        key = (ci.qual, meth)
        if key not in cache:
            hit = False
            for c in self.index.all_classes():
                if c is not ci and meth in c.methods:
                    try:
                        if ci in c.mro()[1:]:
                            hit = True
                            break
                    except Exception:  # noqa: BLE001
                        continue
            cache[key] = hit
        return cache[key]

    def _inline_target(self, f):
        """(module, def node, qual, class, bound-self term) of a helper the call resolves to, else None.

        A helper is an in-package function or a method of the caller's own class that does not exist on the
        reference tree (sa/pinned_names.json): the rules cannot know it by name, so they must see through it."""
        cls = None
        node = None
        selfterm = None
        force = False
        if f[0] == "global" and f[2] == "func" and ":" in f[1]:
            modname, fname = f[1].split(":")
            if fname.endswith("@reference"):
                fname, force = fname[:-len("@reference")], True
            module = self.index.modules.get(modname)
            if module is None:
                return None
            if "." in fname:
                cname, mname = fname.split(".", 1)
                ci = module.classes.get(cname)
                if ci is None or mname not in ci.methods:
                    return None
                node = pick_def(ci.methods[mname])
                cls = ci
                if not any(ast.unparse(d) == "staticmethod" for d in node.decorator_list):
                    return None
            else:
                defs = [d for d in module.defs.get(fname, []) if isinstance(d, ast.FunctionDef)]
                if not defs:
                    return None
                node = pick_def(defs)
        elif f[0] == "attr" and f[1][0] == "global" and f[1][2] == "class" and ":" in f[1][1]:
            # Class.classmethod(...) of a class introduced after the reference tree
            modname, cname = f[1][1].split(":")
            module = self.index.modules.get(modname)
            ci = module.classes.get(cname) if module is not None else None
            if ci is None or f[2] not in ci.methods:
                return None
            node = pick_def(ci.methods[f[2]])
            if not any(ast.unparse(d) == "classmethod" for d in node.decorator_list):
                return None
            cls = ci
            fname = f"{cname}.{f[2]}"
            selfterm = f[1]
        elif f[0] == "attr" and f[1][0] == "param" and f[1][1] in self.param_classes and f[1] not in (("param", "self"), ("param", "cls")):
            # a method of the class a parameter is declared as
            found = self.param_classes[f[1][1]].find_method(f[2])
            if not found:
                return None
            cls, node = found
            module = cls.module
            fname = f"{cls.name}.{f[2]}"
            modname = module.name
            selfterm = f[1]
            if any(ast.unparse(d) in ("staticmethod", "classmethod") for d in node.decorator_list):
                return None
        elif f[0] == "attr" and ((f[1] in self.rec_types and f[2] in self.rec_types[f[1]].methods)
                                 or (f[1][0] == "call" and self._is_record(f[1]) and f[2] in self.index.class_by_qual(f[1][1][1]).methods)):
            # a method of a record (NamedTuple / dataclass value whose fields are known): its body with self bound to the record
            cls = self.rec_types[f[1]] if f[1] in self.rec_types else self.index.class_by_qual(f[1][1][1])
            node = pick_def(cls.methods[f[2]])
            if any(ast.unparse(d) in ("staticmethod", "classmethod", "property") for d in node.decorator_list):
                return None
            module = cls.module
            fname = f"{cls.name}.{f[2]}"
            modname = module.name
            selfterm = f[1]
        elif f[0] == "attr" and f[1][0] == "global" and f[1][2] == "class" and self._is_record(("call", f[1], (), ())) \
                and self.index.class_by_qual(f[1][1]) is not None and f[2] in self.index.class_by_qual(f[1][1]).methods:
            # a classmethod of a record class called on the class (`Bounds.of(geometry)`): its body with cls bound to the class
            cls = self.index.class_by_qual(f[1][1])
            node = pick_def(cls.methods[f[2]])
            if not any(ast.unparse(d) == "classmethod" for d in node.decorator_list):
                return None
            module = cls.module
            fname = f"{cls.name}.{f[2]}"
            modname = module.name
            selfterm = f[1]
        elif f[0] == "attr" and f[1] in (("param", "self"), ("param", "cls")) and self.cls is not None:
            rcls = getattr(self, "dyn_cls", None) or self.cls
            found = rcls.find_method(f[2])
            if not found:
                return None
            cls, node = found
            if getattr(self, "dyn_cls", None) is None and not getattr(self, "_resolving_alias", False) and self._overridden_below(self.cls, f[2]):
                return None  # a subclass supplies its own version: which body runs depends on the receiver
            module = cls.module
            fname = f"{cls.name}.{f[2]}"
            modname = module.name
            selfterm = f[1]
        else:
            return None
        if (fname in PINNED.get(modname, ()) and not force) or f"{modname}:{fname}" in OPAQUE:
            return None
        if "." in fname:
            # a method of a reference class that moved to another module is still that reference method
            from .index import Index as _Ix
            cq_ = _Ix.canonical_qual(self.index, "class", f"{modname}:{fname.split('.')[0]}")
            if cq_.split(":")[0] != modname and fname in PINNED.get(cq_.split(":")[0], ()):
                return None
        decos = [ast.unparse(d) for d in node.decorator_list]
        if any(d not in ("staticmethod", "classmethod") for d in decos):
            return None
        if "staticmethod" in decos:
            selfterm = None
        elif cls is not None and selfterm is None:
            return None
        return module, node, f"{modname}:{fname}" + ("@reference" if force else ""), cls, selfterm

    def _prepare_inline(self, f, call_term, generator_ok=False, search_ok=False):
        """Resolve, summarise and instantiate a helper call: -> (callee summary, inst(term), id map, qual) or None.
        Registers the callee's loops / tries / lambdas (renamed) in this evaluator."""
        if f[0] == "lambda" and f[1] in self.lambdas and self.lambdas[f[1]].is_generator:
            # a local generator function: its summary was taken where it is defined (closure values included)
            cs = self.lambdas[f[1]]
            qual, selfterm = cs.qual, None
        else:
            tgt = self._inline_target(f)
            if tgt is None:
                return None
            module, node, qual, cls, selfterm = tgt
            if qual in self.inline_stack or len(self.inline_stack) >= 4:
                return None
            sub = Evaluator(self.index, module, node, qual, cls)
            sub.inline_stack = self.inline_stack + (qual,)
            if selfterm in (("param", "self"), ("param", "cls")):
                sub.dyn_cls = getattr(self, "dyn_cls", None) or self.cls  # the class of the receiver: class-level tables are read from it
            try:
                cs = sub.run()
            except (AnalysisError, RecursionError):
                return None
            self.inlined += [qual] + list(cs.inlined)
        params = list(cs.params)
        bound: Dict[tuple, tuple] = {}
        if selfterm is not None:
            if not params:
                return None
            bound[("param", params[0])] = selfterm
            params = params[1:]
        if any(a[0] == "star" for a in call_term[2]):
            return None
        if cs.vararg:
            # f(a, b, c) for `def f(a, *rest)`: rest is the tuple of the remaining positional arguments
            vname = cs.vararg if isinstance(cs.vararg, str) else None
            if vname is None or vname in params:
                return None
            bound[("param", vname)] = ("tuple", tuple(call_term[2][len(params):]))
            bound[("param", "*" + vname)] = bound[("param", vname)]
        elif len(call_term[2]) > len(params):
            return None
        for p, a in zip(params, call_term[2]):
            bound[("param", p)] = a
        extra_items = []
        kws = []
        for k, v in call_term[3]:
            if k == "**":
                # a spread of a dict display with constant string keys is a set of ordinary keywords
                if v[0] == "dict" and all(kk[0] == "const" and isinstance(kk[1], str) for kk, _ in v[1]):
                    kws += [(kk[1], vv) for kk, vv in v[1]]
                elif cs.kwarg and v[0] == "dict":
                    extra_items += list(v[1])
                elif cs.kwarg:
                    extra_items.append((("dstar",), v))
                else:
                    return None
            else:
                kws.append((k, v))
        for k, v in kws:
            if ("param", k) in bound:
                return None
            if k in params:
                bound[("param", k)] = v
            elif cs.kwarg:
                extra_items.append((("const", k), v))
            else:
                return None
        if cs.kwarg:
            bound[("param", "**" + cs.kwarg)] = ("dict", tuple(extra_items))
        for p in params:
            if ("param", p) not in bound:
                if p not in cs.defaults:
                    return None
                bound[("param", p)] = cs.defaults[p]
        if any(r.loops for r in cs.returns) and not (generator_ok and cs.is_generator) and not (search_ok and _search_helper_shape(cs) is not None):
            return None  # a return from inside a loop has no value term (in a generator it ends the iteration: see _splice_generator)
        self._n += 1
        tag = f"i{self._n}"
        idmap: Dict[str, str] = {}
        for lid in cs.loops:
            idmap[lid] = tag + lid
        for tid, ti in cs.tries.items():
            idmap[tid] = tag + tid
            for hid, _ in ti.handlers:
                idmap[hid] = tag + hid
        for lid in cs.lambdas:
            idmap[lid] = tag + lid

        def inst(t):
            return self._fold_records(fold_sub(subst(_rename_ids(t, idmap, tag), bound)))

        for t_, ci_ in cs.rec_types.items():
            if t_[0] == "tuple":
                self.rec_types.setdefault(inst(t_), ci_)
        for t_, n_ in cs.unpacked.items():
            self.unpacked.setdefault(inst(t_), n_)
        return cs, inst, idmap, qual

    def _fold_records(self, t):
        """After a substitution: Rec(a, b).field -> a / b and Rec(a, b)[i] -> the i-th field, for NamedTuple records;
        a call whose function became known (an attrgetter, a lambda, a new pure helper passed as an argument) is applied."""
        if not isinstance(t, tuple) or not t:
            return t
        t = tuple(self._fold_records(c) if isinstance(c, tuple) else c for c in t)
        if isinstance(t[0], str) and t[0] == "call" and t[1] in (("builtin", "list"), ("builtin", "tuple")) and len(t[2]) == 1 and not t[3] \
                and t[2][0][0] == "call" and self._is_record(t[2][0]):
            # list(Rec(a, b)) after a substitution: the display of the fields in declaration order
            ci_ = self.index.class_by_qual(t[2][0][1][1])
            rv_ = self._record_values(ci_, t[2][0]) if ci_ is not None and any(b.split(".")[-1] == "NamedTuple" for b in ci_.ext_bases) else None
            if rv_ is not None:
                return (t[1][1], tuple(rv_.values()))
        if isinstance(t[0], str) and t[0] == "call" and not t[3] and not any(a[0] == "star" for a in t[2]):
            fn = t[1]
            if fn[0] == "lambda" or (fn[0] == "call" and fn[1] in (("ext", "operator.attrgetter"), ("ext", "operator.itemgetter"))):
                v = self._apply_fn(fn, list(t[2]))
                if not (v[0] == "call" and v[1] == fn):
                    return v
            elif fn[0] == "global" and fn[2] == "func" and self._inline_target(fn) is not None:
                v = expand_pure_calls(t, _SummariesShim(self), None, self.module)
                if v != t:
                    return v
        if isinstance(t[0], str) and t[0] in ("attr", "sub") and t[1][0] == "ite" and self._is_record(t[1]):
            # a field of a conditional choice of records: the conditional choice of that field
            if t[0] == "attr":
                v = self._record_get(t[1], attr=t[2])
            elif t[2][0] == "const" and isinstance(t[2][1], int) and not isinstance(t[2][1], bool):
                v = self._record_get(t[1], index=t[2][1])
            else:
                v = None
            return t if v is None else v
        if isinstance(t[0], str) and t[0] in ("attr", "sub") and t[1][0] == "call" and t[1][1][0] == "global" and t[1][1][2] == "class":
            if t[0] == "attr":
                v = self._record_get(t[1], attr=t[2]) if self._is_record(t[1]) else None
                return t if v is None else v
            ci = self.index.class_by_qual(t[1][1][1])
            if ci is not None and any(b.split(".")[-1] == "NamedTuple" for b in ci.ext_bases) and not ci.bases \
                    and t[2][0] == "const" and isinstance(t[2][1], int) and not isinstance(t[2][1], bool):
                rv = self._record_values(ci, t[1])
                if rv is not None and -len(rv) <= t[2][1] < len(rv):
                    return list(rv.values())[t[2][1]]
        return t

    def _register_inlined(self, cs, inst, idmap):
        top = self.loop_stack[-1] if self.loop_stack else None
        for lid, li in cs.loops.items():
            nl = LoopInfo(idmap[lid], li.kind, inst(li.iter), li.node, idmap[li.parent] if li.parent in idmap else top,
                          li.target_text, tuple(inst(c) for c in li.conds), li.assigned, li.has_else)
            be = getattr(li, "body_env", None)
            if be is not None:
                nl.body_env = {k: inst(v) for k, v in be.items()}  # type: ignore[attr-defined]
            self.loops[nl.id] = nl
        for tid, ti in cs.tries.items():
            self.tries[idmap[tid]] = TryInfo(idmap[tid], ti.node, [(idmap[h], names) for h, names in ti.handlers],
                                             {idmap[h]: inst(v) for h, v in ti.falls.items()})
        for lid, ls in cs.lambdas.items():
            self.lambdas[idmap[lid]] = _inst_summary(ls, inst)
        for k, v in cs.nested.items():
            self.nested.setdefault(k, v)

    def _reemit(self, e, live, inst, idmap, qual):
        if e.kind in ("raise", "call") and AND(live, inst(e.live)) == FALSE:
            # a path of the helper that the arguments of this call rule out (`if axis not in ("time", "frequency"): raise` with axis="time")
            return Event(e.kind, FALSE, inst(e.term), e.node, (), -1)
        lv_ = AND(live, inst(e.live))
        if e.kind == "call":
            t_ = prune(inst(e.term), lv_)
            if t_[0] != "call":
                # the call was folded away by the substitution (`{"a": x}.get("a", d)` is x, any(<display>) is a condition): no call happens
                return Event(e.kind, FALSE, t_, e.node, (), -1)
        ne = Event(e.kind, lv_, prune(inst(e.term), lv_), e.node,
                   tuple(self.loop_stack) + tuple(idmap.get(x, x) for x in e.loops), len(self.events),
                   tuple(self.try_stack) + tuple(idmap.get(x, x) for x in e.handlers),
                   tuple(self.handler_stack) + tuple(idmap.get(x, x) for x in e.in_handler))
        ne.inlined_from = qual  # type: ignore[attr-defined]
        if hasattr(e, "kw_order"):
            ne.kw_order = e.kw_order  # type: ignore[attr-defined]
        self.events.append(ne)
        if e.kind == "raise" and not e.handlers and not e.loops:
            # what follows runs unless this raise fired: not (call-site condition and the helper's raise condition)
            self._post.append(NOT(AND(live, inst(e.live))))
        return ne

    def _alias_call(self, f, call_term):
        """g(Q...) as the call f(P...) of the reference function f that g replaces (sa/alias.py), else None"""
        self._resolving_alias = True  # (a renamed reference method is recognised by name and signature, whoever overrides it)
        try:
            tgt = self._inline_target(f)
        finally:
            self._resolving_alias = False
        if tgt is None:
            return None
        from . import alias
        al = alias.alias_of_target(self.index, tgt[2])
        if al is None:
            return None
        a = al.node.args
        ps = [p.arg for p in list(a.posonlyargs) + list(a.args) + list(a.kwonlyargs)]
        if tgt[4] is not None:
            ps = ps[1:]
        bound, extra, spreads, too_many = bind_args(call_term, ps)
        if extra or spreads or too_many:
            return None
        for q, dv in zip(reversed([p.arg for p in list(a.posonlyargs) + list(a.args)]), reversed(a.defaults)):
            if q not in bound and isinstance(dv, ast.Constant):
                bound[q] = ("const", dv.value)
        old = al.old_args({q: self._records_to_tuples(t) for q, t in bound.items()})
        if old is None:
            return None
        old = tuple(self._fold_records(fold_sub(t)) for t in old)
        oq = al.old_qual
        if "." in oq.split(":")[1]:
            recv = tgt[4] if tgt[4] is not None else ("param", "self")
            return ("call", ("attr", recv, oq.split(".")[-1]), old, ())
        return ("call", ("global", oq, "func"), old, ())

    def _try_inline(self, f, call_term, live, n, yield_from=False):
        al_ = self._alias_call(f, call_term)
        if al_ is not None:
            ev_ = self.emit("call", live, al_, n)
            ev_.kw_order = []  # type: ignore[attr-defined]
            return al_
        prep = self._prepare_inline(f, call_term, search_ok=True) if self._inline_target(f) is not None else None
        if prep is None:
            return None
        cs, inst, idmap, qual = prep
        if any(r.loops for r in cs.returns) and not cs.is_generator:
            return self._search_helper_as_next(cs, inst, idmap, qual, live)
        if cs.is_generator and not yield_from:
            # a helper generator is spliced where it is consumed (yield from / a for loop); elsewhere (next(...), list(...))
            # a simple one -- a single filtered loop around one yield -- is the generator expression it abbreviates
            return self._generator_as_genexp(cs, inst, idmap, qual, live)
        self._register_inlined(cs, inst, idmap)
        for e in cs.events:
            if e.kind == "return":
                continue
            self._reemit(e, live, inst, idmap, qual)
            if e.kind == "yield":
                self.is_generator = True
        self.inlined.append(qual)
        if cs.is_generator:
            return ("inlined_gen", qual)
        # value: conditional chain over the return statements; conditions that merely say "no raise happened" hold for
        # everything after the call anyway (see _post) and are dropped
        no_raise = set()
        for e in cs.events:
            if e.kind == "raise" and not e.handlers and not e.loops:
                no_raise |= set(conjuncts(NOT(e.live)))

        def strip(lv):
            return AND(*[c for c in conjuncts(lv) if c not in no_raise])

        vals = [(inst(strip(r.live)), inst(r.term)) for r in cs.raw_returns]
        if cs.fall_live != FALSE:
            vals.append((inst(strip(cs.fall_live)), NONE))
        if not vals:
            return NONE
        v = vals[-1][1]
        for lv, tm in reversed(vals[:-1]):
            v = ITE(lv, tm, v)
        # events carry records as tuples: a helper annotated `-> Rec` hands back records again
        rci = self._record_class_of_annotation(getattr(cs.node, "returns", None), cs.module)
        if rci is not None:
            nf = len([st for st in rci.node.body if isinstance(st, ast.AnnAssign)])

            def retype(x):
                if x[0] == "ite":
                    return ITE(x[1], retype(x[2]), retype(x[3]))
                if x[0] == "tuple" and len(x[1]) == nf:
                    return ("call", ("global", rci.qual, "class"), x[1], ())
                return x

            v = retype(v)
        return v

    def _search_helper_as_next(self, cs, inst, idmap, qual, live):
        """`def find(k): for row in T: if c(row, k): return v(row)` followed by `raise E(...)` (or `return d`): the call is
        next((v(row) for row in T if c(row, k)), <no match>) and the helper's closing raise fires where that is <no match>"""
        shape = _search_helper_shape(cs)
        if shape is None:
            return None
        ret, lid0, tail = shape
        self._register_inlined(cs, inst, idmap)
        nl = idmap[lid0]
        self.loops[nl].kind = "comp"
        for e in cs.events:
            if e.kind == "call" and lid0 in e.loops:
                self._reemit(e, live, inst, idmap, qual)
        conds = tuple(c for c in conjuncts(inst(ret.live)) if c != ("inloop", nl))
        self.loops[nl].conds = conds
        self.inlined.append(qual)
        tail_ret = [e for e in tail if e.kind == "return"]
        default = inst(tail_ret[0].term) if tail_ret else NO_MATCH
        v = ("call", ("builtin", "next"), (("comp", "gen", inst(ret.term), ((nl, self.loops[nl].iter, conds),)), default), ())
        ev = self.emit("call", live, v, ret.node)
        ev.kw_order = []  # type: ignore[attr-defined]
        if not tail_ret:
            miss = ("cmp", "is", v, NO_MATCH)
            for e in tail:
                self._reemit(e, AND(live, miss), inst, idmap, qual)
        return v

    def _generator_as_genexp(self, cs, inst, idmap, qual, live):
        ys = cs.yields
        if len(ys) != 1 or len(ys[0].loops) != 1 or ys[0].term[0] == "yieldfrom":
            return None
        y = ys[0]
        lid0 = y.loops[0]
        if cs.loops[lid0].kind != "for" or any(e.kind not in ("call", "continue", "yield", "return") for e in cs.events):
            return None
        # in front of the loop only what builds its iterable: zip / enumerate / range / len / sorted / reversed of the arguments
        if any(e.kind == "call" and lid0 not in e.loops and not (
                e.idx < y.idx and not e.loops and e.term[0] == "call" and e.term[1][0] == "builtin"
                and e.term[1][1] in ("zip", "enumerate", "range", "len", "sorted", "reversed", "list", "tuple")) for e in cs.events) \
                or any(e.idx > y.idx and e.kind == "call" for e in cs.events):
            return None
        self._register_inlined(cs, inst, idmap)
        nl = idmap[lid0]
        self.loops[nl].kind = "comp"
        for e in cs.events:
            if e.kind == "call":
                self._reemit(e, live, inst, idmap, qual)
        conj = list(conjuncts(inst(y.live)))
        conds = tuple(c for c in conj if c != ("inloop", nl))
        self.loops[nl].conds = conds
        self.inlined.append(qual)
        elt = self._retype(inst(y.term), self._record_class_of_annotation(getattr(cs.node, "returns", None), cs.module, element=True))
        return ("comp", "gen", elt, ((nl, self.loops[nl].iter, conds),))

    def _retype(self, v, rci):
        """events carry records as tuples: where the annotation says `Rec`, the value is a record again"""
        if rci is None:
            return v
        nf = len([st for st in rci.node.body if isinstance(st, ast.AnnAssign)])
        if v[0] == "ite":
            return ITE(v[1], self._retype(v[2], rci), self._retype(v[3], rci))
        if v[0] == "tuple" and len(v[1]) == nf:
            return ("call", ("global", rci.qual, "class"), v[1], ())
        return v

    def _splice_generator(self, call_term, live, depth=0):
        """Open up `helper(...)`, a new generator function with a single `yield v` / `yield from xs` inside its loop(s).

        Emits the helper's events that precede the yield, registers its loops, and returns (loop ids to enter, element
        value, condition under which an element is produced, events to emit after the consumer's body, qual) -- so that
        `for x in helper(...): body` reads as the helper's own loop with `body` in place of the yield.  A helper loop that
        itself iterates another such generator (a pipeline) is spliced recursively.  None = not that form."""
        if depth > 3 or call_term[0] != "call" or not self._is_helper_generator(call_term[1]):
            return None
        prep = self._prepare_inline(call_term[1], call_term, generator_ok=True)
        if prep is None:
            return None
        cs, inst, idmap, qual = prep
        if cs.is_generator and len(cs.yields) == 2:
            cs = _merge_two_yields(cs) or cs
        ys = cs.yields
        if not cs.is_generator or len(ys) != 1 or not ys[0].loops:
            return None
        y = ys[0]
        # `return` inside the generator's loop ends the iteration: it is the consumer loop's `break` -- in front of the yield at once,
        # after the yield (same loop) once the consumer's body has run; a `return` in front of the loop (no elements at all) is not read
        rets_ = [e for e in cs.of("return") if e.node is not None and isinstance(e.node, ast.Return)]
        if any((e.idx > y.idx and e.loops and tuple(e.loops) != tuple(y.loops)) or (e.idx < y.idx and not e.loops)
               or (e.loops and tuple(e.loops) != tuple(y.loops[:len(e.loops)])) for e in rets_):
            return None
        import dataclasses as _dc0
        after = [(_dc0.replace(e, kind="break", term=NONE) if e.kind == "return" else e) for e in cs.events
                 if e.idx > y.idx and (e.kind != "return" or (e in rets_ and e.loops))]
        if any(e.kind in ("store", "call", "raise", "yield") and set(y.loops) & set(e.loops) for e in after):
            return None  # work after the yield inside the loop would have to run after the consumer's body
        self._register_inlined(cs, inst, idmap)
        # pipeline: a loop of the helper that iterates another helper generator
        sub_map: Dict[tuple, tuple] = {}
        loop_repl: Dict[str, Tuple[str, ...]] = {}
        post_all = []
        for l in y.loops:
            nl = idmap[l]
            it = subst(self.loops[nl].iter, sub_map)
            inner = self._splice_generator(it, live, depth + 1) if it[0] == "call" else None
            if inner is not None:
                ilids, ival, ilive, ipost, _ = inner
                loop_repl[nl] = tuple(ilids)
                sub_map[("elem", nl)] = ival
                sub_map[("inloop", nl)] = AND(*[("inloop", x) for x in ilids], ilive)
                post_all = ipost + post_all
                del self.loops[nl]  # replaced by the inner generator's loops
            else:
                self.loops[nl].iter = it

        def inst2(t):
            t = subst(inst(t), sub_map)
            return self._fold_records(fold_sub(t)) if sub_map else t

        def flat(lids):
            out = []
            for x in lids:
                out += list(loop_repl.get(x, (x,)))
            return tuple(out)

        for e in cs.events:
            if e.idx < y.idx and e.kind == "return" and e.loops:
                import dataclasses as _dc
                e = _dc.replace(e, kind="break", term=NONE)
            if e.idx < y.idx and e.kind != "return":
                ne = self._reemit(e, live, inst2, idmap, qual)
                ne.loops = tuple(self.loop_stack) + flat(tuple(idmap.get(x, x) for x in e.loops))
                if sub_map:
                    ne.live = AND(*conjuncts(ne.live))  # re-flatten the substituted loop markers
        self.inlined.append(qual)
        yl = list(flat(tuple(idmap[l] for l in y.loops)))
        val, ylive = inst2(y.term), inst2(y.live)
        if val[0] == "yieldfrom":
            # `yield from xs` inside the loop: one more loop over xs
            xl = self.fresh("L")
            self.loops[xl] = LoopInfo(xl, "for", val[1], y.node, yl[-1] if yl else None, "_")
            yl.append(xl)
            ylive = AND(ylive, ("inloop", xl))
            val = ("elem", xl)
        post = [(e, inst2, idmap, qual) for e in after] + post_all
        val = self._retype(val, self._record_class_of_annotation(getattr(cs.node, "returns", None), cs.module, element=True))
        return yl, val, AND(*conjuncts(ylive)), post, qual

    def _element_record_class(self, it):
        """record class of the elements of an iterable term: from the return annotation of an in-package function, from
        the element of a comprehension / list, or (a + b) when all parts agree"""
        if it[0] == "call" and it[1][0] == "global" and it[1][2] == "func" and ":" in it[1][1]:
            modname, fname = it[1][1].split(":")
            try:
                m, fn = self.index.need_func(modname, fname)
            except AnalysisError:
                return None
            return self._record_class_of_annotation(fn.returns, m, element=True)
        if it[0] == "bin" and it[1] == "+":
            a, b = self._element_record_class(it[2]), self._element_record_class(it[3])
            return a if a is not None and b is not None and a.qual == b.qual else None
        elt = None
        if it[0] == "comp" and it[1] in ("list", "gen"):
            elt = it[2]
        elif it[0] == "list" and it[1]:
            elt = it[1][0]
        if elt is not None:
            if elt[0] == "call" and elt[1][0] == "global" and elt[1][2] == "class":
                ci = self.index.class_by_qual(elt[1][1])
                if ci is not None and not ci.bases and any(b.split(".")[-1] == "NamedTuple" for b in ci.ext_bases):
                    return ci
            return self.rec_types.get(elt)
        return None

    def _is_helper_generator(self, f) -> bool:
        return (f[0] == "lambda" and f[1] in self.lambdas and self.lambdas[f[1]].is_generator) or self._inline_target(f) is not None

    def _for_over_helper_generator(self, st, live):
        """`for x in helper(...): body` (the call written in place or held in a local): see _splice_generator.
        `for x in takewhile(p, helper(...))` is the same loop leaving at the first element that fails p."""
        if st.orelse:
            return None
        preds = []
        it_node = st.iter
        while isinstance(it_node, ast.Call) and len(it_node.args) == 2 and not it_node.keywords and isinstance(it_node.args[1], ast.Call):
            saved = len(self.events)
            f0 = self.ev(it_node.func, live)
            if f0 != ("ext", "itertools.takewhile"):
                del self.events[saved:]
                break
            preds.append(self.ev(it_node.args[0], live))
            it_node = it_node.args[1]
        if isinstance(it_node, ast.Call):
            saved = len(self.events)
            f = self.ev(it_node.func, live)
            if not self._is_helper_generator(f):
                del self.events[saved:]
                return None
            args = [self.ev(a, live) for a in it_node.args]
            kws = [(k.arg if k.arg is not None else "**", self.ev(k.value, live)) for k in it_node.keywords]
            named = sorted([kv for kv in kws if kv[0] != "**"], key=lambda kv: kv[0])
            call_term = ("call", f, tuple(args), tuple(named + [kv for kv in kws if kv[0] == "**"]))
        elif isinstance(st.iter, ast.Name) and self.env.get(st.iter.id, ("?",))[0] == "call":
            call_term = self.env[st.iter.id]
        else:
            return None
        sp = self._splice_generator(call_term, live)
        if sp is None:
            return None
        yl, val, ylive, post, qual = sp
        assigned = self._assigned_names(st.body)
        keep = self._aug_only_lists(st.body, assigned)
        assigned = [n_ for n_ in assigned if n_ not in keep]
        env0 = dict(self.env)
        for n_ in assigned:
            if n_ in self.env:
                self.env[n_] = ("phi", n_, yl[0])
        for l in yl:
            self.loop_stack.append(l)
        if val == ("elem", yl[-1]):
            self.loops[yl[-1]].target_text = ast.unparse(st.target)  # the consumer unpacks the innermost element
        self.assign(st.target, val, live, st)
        inner_ = AND(live, ylive)
        for p_ in reversed(preds):
            c_ = self._fold_records(fold_sub(self._apply_fn(p_, [val])))
            self.emit("break", AND(inner_, NOT(c_)), NONE, st)
            inner_ = AND(inner_, c_)
        self.block(st.body, inner_)
        for _ in yl:
            self.loop_stack.pop()
        body_env = self.env
        self.env = env0
        for n_ in assigned:
            self.env[n_] = ("loopout", n_, yl[0])
        for n_ in _target_names(st.target):
            self.env[n_] = ("loopout", n_, yl[0])
        self.loops[yl[0]].body_env = body_env  # type: ignore[attr-defined]
        for e, inst_, idmap_, qual_ in post:
            self._reemit(e, live, inst_, idmap_, qual_)
        return live

    def _counted_while(self, st):
        """`i = c; while i < n: BODY` where BODY advances i by one exactly once, at its top level, and leaves n alone is
        `for i' in range(c, n): i = i'; BODY` (the increment stays in BODY: what follows it sees i + 1, and after the loop i has the
        value the while loop leaves).  None when the loop has another shape."""
        t = st.test
        if st.orelse or not (isinstance(t, ast.Compare) and len(t.ops) == 1 and isinstance(t.ops[0], ast.Lt) and isinstance(t.left, ast.Name)):
            return None
        name = t.left.id
        init = self.env.get(name)
        if init is None or init[0] != "const" or not isinstance(init[1], int) or isinstance(init[1], bool):
            return None
        bound = t.comparators[0]
        steps = []
        for k, b in enumerate(st.body):
            if isinstance(b, ast.AugAssign) and isinstance(b.target, ast.Name) and b.target.id == name and isinstance(b.op, ast.Add) \
                    and isinstance(b.value, ast.Constant) and b.value.value == 1:
                steps.append(k)
            elif isinstance(b, ast.Assign) and len(b.targets) == 1 and isinstance(b.targets[0], ast.Name) and b.targets[0].id == name \
                    and ast.unparse(b.value) in (f"{name} + 1", f"1 + {name}"):
                steps.append(k)
        if len(steps) != 1:
            return None
        k = steps[0]
        # no other store of the counter; the bound's names are neither stored nor called upon in the body; no `continue` in front of the step
        bnames = {x.id for x in ast.walk(bound) if isinstance(x, ast.Name)}
        for j, b in enumerate(st.body):
            for x in ast.walk(b):
                if isinstance(x, ast.Name) and isinstance(x.ctx, (ast.Store, ast.Del)) and (x.id in bnames or (x.id == name and j != k)):
                    return None
                if isinstance(x, ast.NamedExpr) and isinstance(x.target, ast.Name) and x.target.id in bnames | {name}:
                    return None
                if isinstance(x, ast.Call) and isinstance(x.func, ast.Attribute) and isinstance(x.func.value, ast.Name) and x.func.value.id in bnames \
                        and isinstance(b, ast.Expr):
                    return None
                if isinstance(x, ast.Continue) and j < k:
                    return None
                if isinstance(x, (ast.FunctionDef, ast.Lambda)):
                    return None
        it = ast.Name(id=f"{name}__it", ctx=ast.Store())
        rng = ast.Call(func=ast.Name(id="range", ctx=ast.Load()), args=([] if init[1] == 0 else [ast.Constant(value=init[1])]) + [bound], keywords=[])
        bind = ast.Assign(targets=[ast.Name(id=name, ctx=ast.Store())], value=ast.Name(id=f"{name}__it", ctx=ast.Load()))
        new = ast.For(target=it, iter=rng, body=[bind] + list(st.body), orelse=[])
        ast.copy_location(new, st)
        for x in (it, rng, bind):
            ast.copy_location(x, st)
        ast.fix_missing_locations(new)
        return new

    def _comp_unrolled(self, n, live, kind, elt_fn):
        """[f(x) for x in (a, b, c)] over a literal display is the display [f(a), f(b), f(c)] (list / set / dict); a generator
        expression over a literal display is read as the tuple of its items (it is consumed once: unpacked, joined, summed)"""
        if len(n.generators) != 1:
            return None
        g = n.generators[0]
        table_rows_ = isinstance(g.iter, ast.Call) and isinstance(g.iter.func, ast.Attribute) and g.iter.func.attr in ("items", "keys", "values") \
            and not g.iter.args and not g.iter.keywords and isinstance(g.iter.func.value, (ast.Name, ast.Attribute))
        rev_ = isinstance(g.iter, ast.Call) and isinstance(g.iter.func, ast.Name) and g.iter.func.id == "reversed" and "reversed" not in self.env \
            and len(g.iter.args) == 1 and not g.iter.keywords and isinstance(g.iter.args[0], (ast.Tuple, ast.List, ast.Name))
        if g.ifs or g.is_async or not (isinstance(g.iter, (ast.Tuple, ast.List, ast.Name, ast.Attribute)) or table_rows_ or rev_ or (
                isinstance(g.iter, ast.Call) and isinstance(g.iter.func, ast.Name) and g.iter.func.id == "zip" and "zip" not in self.env)):
            return None
        if any(isinstance(x, ast.NamedExpr) for x in ast.walk(n)):
            return None
        mark = len(self.events)
        it = self.ev(g.iter, live)
        if rev_:
            # ... for d in reversed((x, y)) is ... for d in (y, x)
            if it[0] == "call" and it[1] == ("builtin", "reversed") and len(it[2]) == 1 and it[2][0][0] in ("tuple", "list") \
                    and not any(x[0] == "star" for x in it[2][0][1]):
                del self.events[mark:]
                it = ("tuple", tuple(reversed(it[2][0][1])))
            else:
                del self.events[mark:]
                return None
        if table_rows_:
            # {k: f(k, v) for k, v in TABLE.items()} over a module-level table with constant keys that nothing mutates: over its rows
            rows_ = None
            if it[0] == "call" and it[1][0] == "attr" and it[1][1][0] == "global" and it[1][1][2] == "assign":
                try:
                    m_, node_ = self.index.need_assign(*it[1][1][1].split(":"))
                except (AnalysisError, ValueError):
                    node_ = None
                ks_ = self._table_keys(it[1][1]) if isinstance(node_, ast.Dict) else None
                rows_ = self._table_rows(it[1][1], m_, node_, ks_) if ks_ is not None else None
            if rows_ is None:
                del self.events[mark:]
                return None
            del self.events[mark:]
            it = ("tuple", tuple(("tuple", (k_, v_)) if it[1][2] == "items" else (k_ if it[1][2] == "keys" else v_) for k_, v_ in rows_))
        if it[0] == "call" and it[1] == ("builtin", "zip") and len(it[2]) >= 2 and not it[3] and len(self.events) == mark + 1 \
                and any(a_[0] in ("tuple", "list") for a_ in it[2]):
            # zip((a, b), xs): the pairs (a, xs[0]), (b, xs[1]) -- as long as xs has that many items (zip would stop early)
            disp = [a_ for a_ in it[2] if a_[0] in ("tuple", "list") and not any(x[0] == "star" for x in a_[1])]
            n_ = min(len(a_[1]) for a_ in disp) if disp else 0
            if disp and 0 < n_ <= 8 and not any(a_[0] == "star" for a_ in it[2]):
                del self.events[mark:]
                it = ("tuple", tuple(("tuple", tuple(a_[1][i_] if a_ in disp else sub_const(a_, i_) for a_ in it[2])) for i_ in range(n_)))
        if it[0] not in ("tuple", "list") or not (0 < len(it[1]) <= (32 if kind == "dict" else 8)) or any(x[0] == "star" for x in it[1]) or len(self.events) != mark:
            del self.events[mark:]
            return None
        saved_env = dict(self.env)
        out = []
        try:
            for item in it[1]:
                self.assign(g.target, item, live, n)
                out.append(elt_fn(live))
        finally:
            self.env = saved_env
        if kind == "dict":
            return fold_sub(("dict", tuple((e[1], e[2]) for e in out)))
        return ("tuple" if kind == "gen" else kind, tuple(out))

    def _expand_product(self, n):
        """`... for a, b in itertools.product(xs, ys)` is `... for a in xs for b in ys` (row-major; xs, ys plain names, so the
        second one can be walked again for every element of the first)"""
        if not any(isinstance(g.iter, ast.Call) and isinstance(g.target, (ast.Tuple, ast.List)) for g in n.generators):
            return n
        gens, changed = [], False
        for g in n.generators:
            it = g.iter
            if isinstance(it, ast.Call) and not it.keywords and len(it.args) == 2 and isinstance(g.target, (ast.Tuple, ast.List)) and len(g.target.elts) == 2 \
                    and not g.is_async and all(isinstance(a, (ast.Name, ast.Attribute)) for a in it.args) \
                    and not any(isinstance(x, ast.Starred) for x in g.target.elts):
                try:
                    fv = self.ev(it.func, TRUE) if isinstance(it.func, (ast.Name, ast.Attribute)) else None
                except AnalysisError:
                    fv = None
                if fv == ("ext", "itertools.product"):
                    gens.append(ast.copy_location(ast.comprehension(target=g.target.elts[0], iter=it.args[0], ifs=[], is_async=0), g))
                    gens.append(ast.copy_location(ast.comprehension(target=g.target.elts[1], iter=it.args[1], ifs=list(g.ifs), is_async=0), g))
                    changed = True
                    continue
            gens.append(g)
        if not changed:
            return n
        import copy
        m = copy.copy(n)
        m.generators = gens
        return m

    def _comp(self, n, live, kind, elt_fn):
        n = self._expand_product(n)
        un = self._comp_unrolled(n, live, kind, elt_fn)
        if un is not None:
            return un
        saved_env = dict(self.env)
        gens = []
        inner = live
        pushed = 0
        for g in n.generators:
            it = self.ev(g.iter, inner)
            fused = None
            if it[0] == "comp" and (it[1] == "gen" or (it[1] == "list" and not isinstance(g.iter, (ast.Name, ast.Attribute)))) and len(it[3]) == 1 \
                    and it[3][0][0] in self.loops:
                # a comprehension over a lazy generator (genexp / map / filter) is one loop: elements are produced and
                # consumed one at a time
                fused = it
                lid, it = fused[3][0][0], fused[3][0][1]
                self.loops[lid].target_text = ast.unparse(g.target)
            else:
                lid = self.fresh("L")
                self.loops[lid] = LoopInfo(lid, "comp", it, g, self.loop_stack[-1] if self.loop_stack else None,
                                           ast.unparse(g.target))
            self.loop_stack.append(lid)
            pushed += 1
            self.assign(g.target, fused[2] if fused is not None else ("elem", lid), inner, n)
            inner = AND(inner, ("inloop", lid))
            conds = list(fused[3][0][2]) if fused is not None else []
            for c_ in conds:
                inner = AND(inner, c_)
            for c in g.ifs:
                ct = self.ev(c, inner)
                conds.append(ct)
                inner = AND(inner, ct)
            self.loops[lid].conds = tuple(conds)
            gens.append((lid, it, tuple(conds)))
        elt = elt_fn(inner)
        for _ in range(pushed):
            self.loop_stack.pop()
        # comprehension scope: targets and walrus names... walrus leaks by language rule, targets do not
        leaked = {k: v for k, v in self.env.items() if k not in saved_env or saved_env[k] != v}
        tnames = set()
        for g in n.generators:
            tnames |= set(_target_names(g.target))
        self.env = saved_env
        for k, v in leaked.items():
            if k not in tnames:
                self.env[k] = ("unknown", f"walrus {k} leaked from comprehension")
        return ("comp", kind, elt, tuple(gens))

    def e_ListComp(self, n, live):
        return self._comp(n, live, "list", lambda l: self.ev(n.elt, l))

    def e_SetComp(self, n, live):
        return self._comp(n, live, "set", lambda l: self.ev(n.elt, l))

    def e_GeneratorExp(self, n, live):
        return self._comp(n, live, "gen", lambda l: self.ev(n.elt, l))

    def e_DictComp(self, n, live):
        return self._comp(n, live, "dict", lambda l: ("kv", self.ev(n.key, l), self.ev(n.value, l)))


def _rename_ids(t, idmap: Dict[str, str], tag: str):
    """Rename loop / try / handler / lambda ids and allocation identities of an inlined summary term."""
    if not isinstance(t, tuple) or not t:
        return t
    if not isinstance(t[0], str):
        return tuple(_rename_ids(c, idmap, tag) for c in t)
    k = t[0]
    if k in ("elem", "inloop", "lambda", "completed") and len(t) == 2 and t[1] in idmap:
        return (k, idmap[t[1]])
    if k in ("phi", "loopout") and len(t) == 3 and t[2] in idmap:
        return (k, t[1], idmap[t[2]])
    if k == "caught" and t[1] in idmap:
        return (k, idmap[t[1]]) + tuple(t[2:])
    if k == "exc" and t[1] in idmap:
        return (k, idmap[t[1]])
    if k == "tryphi" and t[1] in idmap:
        return (k, idmap[t[1]], _rename_ids(t[2], idmap, tag))
    if k == "alloc" and len(t) == 3:
        return (k, t[1], f"{tag}:{t[2]}")
    if k == "comp":
        gens = tuple((idmap.get(lid, lid), _rename_ids(it, idmap, tag), _rename_ids(cs, idmap, tag)) for lid, it, cs in t[3])
        return ("comp", t[1], _rename_ids(t[2], idmap, tag), gens)
    return tuple(_rename_ids(c, idmap, tag) if isinstance(c, tuple) else c for c in t)


def _bind_summary(cs: "Summary", inst) -> "Summary":
    """A copy of a summary with `inst` applied to every term (used to bind some parameters: functools.partial)."""
    evs = []
    for e in cs.events:
        ne = Event(e.kind, inst(e.live), inst(e.term), e.node, e.loops, e.idx, e.handlers, e.in_handler)
        for a in ("kw_order", "inlined_from"):
            if hasattr(e, a):
                setattr(ne, a, getattr(e, a))
        evs.append(ne)
    loops = {}
    for lid, li in cs.loops.items():
        nl = LoopInfo(li.id, li.kind, inst(li.iter), li.node, li.parent, li.target_text, tuple(inst(c) for c in li.conds), li.assigned, li.has_else)
        loops[lid] = nl
    return Summary(cs.qual, cs.module, cs.node, list(cs.params), {k: inst(v) for k, v in cs.defaults.items()}, cs.annotations, evs, loops,
                   cs.tries, {k: inst(v) for k, v in cs.env.items()}, inst(cs.fall_live),
                   {k: _bind_summary(v, inst) for k, v in cs.lambdas.items()}, cs.nested, cs.is_generator, cs.kwarg, cs.vararg)


def _inst_summary(ls: "Summary", inst) -> "Summary":
    """A lambda summary of an inlined helper, with the helper's parameters replaced by the call's arguments."""
    prot = {("param", p): ("param-of-lambda", p) for p in ls.params}
    unprot = {v: k for k, v in prot.items()}
    outer = inst

    def inst(t):  # the lambda's own parameters shadow the helper's
        return subst(outer(subst(t, prot)), unprot)

    evs = [Event(e.kind, inst(e.live), inst(e.term), e.node, e.loops, e.idx, e.handlers, e.in_handler) for e in ls.events]
    return Summary(ls.qual, ls.module, ls.node, ls.params, {k: inst(v) for k, v in ls.defaults.items()}, ls.annotations,
                   evs, ls.loops, ls.tries, {k: inst(v) for k, v in ls.env.items()}, inst(ls.fall_live),
                   {k: _inst_summary(v, inst) for k, v in ls.lambdas.items()}, ls.nested, ls.is_generator, ls.kwarg,
                   ls.vararg)


def _target_names(t) -> List[str]:
    if isinstance(t, ast.Name):
        return [t.id]
    if isinstance(t, (ast.Tuple, ast.List)):
        out = []
        for e in t.elts:
            out += _target_names(e)
        return out
    if isinstance(t, ast.Starred):
        return _target_names(t.value)
    return []


def _handler_names(h: ast.ExceptHandler) -> Tuple[str, ...]:
    if h.type is None:
        return ("BaseException",)
    if isinstance(h.type, ast.Tuple):
        return tuple(ast.unparse(e) for e in h.type.elts)
    return (ast.unparse(h.type),)


_HOME: Dict[str, List[str]] = {}
for _m, _names in PINNED.items():
    for _n in _names:
        if "." not in _n:
            _HOME.setdefault(_n, []).append(_m)


def sym_term(s: Sym) -> tuple:
    if s.kind == "module":
        return ("global_module", s.qual)
    if s.kind == "ext":
        return ("ext", s.qual[4:])
    if s.kind == "func" and ":" in s.qual:
        # a reference-tree function that moved to another module keeps the name the rules know it by
        mod, name = s.qual.split(":")
        homes = _HOME.get(name, [])
        ix = getattr(s.module, "index", None)
        if ix is not None and (mod, name) in ix.redirect:
            # public view: the reference implementation itself, named from the implementation that replaced it
            return ("global", f"{mod}:{name}@reference", s.kind)
        if len(homes) == 1 and homes[0] != mod and name not in PINNED.get(mod, ()):
            hm = ix.modules.get(homes[0]) if ix is not None else None
            if hm is None or name not in hm.defs or ix.redirect.get((homes[0], name)) == (mod, name):
                return ("global", f"{homes[0]}:{name}", s.kind)
    if s.kind in ("class", "assign") and ":" in s.qual:
        # likewise a class / a module-level table that moved
        from .index import Index as _Ix
        q_ = _Ix.canonical_qual(getattr(s.module, "index", None), s.kind, s.qual)
        v_ = getattr(s.node, "value", None) if s.kind == "assign" else None
        if s.kind == "class" or (isinstance(v_, ast.Constant) and v_.value is not None) or isinstance(v_, (ast.Dict, ast.List, ast.Tuple, ast.Set, ast.DictComp, ast.ListComp)):
            NOT_NONE_GLOBALS.add(q_)  # a module-level constant / table / class: never None (`MAX_FREQUENCY is not None` after inlining)
        return ("global", q_, s.kind)
    return ("global", s.qual, s.kind)


def _sym_from_term(index: Index, t) -> Optional[Sym]:
    if t[0] != "global":
        return None
    qual = t[1]
    modname, name = qual.split(":")
    m = index.modules.get(modname)
    if m is None:
        return None
    return index.resolve(m, name)


# ---------------------------------------------------------------------------------- summaries cache

class Summaries:
    def __init__(self, index: Index):
        self.index = index
        self._cache: Dict[str, Summary] = {}

    def of_func(self, modname: str, fname: str) -> Summary:
        qual = f"{modname}:{fname}"
        if qual in self._cache:
            return self._cache[qual]
        try:
            m, fn = self.index.need_func(modname, fname)
        except AnalysisError:
            s = self._of_alias(qual)
            if s is None:
                raise
            self._cache[qual] = s
            return s
        cls = None
        if "." in fname:
            cls = self.index.need_class(modname, fname.split(".")[0])
        try:
            s = Evaluator(self.index, m, fn, qual, cls).run()
        except RecursionError:
            raise AnalysisError(f"recursion while summarising {qual}", site=qual)
        s = self._fix_new_parameters(qual, s)
        self._cache[qual] = s
        self._drop_new_default_keywords(s)
        return s

    def _new_param_defaults(self, callee_qual: str) -> Dict[str, tuple]:
        """{new optional parameter of a reference function: its default term}"""
        ref = (Summaries._DECLS or {"functions": {}})["functions"].get(callee_qual)
        if ref is None or ":" not in callee_qual:
            return {}
        modname, fname = callee_qual.split(":")
        try:
            m, fn = self.index.need_func(modname, fname)
        except AnalysisError:
            return {}
        known = set(ref["pos"]) | set(ref["kwonly"])
        a = fn.args
        out = {}
        allp = list(a.posonlyargs) + list(a.args)
        for p_, d_ in list(zip(allp[len(allp) - len(a.defaults):], a.defaults)) + [(p_, d_) for p_, d_ in zip(a.kwonlyargs, a.kw_defaults) if d_ is not None]:
            if p_.arg not in known and isinstance(d_, ast.Constant):
                out[p_.arg] = ("const", d_.value)
        return out

    def _drop_new_default_keywords(self, s: Summary):
        """`f(x, new_option=<its default>)`: a keyword that names an option the reference function did not have and passes
        that option's default is the call the reference made"""
        if Summaries._DECLS is None:
            self._fix_new_parameters("", s)

        def clean(t):
            if not isinstance(t, tuple) or not t:
                return t
            t = tuple(clean(c) if isinstance(c, tuple) else c for c in t)
            if isinstance(t[0], str) and t[0] == "call" and len(t) == 4 and t[3] and t[1][0] == "global" and t[1][2] == "func":
                nd = self._new_param_defaults(t[1][1])
                if nd:
                    kws = tuple((k, v) for k, v in t[3] if not (k in nd and nd[k] == v))
                    if kws != t[3]:
                        return ("call", t[1], t[2], kws)
            return t

        for e in s.events:
            if any(x[0] == "call" and len(x) == 4 and x[3] for x in walk(e.term)):
                e.term = clean(e.term)
            e.live = clean(e.live) if isinstance(e.live, tuple) else e.live
        for li in s.loops.values():
            li.iter = clean(li.iter)

    _DECLS = None

    def _fix_new_parameters(self, qual: str, s: Summary) -> Summary:
        """A reference function that gained optional parameters (a new option): the rules, which state what the function did
        before, read it with the new parameters at their defaults -- that is how every existing caller still calls it."""
        if Summaries._DECLS is None:
            try:
                with open(os.path.join(os.path.dirname(os.path.abspath(__file__)), "pinned_decls.json")) as f:
                    Summaries._DECLS = json.load(f)
            except OSError:
                Summaries._DECLS = {"functions": {}}
        ref = Summaries._DECLS["functions"].get(qual)
        if ref is None:
            return s
        known = set(ref["pos"]) | set(ref["kwonly"])
        new = [p for p in s.params if p not in known and p in s.defaults and p not in ("self", "cls")]
        if not new:
            return s
        from .memo import simplify
        from .peval import peval
        facts = {("param", p): s.defaults[p] for p in new}

        def boolfold(t):
            """constant comparisons left by the substitution ('s' == 's', 's' in {...}) decided, conjunct by conjunct"""
            if not isinstance(t, tuple) or not t:
                return t
            if t[0] in ("and", "or"):
                parts = [boolfold(c) for c in t[1]]
                return AND(*parts) if t[0] == "and" else OR(*parts)
            if t[0] == "not":
                return NOT(boolfold(t[1]))
            if t[0] == "cmp":
                v = peval(t, {})
                if v[0] == "const" and isinstance(v[1], bool):
                    return TRUE if v[1] else FALSE
                return t
            if t[0] == "ite":
                c = boolfold(t[1])
                return ITE(c, boolfold(t[2]), boolfold(t[3]))
            return tuple(boolfold(c) if isinstance(c, tuple) else c for c in t)

        def inst(t):
            return fold_sub(boolfold(simplify(t, facts))) if isinstance(t, tuple) else t

        out = _bind_summary(s, inst)
        out.events = [e for e in out.events if e.live != FALSE]
        for i, e in enumerate(out.events):
            pass
        out.inlined = list(s.inlined)
        out.alloc_comps = {k: inst(v) for k, v in s.alloc_comps.items()}
        out.rec_types = dict(s.rec_types)
        out.unpacked = dict(s.unpacked)
        out.new_parameters = new  # type: ignore[attr-defined]
        return out

    def _of_alias(self, qual: str) -> Optional[Summary]:
        """the summary of a reference function that was renamed / re-parameterised: its replacement's, in its own terms"""
        from . import alias
        al = alias.find_alias(self.index, qual)
        if al is None:
            return None
        try:
            cs = Evaluator(self.index, al.module, al.node, al.new_qual, al.cls).run()
        except RecursionError:
            raise AnalysisError(f"recursion while summarising {al.new_qual}", site=al.new_qual)
        mapping = {("param", q): t for q, t in al.fwd.items()}

        def inst(t):
            return fold_sub(subst(t, mapping)) if isinstance(t, tuple) else t

        s = _bind_summary(cs, inst)
        s.qual = qual
        recv = alias.CALLS.get(qual, {}).get("recv")
        s.params = ([recv] if recv else []) + list(al.old_params)
        s.defaults = {p: v for p, v in ((al.fwd[q][1], cs.defaults[q]) for q in cs.defaults if q in al.fwd and al.fwd[q][0] == "param")}
        s.annotations = {}
        s.inlined = list(cs.inlined) + [al.new_qual]
        s.alias_of = al.new_qual  # type: ignore[attr-defined]
        return s

    def of_node(self, module: Module, fn: ast.AST, qual: str, cls=None, outer_env=None) -> Summary:
        if qual in self._cache and outer_env is None:
            return self._cache[qual]
        module = getattr(self.index, "node_home", {}).get(id(fn), module)  # a function installed as a method: its own module's names
        s = Evaluator(self.index, module, fn, qual, cls, outer_env).run()
        if outer_env is None:
            self._cache[qual] = s
        return s

    def of_method(self, ci: ClassInfo, meth: str) -> Optional[Summary]:
        found = ci.find_method(meth)
        if not found:
            # a reference method that was renamed: the first class of the MRO that had it
            for c in ci.mro():
                if f"{c.name}.{meth}" in PINNED.get(c.module.name, ()):
                    try:
                        return self.of_func(c.module.name, f"{c.name}.{meth}")
                    except AnalysisError:
                        return None
            return None
        c, fn = found
        return self.of_node(c.module, fn, f"{c.qual}.{meth}", c)


def callkw(t) -> Dict[str, tuple]:
    """Arguments of a call term by parameter name: the keywords, plus -- for external functions whose signature is in
    EXT_SIGNATURES -- the positional arguments under their parameter names."""
    kw = dict(t[3])
    if t[1][0] == "ext" and t[1][1] in EXT_SIGNATURES:
        for nm, a in zip(EXT_SIGNATURES[t[1][1]], t[2]):
            if a[0] != "star":
                kw.setdefault(nm, a)
    return kw


class _SummariesShim:
    """the slice of the Summaries interface expand_pure_calls needs, backed by an evaluator (no cache)"""

    def __init__(self, ev: "Evaluator"):
        self.ev = ev

    def of_method(self, ci, meth):
        return None

    def of_func(self, modname, fname):
        m, fn = self.ev.index.need_func(modname, fname)
        sub = Evaluator(self.ev.index, m, fn, f"{modname}:{fname}", None)
        sub.inline_stack = self.ev.inline_stack + (f"{modname}:{fname}",)
        return sub.run()


def _ite_leaves(t):
    return _ite_leaves(t[2]) + _ite_leaves(t[3]) if t[0] == "ite" else [t]


def _ite_of_displays(t):
    return all(x[0] == "dict" and all(kk[0] == "const" and isinstance(kk[1], str) for kk, _ in x[1]) for x in _ite_leaves(t))


NOT_NONE_GLOBALS = set()


def _splice_stars(t):
    """[*[a, b], c] is [a, b, c]"""
    if t[0] in ("list", "tuple") and any(x[0] == "star" and x[1][0] in ("list", "tuple") for x in t[1]):
        out = []
        for x in t[1]:
            if x[0] == "star" and x[1][0] in ("list", "tuple"):
                out += list(x[1][1])
            else:
                out.append(x)
        return _splice_stars((t[0], tuple(out)))
    return t


_SHAPELY_PROPERTIES = ("centroid", "area", "length", "envelope", "convex_hull", "boundary", "is_empty", "is_valid")
_SHAPELY_BINARY = ("intersection", "union", "difference", "symmetric_difference", "intersects", "contains", "within", "touches",
                   "overlaps", "disjoint", "distance", "equals", "covers", "covered_by", "crosses")


def _shapely_method_form(f, args):
    """the module-level function of shapely 2 applied to scalar geometries, in the spelling of the geometry's own attribute / method
    (the same GEOS operation either way; vectorised use -- arrays of geometries -- does not occur in the package)"""
    if f[0] != "ext" or not f[1].startswith("shapely.") or f[1].count(".") != 1 or any(a[0] == "star" for a in args):
        return None
    name = f[1].split(".")[1]
    if name in _SHAPELY_PROPERTIES and len(args) == 1:
        return ("attr", args[0], name)
    if name in _SHAPELY_BINARY and len(args) == 2:
        return ("call", ("attr", args[0], name), (args[1],), ())
    return None


def _join_as_fstr(sep, seq):
    if not (seq[0] in ("list", "tuple") and seq[1] and all(
            (x[0] == "const" and isinstance(x[1], str)) or (x[0] == "call" and x[1] == ("builtin", "str") and len(x[2]) == 1 and not x[3])
            or x[0] == "fstr" for x in seq[1])):
        return None
    parts = []

    def push(x):
        if x[0] == "const" and parts and parts[-1][0] == "const":
            parts[-1] = ("const", parts[-1][1] + x[1])
        elif not (x[0] == "const" and x[1] == ""):
            parts.append(x)
    for k_, x in enumerate(seq[1]):
        if k_:
            push(("const", sep))
        if x[0] == "const":
            push(x)
        elif x[0] == "fstr":
            for y in x[1]:
                push(y)
        else:
            push(x[2][0])
    return ("fstr", tuple(parts))


def _merge_two_yields(cs):
    """A generator whose loop yields on two exclusive paths -- `if c: [if x:] yield a; return` / `yield b` -- read as ONE yield of
    `a if c else b` under `(c and x) or not c`; the `return` between the two leaves the loop before the yield where nothing was
    yielded (c and not x) and after it otherwise.  A copy of the summary with that single yield, or None (another shape)."""
    import dataclasses
    y1, y2 = cs.yields
    if y1.loops != y2.loops or not y1.loops or y1.term[0] == "yieldfrom" or y2.term[0] == "yieldfrom" or y1.handlers or y2.handlers:
        return None
    between = [e for e in cs.events if y1.idx < e.idx < y2.idx]
    if any(e.kind != "return" or e.loops != y1.loops or not isinstance(e.node, ast.Return) for e in between):
        return None
    c1, c2 = list(conjuncts(y1.live)), list(conjuncts(y2.live))
    k = 0
    while k < min(len(c1), len(c2)) and c1[k] == c2[k]:
        k += 1
    if k >= len(c1) or k >= len(c2) or c2[k] != NOT(c1[k]) or len(c2) != k + 1:
        return None
    c, extra, prefix = c1[k], c1[k + 1:], c1[:k]
    if any(list(conjuncts(e.live)) != prefix + [c] for e in between):
        return None
    merged = dataclasses.replace(y2, live=AND(*prefix, OR(AND(c, *extra), NOT(c))), term=ITE(c, y1.term, y2.term))
    events = []
    for e in cs.events:
        if e is y1:
            continue
        if e in between:
            if extra:
                events.append(dataclasses.replace(e, live=AND(*prefix, c, NOT(AND(*extra)))))  # nothing yielded: leaves at once
            continue
        if e is y2:
            events.append(merged)
            for r in between:
                events.append(dataclasses.replace(r, live=AND(*prefix, c, *extra)))  # yielded, then leaves
            continue
        events.append(e)
    events = [dataclasses.replace(e, idx=i) for i, e in enumerate(events)]
    return dataclasses.replace(cs, events=events)


_MAKE_ARITY: Dict[str, int] = {}  # qualified name of a NamedTuple class of the analysed tree -> number of fields (filled by the evaluator)


NO_MATCH = ("global", "<no match>", "sentinel")  # the default of the next(...) a search helper is read as: equal to nothing else


def _search_helper_shape(cs):
    """(the return inside the loop, loop id, events after the loop) of a function that is one `for` loop returning its first match,
    then one unconditional ending: a raise (with the calls building the exception) or a return of a value; None = another shape"""
    rets = [r for r in cs.raw_returns if isinstance(r.node, ast.Return)]
    inl = [r for r in rets if r.loops]
    if len(inl) != 1 or len(inl[0].loops) != 1 or cs.is_generator or cs.tries:
        return None
    ret = inl[0]
    lid0 = ret.loops[0]
    li = cs.loops.get(lid0)
    if li is None or li.kind != "for" or getattr(li, "has_else", False) or len([l for l in cs.loops.values() if l.kind == "for"]) != 1:
        return None
    if any(e.kind not in ("call", "return", "raise") for e in cs.events):
        return None
    first_loop = min((e.idx for e in cs.events if lid0 in e.loops), default=None)
    if first_loop is None or any(e.idx < first_loop and not e.loops for e in cs.events):
        return None  # work in front of the loop
    if any(lid0 in e.loops and e.kind == "raise" for e in cs.events) or any(lid0 in e.loops and e.idx > ret.idx for e in cs.events):
        return None
    tail = [e for e in cs.events if lid0 not in e.loops and e.idx > ret.idx and not e.loops]
    enders = [e for e in tail if e.kind in ("raise", "return")]
    if len(enders) != 1 or enders[0] is not tail[-1] or any(e.live != TRUE for e in tail):
        return None
    if enders[0].kind == "return" and any(e.kind == "call" for e in tail):
        return None
    return ret, lid0, tail


def fold_sub(t):
    """`(a, b)[0]` -> a and `getattr(x, "name")` -> x.name after a substitution made the container / name explicit."""
    if not isinstance(t, tuple) or not t:
        return t
    t = tuple(fold_sub(c) if isinstance(c, tuple) else c for c in t)
    if t and t[0] == "cmp" and t[1] in ("is", "isnot") and len(t) == 4 and t[2][0] == "const" and t[3][0] == "const" \
            and (t[2][1] is None or t[3][1] is None):
        # `None is None` after a default was substituted for a parameter
        same = t[2][1] is None and t[3][1] is None
        return TRUE if (same if t[1] == "is" else not same) else FALSE
    if t and t[0] == "cmp" and t[1] in ("is", "isnot") and len(t) == 4 and t[3] == NONE and t[2][0] == "global" and t[2][1] in NOT_NONE_GLOBALS:
        return FALSE if t[1] == "is" else TRUE
    if t and t[0] == "cmp" and t[1] in ("is", "isnot") and len(t) == 4 and t[3] == NONE and (
            (t[2][0] == "call" and t[2][1] in (("builtin", "int"), ("builtin", "float"), ("builtin", "str"), ("builtin", "len"), ("builtin", "bool"),
                                               ("builtin", "abs"), ("builtin", "list"), ("builtin", "tuple"), ("builtin", "round")))
            or t[2][0] in ("bin", "tuple", "list", "dict", "set", "fstr")):
        return FALSE if t[1] == "is" else TRUE  # int(x) / a + b / a display is never None
    if t and t[0] == "cmp" and t[1] in ("eq", "ne") and len(t) == 4 and t[2][0] == "const" and t[3][0] == "const" \
            and isinstance(t[2][1], (str, int, float, bool)) and isinstance(t[3][1], (str, int, float, bool)):
        return TRUE if (t[2][1] == t[3][1]) == (t[1] == "eq") else FALSE  # `axis == "time"` with the axis substituted
    if t and t[0] == "cmp" and t[1] in ("eq", "ne") and len(t) == 4 and any(x[0] == "const" and isinstance(x[1], bool) for x in (t[2], t[3])):
        # `(x is not None) == with_geometry` with the flag substituted: a comparison of a truth value with True / False
        c_, o_ = (t[2], t[3]) if t[2][0] == "const" and isinstance(t[2][1], bool) else (t[3], t[2])
        if o_[0] in ("cmp", "not") or (o_[0] == "call" and o_[1] in (("builtin", "isinstance"), ("builtin", "hasattr"), ("builtin", "bool"))):
            return o_ if (c_[1] is True) == (t[1] == "eq") else NOT(o_)
    if t and t[0] == "cmp" and t[1] in ("in", "notin") and len(t) == 4 and t[2][0] == "const" and t[3][0] in ("tuple", "list", "set") \
            and all(x[0] == "const" for x in t[3][1]):
        r_ = mk_cmp(t[1], t[2], t[3])
        if r_[0] == "const":
            return TRUE if r_[1] else FALSE
    if t and t[0] == "comp" and len(t) == 4 and len(t[3]) == 1 and not t[3][0][2] and t[3][0][1][0] in ("tuple", "list") \
            and 0 < len(t[3][0][1][1]) <= (32 if t[1] == "dict" else 8) and not any(x[0] == "star" for x in t[3][0][1][1]):
        # {d: c[d] for d in (x, y)} with the display substituted for a parameter of a helper: the display of the instances
        items_ = [fold_sub(subst(t[2], {("elem", t[3][0][0]): item})) for item in t[3][0][1][1]]
        if t[1] == "dict" and all(i_[0] == "kv" for i_ in items_):
            return ("dict", tuple((i_[1], i_[2]) for i_ in items_))
        if t[1] in ("list", "set", "gen"):
            return ("tuple" if t[1] == "gen" else t[1], tuple(items_))
    if t and t[0] == "call" and t[1] in (("builtin", "any"), ("builtin", "all")) and len(t) >= 4 and not t[3] and len(t[2]) == 1:
        a_ = t[2][0]
        # any(c(x) for x in (a, b)) with the display substituted for a `*values` parameter
        if a_[0] == "comp" and len(a_[3]) == 1 and not a_[3][0][2] and a_[3][0][1][0] in ("tuple", "list") \
                and 0 < len(a_[3][0][1][1]) <= 8 and not any(x[0] == "star" for x in a_[3][0][1][1]):
            parts_ = [fold_sub(subst(a_[2], {("elem", a_[3][0][0]): item})) for item in a_[3][0][1][1]]
            return OR(*parts_) if t[1][1] == "any" else AND(*parts_)
        if a_[0] in ("tuple", "list") and 0 < len(a_[1]) <= 8 and not any(x[0] == "star" for x in a_[1]):
            return OR(*a_[1]) if t[1][1] == "any" else AND(*a_[1])
    if t and t[0] == "ite" and len(t) == 4 and t[1] in (TRUE, FALSE):
        return t[2] if t[1] == TRUE else t[3]
    if t and t[0] in ("list", "tuple") and len(t) == 2 and isinstance(t[1], tuple) and any(isinstance(x, tuple) and x and x[0] == "star" for x in t[1]):
        t = _splice_stars(t)
    if t and t[0] == "call" and len(t) == 4 and t[1][0] == "attr" and t[1][2] == "get" and t[1][1][0] == "dict" and len(t[2]) in (1, 2) and not t[3] \
            and t[2][0][0] == "const" and all(kv[0] != ("dstar",) and kv[0][0] == "const" for kv in t[1][1][1]):
        # {"a": x, "b": y}.get("a", d) of an explicit display with constant keys
        hit_ = [kv[1] for kv in t[1][1][1] if kv[0] == t[2][0]]
        return hit_[-1] if hit_ else (t[2][1] if len(t[2]) == 2 else NONE)
    if t and t[0] == "call" and len(t) == 4 and isinstance(t[3], tuple) and any(k_ == "**" and v_[0] == "dict" and all(
            kv[0] != ("dstar",) and kv[0][0] == "const" and isinstance(kv[0][1], str) for kv in v_[1]) for k_, v_ in t[3]):
        # f(**{"a": x, "b": y}) once the display is explicit is f(a=x, b=y)
        kws_ = []
        for k_, v_ in t[3]:
            if k_ == "**" and v_[0] == "dict" and all(kv[0] != ("dstar",) and kv[0][0] == "const" and isinstance(kv[0][1], str) for kv in v_[1]):
                kws_ += [(kv[0][1], kv[1]) for kv in v_[1]]
            else:
                kws_.append((k_, v_))
        if len({k_ for k_, _ in kws_ if k_ != "**"}) == len([k_ for k_, _ in kws_ if k_ != "**"]):
            t = ("call", t[1], t[2], tuple(sorted([kv for kv in kws_ if kv[0] != "**"], key=lambda kv: kv[0]) + [kv for kv in kws_ if kv[0] == "**"]))
    if t and t[0] == "call" and len(t) == 4 and isinstance(t[2], tuple) and any(
            isinstance(a, tuple) and a and a[0] == "star" and a[1][0] in ("tuple", "list") and not any(x[0] == "star" for x in a[1][1]) for a in t[2]):
        args_ = []
        for a in t[2]:
            args_ += list(a[1][1]) if a[0] == "star" and a[1][0] in ("tuple", "list") and not any(x[0] == "star" for x in a[1][1]) else [a]
        t = ("call", t[1], tuple(args_), t[3])  # f(*(a, b)) once the display is explicit is f(a, b)
    if t and t[0] == "bin" and t[1] == "+" and t[2][0] == "list" and t[3][0] == "list":
        return ("list", t[2][1] + t[3][1])  # [a] + [b] is [a, b]
    if t and t[0] == "call" and t[1] in (("builtin", "tuple"), ("builtin", "list")) and len(t) == 4 and len(t[2]) == 1 and not t[3] \
            and t[2][0][0] == "call" and t[2][0][1] in (("builtin", "map"), ("builtin", "filter"), ("ext", "itertools.starmap")) and len(t[2][0][2]) == 2 \
            and t[2][0][2][1] in (("list", ()), ("tuple", ())):
        return (t[1][1], ())  # list(map(f, [])) / list(starmap(f, [])): nothing to map
    if t and t[0] == "call" and t[1] in (("builtin", "tuple"), ("builtin", "list")) and len(t) == 4 and len(t[2]) == 1 and not t[3] \
            and t[2][0][0] in ("tuple", "list") and not any(x[0] == "star" for x in t[2][0][1]):
        return (t[1][1], t[2][0][1])  # tuple((a, b)) / list((a, b)) of an explicit display
    if t and t[0] == "call" and t[1] == ("builtin", "len") and len(t) == 4 and len(t[2]) == 1 and not t[3] \
            and t[2][0][0] in ("tuple", "list") and not any(x[0] == "star" for x in t[2][0][1]):
        return ("const", len(t[2][0][1]))
    if t and t[0] == "dict" and len(t) == 2 and any(isinstance(kv, tuple) and len(kv) == 2 and kv[0] == ("dstar",) and kv[1][0] == "dict" for kv in t[1]):
        items_ = []
        for kv in t[1]:
            if kv[0] == ("dstar",) and kv[1][0] == "dict":
                items_ += list(kv[1][1])  # {**{k: v}, ...} is {k: v, ...}
            else:
                items_.append(kv)
        return ("dict", tuple(items_))
    if t and t[0] == "call" and t[1][0] == "attr" and t[1][2] == "join" and t[1][1][0] == "const" and isinstance(t[1][1][1], str) \
            and len(t[2]) == 1 and not t[3] and _join_as_fstr(t[1][1][1], t[2][0]) is not None:
        return _join_as_fstr(t[1][1][1], t[2][0])  # the display became explicit through a substitution
    if t and t[0] == "call" and t[1][0] == "attr" and t[1][2] == "_make" and t[1][1][0] == "global" and t[1][1][2] == "class" and len(t[2]) == 1 and not t[3] \
            and _MAKE_ARITY.get(t[1][1][1]):
        # Rec._make(x) of a NamedTuple record of n fields is Rec(x[0], ..., x[n-1]) (it raises unless x has exactly n items)
        return ("call", t[1][1], tuple(fold_sub(("sub", t[2][0], ("const", i))) for i in range(_MAKE_ARITY[t[1][1][1]])), ())
    if t and t[0] == "call" and t[1][0] == "ext" and t[1][1].startswith("operator.") and not t[3] and not any(a[0] == "star" for a in t[2]):
        # operator.lt picked from a table / handed to a helper and applied there: the same normal form as in a direct call
        nm_ = t[1][1].split(".", 1)[1]
        if nm_ in Evaluator.OPERATOR_BIN and len(t[2]) == 2:
            return fold_sub(("bin", Evaluator.OPERATOR_BIN[nm_], t[2][0], t[2][1]))
        if nm_ in Evaluator.OPERATOR_CMP and len(t[2]) == 2:
            return fold_sub(mk_cmp(Evaluator.OPERATOR_CMP[nm_], t[2][0], t[2][1]))
        if nm_ == "contains" and len(t[2]) == 2:
            return fold_sub(mk_cmp("in", t[2][1], t[2][0]))
        if nm_ == "getitem" and len(t[2]) == 2:
            return fold_sub(("sub", t[2][0], t[2][1]))
        if nm_ == "not_" and len(t[2]) == 1:
            return NOT(t[2][0])
        if nm_ == "neg" and len(t[2]) == 1:
            return ("neg", t[2][0])
    if t and t[0] == "call" and t[1][0] == "ext" and not t[3] and _shapely_method_form(t[1], t[2]) is not None:
        return _shapely_method_form(t[1], t[2])  # (a function picked from a table and applied: the same normal form as in a direct call)
    if t and t[0] in ("and", "or") and len(t) == 2 and any(x in (TRUE, FALSE) for x in t[1]):
        # a test decided by the substitution (`lower is not None` with lower=0): the connective is rebuilt without it
        return fold_sub(AND(*t[1]) if t[0] == "and" else OR(*t[1]))
    if t and t[0] == "ite" and len(t) == 4 and t[1][0] == "cmp" and t[1][1] == "lt" and {t[2], t[3]} == {t[1][2], t[1][3]} and t[2] != t[3]:
        return ITE(t[1], t[2], t[3])  # `lower if value < lower else value` after inlining: max / min
    if t and t[0] == "bin" and t[1] == "+" and t[2][0] == "const" and t[3][0] == "const" and isinstance(t[2][1], str) \
            and isinstance(t[3][1], str):
        return ("const", t[2][1] + t[3][1])
    if t and t[0] == "bin" and t[1] in ("+", "-", "*") and t[2][0] == "const" and t[3][0] == "const" \
            and all(isinstance(x[1], int) and not isinstance(x[1], bool) for x in (t[2], t[3])):
        # index arithmetic on integer constants (`bounds[axis + 2]` with axis = 0 after inlining): exact
        a_, b_ = t[2][1], t[3][1]
        return ("const", a_ + b_ if t[1] == "+" else (a_ - b_ if t[1] == "-" else a_ * b_))
    if t and t[0] == "dict" and any(k == ("dstar",) and v[0] == "dict" for k, v in t[1]):
        items = []
        for k, v in t[1]:
            if k == ("dstar",) and v[0] == "dict":
                items += list(v[1])
            else:
                items.append((k, v))
        return ("dict", tuple(items))
    if t and t[0] == "call" and any(k == "**" and v[0] == "ite" and _ite_of_displays(v) for k, v in t[3]):
        # f(**(D1 if c else D2)) with displays of constant keys: every key becomes a keyword whose value is conditional; a branch that
        # does not give the key leaves it ('absent',) -- the callee's default applies there
        kws = []
        for k, v in t[3]:
            if k == "**" and v[0] == "ite" and _ite_of_displays(v):
                keys = []
                for leaf in _ite_leaves(v):
                    for kk, _ in leaf[1]:
                        if kk[1] not in keys:
                            keys.append(kk[1])

                def pick(t_, key_):
                    if t_[0] == "ite":
                        return ITE(t_[1], pick(t_[2], key_), pick(t_[3], key_))
                    hit = [vv for kk, vv in t_[1] if kk[1] == key_]
                    return hit[-1] if hit else ("absent",)
                kws.append(("**", ("dict", tuple((("const", key_), pick(v, key_)) for key_ in keys))))
            else:
                kws.append((k, v))
        return fold_sub(("call", t[1], t[2], tuple(kws)))
    if t and t[0] == "call" and any(k == "**" and v[0] == "dict" and all((kk[0] == "const" and isinstance(kk[1], str)) or kk == ("dstar",)
                                                                         for kk, _ in v[1]) for k, v in t[3]):
        # f(**{"a": x, **rest}) is f(a=x, **rest)
        named = [(k, v) for k, v in t[3] if k != "**"]
        spreads = []
        for k, v in t[3]:
            if k == "**":
                if v[0] == "dict" and all((kk[0] == "const" and isinstance(kk[1], str)) or kk == ("dstar",) for kk, _ in v[1]):
                    for kk, vv in v[1]:
                        if kk == ("dstar",):
                            spreads.append(("**", vv))
                        else:
                            named = [(a, b) for a, b in named if a != kk[1]] + [(kk[1], vv)]
                else:
                    spreads.append((k, v))
        return ("call", t[1], t[2], tuple(sorted(named, key=lambda kv: kv[0]) + spreads))
    if t and t[0] == "call" and t[1] == ("builtin", "getattr") and len(t[2]) == 2 and not t[3] and t[2][1][0] == "const" \
            and isinstance(t[2][1][1], str) and t[2][1][1].isidentifier():
        return ("attr", t[2][0], t[2][1][1])
    if t and t[0] == "sub" and t[1][0] == "comp" and t[1][1] == "list" and len(t[1][3]) == 1 and not t[1][3][0][2] \
            and t[2][0] == "const" and isinstance(t[2][1], int) and not isinstance(t[2][1], bool) and t[2][1] >= 0:
        # [f(x) for x in xs][k] is f(xs[k])
        lid_, it_, _ = t[1][3][0]
        return fold_sub(subst(t[1][2], {("elem", lid_): fold_sub(("sub", it_, t[2]))}))
    if t and t[0] == "sub" and t[1][0] in ("tuple", "list") and t[2][0] == "const" and isinstance(t[2][1], int) \
            and not isinstance(t[2][1], bool) and -len(t[1][1]) <= t[2][1] < len(t[1][1]) \
            and not any(x[0] == "star" for x in t[1][1]):
        return t[1][1][t[2][1]]
    return t


def expand_pure_calls(t, summaries: "Summaries", cls: Optional[ClassInfo], module: Module, depth=0):
    """Replace calls to side-effect free methods of `cls` (self.m(...)) and functions of `module` by their value.

    A callee qualifies when its summary has no store / raise / yield / delete event and no statement loop; its value
    is the conditional chain of its returns with the parameters replaced by the arguments.  Used by rules that follow
    data flow (does field f reach keyword k?) and must not stop at a pure accessor such as `_get_soundevent_key`."""
    if not isinstance(t, tuple) or not t or depth > 3:
        return t
    if not isinstance(t[0], str):
        return tuple(expand_pure_calls(c, summaries, cls, module, depth) for c in t)
    t = tuple(expand_pure_calls(c, summaries, cls, module, depth) if isinstance(c, tuple) else c for c in t)
    if t[0] != "call":
        return t
    f = t[1]
    cs = None
    selfterm = None
    try:
        if f[0] == "attr" and f[1] in (("param", "self"), ("param", "cls")) and cls is not None:
            cs = summaries.of_method(cls, f[2])
            selfterm = f[1]
        elif f[0] == "global" and f[2] == "func" and ":" in f[1] and "." not in f[1].split(":")[1] and (
                f[1].startswith(module.name + ":") or f[1].split(":")[1] not in PINNED.get(f[1].split(":")[0], ())):
            # (a helper the reference tree does not have is read wherever it lives)
            cs = summaries.of_func(f[1].split(":")[0], f[1].split(":")[1])
    except (AnalysisError, RecursionError):
        return t
    if cs is None or cs.is_generator or cs.kwarg:
        return t
    if any(e.kind in ("store", "raise", "yield", "delete", "break", "continue") for e in cs.events):
        return t
    if any(li.kind != "comp" for li in cs.loops.values()):
        return t
    params = list(cs.params)
    bound: Dict[tuple, tuple] = {}
    if selfterm is not None:
        if not params:
            return t
        bound[("param", params[0])] = selfterm
        params = params[1:]
    if any(a[0] == "star" for a in t[2]) or any(k == "**" for k, _ in t[3]) or (len(t[2]) > len(params) and not cs.vararg):
        return t
    if cs.vararg:
        if cs.vararg in params:
            return t
        bound[("param", cs.vararg)] = bound[("param", "*" + cs.vararg)] = ("tuple", tuple(t[2][len(params):]))
    for p, a in zip(params, t[2]):
        bound[("param", p)] = a
    for k, v in t[3]:
        if k not in params or ("param", k) in bound:
            return t
        bound[("param", k)] = v
    for p in params:
        if ("param", p) not in bound:
            if p not in cs.defaults:
                return t
            bound[("param", p)] = cs.defaults[p]
    rets = cs.raw_returns
    if not rets or cs.fall_live != FALSE:
        return t
    v = fold_sub(subst(rets[-1].term, bound))
    for r in reversed(rets[:-1]):
        c_ = fold_sub(subst(r.live, bound))
        v = ITE(c_, fold_sub(subst(r.term, bound)), v)
    return fold_sub(expand_pure_calls(v, summaries, cls, module, depth + 1))


def normalise_find_first(sm: "Summary") -> "Summary":
    """View of a summary in which every find-first loop

        for x in it:
            if c(x):
                return f(x)
        <rest>

    reads `n = next((x for x in it if c(x)), None)`; `if n is not None: return f(n)`; <rest> (the elements are
    objects, never None).  Only loops whose body does nothing but that conditional return qualify.  Applied on demand
    by rules whose reference spelling is the next() form."""
    import dataclasses
    evs = list(sm.events)
    changed = False
    for lid, li in sm.loops.items():
        if li.kind != "for" or li.has_else:
            continue
        inside = [e for e in evs if lid in e.loops]
        rets = [e for e in inside if e.kind == "return"]
        if len(rets) != 1 or rets[0].loops[-1] != lid or any(e.kind not in ("call", "return") for e in inside):
            continue
        r = rets[0]
        conj = list(conjuncts(r.live))
        if ("inloop", lid) not in conj:
            continue
        k = conj.index(("inloop", lid))
        pre, conds = conj[:k], conj[k + 1:]
        el = ("elem", lid)
        if any(x[0] in ("phi", "loopout") for c in conds for x in walk(c)):
            continue
        n = ("call", ("builtin", "next"), (("comp", "gen", el, ((lid, li.iter, tuple(conds)),)), NONE), ())
        found = ("cmp", "isnot", n, NONE)
        out = []
        done = False
        for e in evs:
            if lid in e.loops:
                if e is r:
                    out.append(Event("call", AND(*pre), n, r.node, r.loops[:-1], r.idx, r.handlers, r.in_handler))
                    out.append(Event("return", AND(*pre, found), subst(r.term, {el: n}), r.node, r.loops[:-1], r.idx, r.handlers,
                                     r.in_handler))
                    done = True
                elif e.kind == "call" and any(x == e.term for x in walk(r.term)):
                    # the call that computes the returned value happens once, for the element found
                    out.append(Event("call", AND(*pre, found), subst(e.term, {el: n}), e.node, e.loops[:-1], e.idx, e.handlers, e.in_handler))
                continue
            if done and e.idx > r.idx:
                cj_ = conjuncts(e.live)
                if all(c in cj_ for c in pre):
                    e = dataclasses.replace(e, live=AND(e.live, NOT(found)))
                else:
                    # the path through the loop may be one alternative of a join (`if xs: <loop>` followed by a common return):
                    # only that alternative learns that nothing was found
                    flat = [c for c in cj_ if c[0] != "or"]
                    new_cj, hit = [], False
                    for c in cj_:
                        if c[0] == "or":
                            alts = []
                            for d in c[1]:
                                if all(p_ in flat + list(conjuncts(d)) for p_ in pre):
                                    alts.append(AND(d, NOT(found)))
                                    hit = True
                                else:
                                    alts.append(d)
                            new_cj.append(OR(*alts))
                        else:
                            new_cj.append(c)
                    if hit:
                        e = dataclasses.replace(e, live=AND(*new_cj))
            out.append(e)
        evs = out
        changed = True
    if not changed:
        return sm
    return dataclasses.replace(sm, events=evs)


# ---------------------------------------------------------------------------------- term utilities

def walk(t):
    """Yield every sub-term of t (pre-order)."""
    stack = [t]
    while stack:
        x = stack.pop()
        if not isinstance(x, tuple) or not x:
            continue
        tagged = isinstance(x[0], str)
        if tagged:
            yield x
        for c in (x[1:] if tagged else x):
            if isinstance(c, tuple):
                stack.append(c)


def contains(t, pred) -> bool:
    return any(pred(x) for x in walk(t))


def subst(t, mapping: Dict[tuple, tuple]):
    if not isinstance(t, tuple):
        return t
    if t in mapping:
        return mapping[t]
    return tuple(subst(c, mapping) for c in t)


def show(t, depth=0) -> str:
    """Compact human-readable rendering of a term."""
    if not isinstance(t, tuple) or not t or not isinstance(t[0], str):
        if isinstance(t, tuple):
            return "(" + ", ".join(show(x) for x in t) + ")"
        return repr(t)
    k = t[0]
    if depth > 12:
        return "…"
    d = depth + 1
    if k == "const":
        return repr(t[1])
    if k == "param":
        return t[1]
    if k == "global":
        return t[1].split(":")[-1]
    if k == "global_module":
        return t[1]
    if k in ("ext", "builtin", "unbound"):
        return t[1]
    if k == "attr":
        return f"{show(t[1], d)}.{t[2]}"
    if k == "sub":
        return f"{show(t[1], d)}[{show(t[2], d)}]"
    if k == "slice":
        f = lambda x: "" if x == NONE else show(x, d)
        return f"{f(t[1])}:{f(t[2])}" + (f":{f(t[3])}" if t[3] != NONE else "")
    if k == "call":
        a = [show(x, d) for x in t[2]] + [(f"{n}={show(v, d)}" if n != "**" else f"**{show(v, d)}") for n, v in t[3]]
        return f"{show(t[1], d)}({', '.join(a)})"
    if k == "bin":
        return f"({show(t[2], d)} {t[1]} {show(t[3], d)})"
    if k == "neg":
        return f"-{show(t[1], d)}"
    if k == "cmp":
        sym = {"lt": "<", "le": "<=", "eq": "==", "ne": "!=", "in": "in", "notin": "not in", "is": "is",
               "isnot": "is not", "gt": ">", "ge": ">="}[t[1]]
        return f"({show(t[2], d)} {sym} {show(t[3], d)})"
    if k == "not":
        return f"not {show(t[1], d)}"
    if k in ("and", "or"):
        return "(" + f" {k} ".join(show(x, d) for x in t[1]) + ")"
    if k == "ite":
        return f"({show(t[2], d)} if {show(t[1], d)} else {show(t[3], d)})"
    if k in ("tuple", "list", "set"):
        o, c = {"tuple": "()", "list": "[]", "set": "{}"}[k]
        return o + ", ".join(show(x, d) for x in t[1]) + c
    if k == "dict":
        return "{" + ", ".join(f"{show(a, d)}: {show(b, d)}" for a, b in t[1]) + "}"
    if k == "comp":
        gens = " ".join(f"for {lid} in {show(it, d)}" + "".join(f" if {show(c, d)}" for c in cs) for lid, it, cs in t[3])
        return f"<{t[1]}comp {show(t[2], d)} {gens}>"
    if k == "kv":
        return f"{show(t[1], d)}: {show(t[2], d)}"
    if k == "elem":
        return f"elem({t[1]})"
    if k in ("phi", "loopout"):
        return f"{k}({t[1]},{t[2]})"
    if k == "fstr":
        return "f'" + "".join(x[1] if x[0] == "const" else "{" + show(x, d) + "}" for x in t[1]) + "'"
    if k == "star":
        return "*" + show(t[1], d)
    if k == "inloop":
        return f"in {t[1]}"
    if k == "alloc":
        return f"<{t[1]} {t[2].split('@')[0]}>"
    if k == "caught":
        return f"caught {'/'.join(t[2])}"
    return k + "(" + ", ".join(show(x, d) if isinstance(x, tuple) else str(x) for x in t[1:]) + ")"


# ---------------------------------------------------------------------------------- E2: call binder

def bind_args(call_term, params, skip_first=False):
    """Bind positional / keyword arguments of a call term to a parameter list.

    Returns (bound: {param: term}, extra: {kw: term} not matching a parameter, spreads: [term], too_many: bool)."""
    ps = list(params[1:] if skip_first else params)
    bound, extra, spreads = {}, {}, []
    too_many = False
    pos = 0
    for a in call_term[2]:
        if a[0] == "star":
            spreads.append(a)
            continue
        if pos < len(ps):
            bound[ps[pos]] = a
        else:
            too_many = True
        pos += 1
    for k, v in call_term[3]:
        if k == "**":
            spreads.append(("dstar", v))
        elif k in ps:
            bound[k] = v
        else:
            extra[k] = v
    return bound, extra, spreads, too_many
