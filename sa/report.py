"""E10 -- verdict bookkeeping, known findings, replay files, evidence."""

from __future__ import annotations

import hashlib
import json
import os
import re
import time
from dataclasses import dataclass, field
from typing import Any, Dict, List, Optional

from .index import AnalysisError, Index
from .models import Models
from .sym import Summaries

VERIF = os.path.dirname(os.path.dirname(os.path.abspath(__file__)))


def norm(text: str) -> str:
    return re.sub(r"\s+", " ", text).strip()


@dataclass
class Finding:
    prop: str
    rule: str
    file: str  # path relative to the repository root
    func: str  # qualified construct ("Class.method", "function", "CONSTANT")
    construct: str  # normalised text identifying the construct (never a line number)
    message: str
    line: int = 0
    witness: Any = None

    def key(self) -> Dict[str, str]:
        return {"property": self.prop, "rule": self.rule, "file": self.file, "function": self.func,
                "construct": norm(self.construct)}

    def digest(self) -> str:
        return hashlib.sha256(json.dumps(self.key(), sort_keys=True).encode()).hexdigest()[:12]


@dataclass
class Undecided:
    rule: str
    site: str
    reason: str


class Ctx:
    """Everything a property checker needs; collects instances, findings, undecided items."""

    def __init__(self, prop: str, index: Index, tier: str = "quick"):
        self.prop = prop
        self.index = index
        self.tier = tier
        self.models = Models(index)
        self.summ = Summaries(index)
        self.findings: List[Finding] = []
        self.undecided: List[Undecided] = []
        self.instances: Dict[str, List[dict]] = {}
        self.floors: Dict[str, int] = {}
        self.rule_text: Dict[str, str] = {}
        self.notes: List[str] = []
        self.extra: Dict[str, Any] = {}
        self._prefix = ""  # set while the rules of a prerequisite property run on behalf of this one

    def delegated(self, prefix: str):
        """Context manager: rule ids used inside are recorded as '<prefix><rule id>' (the rules of another property that
        are necessary conditions of this one, run over the mechanism files this property is anchored in)."""
        ctx = self

        class _D:
            def __enter__(self_):
                self_.old = ctx._prefix
                ctx._prefix = ctx._prefix + prefix

            def __exit__(self_, *a):
                ctx._prefix = self_.old
                return False

        return _D()

    # -- E2: calls to in-package functions rewritten to all-keyword form (positional == keyword spelling)
    def normcalls(self, t):
        if not isinstance(t, tuple) or not t:
            return t
        if not isinstance(t[0], str):
            return tuple(self.normcalls(c) for c in t)
        t = tuple(self.normcalls(c) if isinstance(c, tuple) else c for c in t)
        if t[0] == "call" and t[1][0] == "global" and t[1][2] == "func" and ":" in t[1][1]:
            modname, fname = t[1][1].split(":")
            try:
                fs = self.summ.of_func(modname, fname)
            except Exception:  # noqa: BLE001
                return t
            if any(a[0] == "star" for a in t[2]) or any(k == "**" for k, _ in t[3]) or len(t[2]) > len(fs.params):
                return t
            kws = dict(t[3])
            for p, a in zip(fs.params, t[2]):
                kws[p] = a
            return ("call", t[1], (), tuple(sorted(kws.items())))
        return t

    # -- rule declaration
    def rule(self, rid: str, text: str, floor: int):
        rid = self._prefix + rid
        self.rule_text[rid] = text
        self.floors[rid] = floor
        self.instances.setdefault(rid, [])

    # -- instance verdicts
    def ok(self, rid: str, site: str, what: str, **kw):
        rid = self._prefix + rid
        self.instances.setdefault(rid, []).append({"site": site, "obligation": what, "verdict": "PASS", **kw})

    def bad(self, rid: str, file: str, func: str, construct: str, message: str, line: int = 0, witness=None,
            count_instance=True):
        rid = self._prefix + rid
        f = Finding(self.prop, rid, file, func, construct, message, line, witness)
        # one finding per key
        if not any(g.key() == f.key() for g in self.findings):
            self.findings.append(f)
        if count_instance:
            self.instances.setdefault(rid, []).append(
                {"site": f"{file}:{line} {func}", "obligation": norm(construct)[:200], "verdict": "VIOLATION",
                 "message": message, **({"witness": witness} if witness is not None else {})})

    def undec(self, rid: str, site: str, reason: str):
        rid = self._prefix + rid
        self.undecided.append(Undecided(rid, site, reason))
        self.instances.setdefault(rid, []).append({"site": site, "obligation": reason, "verdict": "UNDECIDED"})

    def note(self, text: str):
        self.notes.append(text)

    def count(self, rid: str) -> int:
        return len(self.instances.get(rid, []))


# ------------------------------------------------------------------------------------ known findings

def load_known(path: Optional[str] = None) -> dict:
    path = path or os.path.join(VERIF, "KNOWN_FINDINGS.json")
    if not os.path.exists(path):
        return {"known": [], "fixed": []}
    with open(path) as fh:
        return json.load(fh)


def match_known(f: Finding, known: dict) -> Optional[dict]:
    k = f.key()
    for entry in known.get("known", []):
        m = entry.get("match", {})
        # the file is recorded for the reader; a listed construct that merely moved to another module is the same finding
        if all(norm(str(m.get(x, ""))) == k[x] for x in ("property", "rule", "function", "construct")):
            return entry
    return None


# ------------------------------------------------------------------------------------ finishing a run

def finish(ctx: Ctx, t0: float, evidence_dir: Optional[str], seed: int, explanation: str, assumptions: List[str],
           quiet=False) -> int:
    """Print the verdicts, write evidence + replay files, return the exit code."""
    prop = ctx.prop
    # floors (vacuity guard)
    for rid, fl in ctx.floors.items():
        n = ctx.count(rid)
        if n < fl:
            ctx.undecided.append(Undecided(rid, "-", f"vacuity guard: {n} instances found, floor is {fl}"))
    known = load_known()
    new, listed = [], []
    for f in ctx.findings:
        e = match_known(f, known)
        (listed if e else new).append((f, e))

    out = print if not quiet else (lambda *a, **k: None)
    for rid in ctx.rule_text:
        inst = ctx.instances.get(rid, [])
        nb = sum(1 for i in inst if i["verdict"] == "VIOLATION")
        nu = sum(1 for i in inst if i["verdict"] == "UNDECIDED")
        out(f"[{prop}] {rid}: {len(inst)} instances (floor {ctx.floors[rid]}), {nb} violating, {nu} undecided"
            f" -- {ctx.rule_text[rid]}")
    for n in ctx.notes:
        out(f"NOTE {n}")
    replay_dir = os.path.join(evidence_dir, "replay", prop) if evidence_dir else None
    for f, e in listed:
        out(f"KNOWN-FINDING: property={prop} {f.rule} {f.file} {f.func}: {f.message}")
    for f, _ in new:
        rp = "-"
        if replay_dir:
            os.makedirs(replay_dir, exist_ok=True)
            rp = os.path.join(replay_dir, f"{f.rule}-{f.digest()}.json")
            with open(rp, "w") as fh:
                json.dump({"key": f.key(), "message": f.message, "line": f.line, "witness": f.witness}, fh, indent=1,
                          default=str)
        out(f"VIOLATION property={prop} replay={rp}")
        out(f"  {f.file}:{f.line} {f.func} [{f.rule}] {f.message}")
        if f.witness is not None:
            out(f"  witness: {json.dumps(f.witness, default=str)[:400]}")
    for u in ctx.undecided:
        out(f"ANALYSIS-ERROR property={prop} rule={u.rule} site={u.site} reason={u.reason}")

    n_inst = sum(len(v) for v in ctx.instances.values())
    distinct = len({(rid, i["site"], i["obligation"]) for rid, v in ctx.instances.items() for i in v})
    samples = []
    for rid, v in ctx.instances.items():
        for i in v[:2]:
            samples.append({"rule": rid, **i})
        for i in v:
            if i["verdict"] != "PASS" and {"rule": rid, **i} not in samples:
                samples.append({"rule": rid, **i})
    ev = {
        "property_id": prop,
        "tier": ctx.tier if ctx.tier in ("quick", "thorough") else "quick",
        "seed": seed,
        "level": "other",
        "coverage": {
            "explanation": explanation,
            "evaluations": n_inst,
            "distinct_nontrivial": distinct,
            "rule": "one evaluation = one rule instance (a construct of /repo's current source with a non-empty "
                    "obligation); distinct = distinct (rule, site, obligation) triples, counted on this run",
            "samples": samples[:60],
            "exhaustive": True,
            "per_rule": {rid: {"text": ctx.rule_text[rid], "floor": ctx.floors[rid], "found": ctx.count(rid),
                               "violating": sum(1 for i in ctx.instances.get(rid, []) if i["verdict"] == "VIOLATION"),
                               "undecided": sum(1 for i in ctx.instances.get(rid, []) if i["verdict"] == "UNDECIDED")}
                         for rid in ctx.rule_text},
            "modules_parsed": ctx.index.n_modules(),
            "source_digest": ctx.index.digest(),
            "source_root": ctx.index.root,
            "known_findings_matched": [f.key() for f, _ in listed],
            "new_violations": [dict(f.key(), message=f.message, line=f.line) for f, _ in new],
            "undecided": [u.__dict__ for u in ctx.undecided],
            "notes": ctx.notes,
            **ctx.extra,
        },
        "assumptions": assumptions,
        "wall_s": round(time.time() - t0, 3),
        "violations": len(new),
    }
    if evidence_dir:
        os.makedirs(evidence_dir, exist_ok=True)
        with open(os.path.join(evidence_dir, f"{prop}.json"), "w") as fh:
            json.dump(ev, fh, indent=1, default=str)
    if new:
        return 1
    if ctx.undecided:
        return 2
    out(f"[{prop}] OK: {n_inst} rule instances over {ctx.index.n_modules()} modules, "
        f"{len(listed)} known finding(s), wall {ev['wall_s']} s")
    return 0
