"""E1 -- pydantic model tables reconstructed from class bodies (no import of the code)."""

from __future__ import annotations

import ast
from dataclasses import dataclass, field
from typing import Dict, List, Optional, Tuple

from .index import AnalysisError, ClassInfo, Index, Module, dotted_name

# type shapes:
#   ('prim', name) ('cls', qual) ('opt', T) ('list', T) ('dict', K, V) ('tuple', (T..)) ('lit', (v..))
#   ('union', (T..)) ('other', text)

SEQ_NAMES = {"List", "list", "Sequence", "typing.List", "typing.Sequence", "collections.abc.Sequence", "Iterable",
             "Set", "set", "FrozenSet", "frozenset"}
DICT_NAMES = {"Dict", "dict", "Mapping", "typing.Dict"}
PRIMS = {"float", "int", "str", "bool", "bytes", "UUID", "Path", "datetime.datetime", "datetime.date",
         "datetime.time", "EmailStr", "Any", "object"}


@dataclass
class FieldInfo:
    name: str
    owner: ClassInfo
    node: ast.AnnAssign
    ann: ast.expr
    shape: tuple
    has_default: bool
    default: Optional[ast.expr]  # plain default expression or Field(default=...)/first positional
    default_factory: Optional[ast.expr]
    field_kwargs: Dict[str, ast.expr] = field(default_factory=dict)

    @property
    def required(self) -> bool:
        return not self.has_default

    @property
    def optional(self) -> bool:
        return self.shape[0] == "opt"


@dataclass
class ValidatorInfo:
    name: str
    kind: str  # 'field' | 'model'
    mode: str  # 'after' | 'before' | 'wrap' | 'plain'
    fields: Tuple[str, ...]
    node: ast.FunctionDef
    owner: ClassInfo


class Models:
    def __init__(self, index: Index):
        self.index = index
        self._fields: Dict[str, List[FieldInfo]] = {}

    # ------------------------------------------------------------------ classification
    def is_model(self, ci: ClassInfo) -> bool:
        return ci.has_ext_base("BaseModel")

    def all_models(self) -> List[ClassInfo]:
        return [c for c in self.index.all_classes() if self.is_model(c)]

    # ------------------------------------------------------------------ fields
    def fields(self, ci: ClassInfo) -> List[FieldInfo]:
        if ci.qual in self._fields:
            return self._fields[ci.qual]
        out: Dict[str, FieldInfo] = {}
        for c in reversed(ci.mro()):
            for st in c.node.body:
                if not isinstance(st, ast.AnnAssign) or not isinstance(st.target, ast.Name):
                    continue
                name = st.target.id
                if name == "model_config" or name.startswith("_"):
                    continue
                ann_txt = ast.unparse(st.annotation)
                if ann_txt.startswith("ClassVar") or ann_txt.startswith("typing.ClassVar"):
                    continue
                fi = self._field(c, st)
                if name in out:
                    # keep declaration order of first appearance, override info
                    out[name] = fi
                else:
                    out[name] = fi
        res = list(out.values())
        self._fields[ci.qual] = res
        return res

    def field_map(self, ci: ClassInfo) -> Dict[str, FieldInfo]:
        return {f.name: f for f in self.fields(ci)}

    def _field(self, c: ClassInfo, st: ast.AnnAssign) -> FieldInfo:
        shape = self.shape(c.module, st.annotation)
        has_default = st.value is not None
        default = None
        factory = None
        kwargs: Dict[str, ast.expr] = {}
        v = st.value
        if isinstance(v, ast.Call) and dotted_name(v.func) in ("Field", "pydantic.Field"):
            kwargs = {k.arg: k.value for k in v.keywords if k.arg}
            for k in v.keywords:  # Field(**{"default": ..., "ge": 0})
                if k.arg is None and isinstance(k.value, ast.Dict) and all(isinstance(kk, ast.Constant) and isinstance(kk.value, str) for kk in k.value.keys):
                    kwargs.update({kk.value: vv for kk, vv in zip(k.value.keys, k.value.values)})
            has_default = False
            if v.args:
                a0 = v.args[0]
                if not (isinstance(a0, ast.Constant) and a0.value is Ellipsis):
                    has_default = True
                    default = a0
            if "default" in kwargs:
                d = kwargs["default"]
                if not (isinstance(d, ast.Constant) and d.value is Ellipsis):
                    has_default = True
                    default = d
            if "default_factory" in kwargs:
                has_default = True
                factory = kwargs["default_factory"]
        elif v is not None:
            default = v
        # constraints given as Annotated[...] metadata (directly or through a module-level alias `Score = Annotated[float, Field(ge=0,
        # le=1)]`) constrain the field like the keywords of `= Field(...)`; the assignment's own keywords win
        for meta in self.annotated_meta(c.module, st.annotation):
            if isinstance(meta, ast.Call) and dotted_name(meta.func) in ("Field", "pydantic.Field"):
                for k in meta.keywords:
                    if k.arg and k.arg not in ("default", "default_factory") and k.arg not in kwargs:
                        kwargs[k.arg] = k.value
        return FieldInfo(st.target.id, c, st, st.annotation, shape, has_default, default, factory, kwargs)

    def _annotated_meta_with_modules(self, mod: Module, ann: ast.expr, depth=0):
        """[(metadata expression, module it is written in)] -- like annotated_meta, keeping where each expression's names resolve"""
        if depth > 6:
            return []
        if isinstance(ann, ast.Constant) and isinstance(ann.value, str):
            try:
                return self._annotated_meta_with_modules(mod, ast.parse(ann.value, mode="eval").body, depth + 1)
            except SyntaxError:
                return []
        if isinstance(ann, (ast.Name, ast.Attribute)):
            d = dotted_name(ann)
            s = self.index.resolve(mod, d) if d else None
            if s is not None and s.kind == "assign" and s.module is not None and getattr(s.node, "value", None) is not None:
                return self._annotated_meta_with_modules(s.module, s.node.value, depth + 1)
            return []
        if isinstance(ann, ast.Subscript):
            head = (dotted_name(ann.value) or ast.unparse(ann.value)).split(".")[-1]
            args = ann.slice.elts if isinstance(ann.slice, ast.Tuple) else [ann.slice]
            if head == "Annotated":
                return self._annotated_meta_with_modules(mod, args[0], depth + 1) + [(a, mod) for a in args[1:]]
            if head == "Optional":
                return self._annotated_meta_with_modules(mod, args[0], depth + 1)
        return []

    def annotated_meta(self, mod: Module, ann: ast.expr, depth=0) -> List[ast.expr]:
        """metadata expressions of every Annotated[...] the annotation is (after following module-level aliases) or contains at top level"""
        if depth > 6:
            return []
        if isinstance(ann, ast.Constant) and isinstance(ann.value, str):
            try:
                return self.annotated_meta(mod, ast.parse(ann.value, mode="eval").body, depth + 1)
            except SyntaxError:
                return []
        if isinstance(ann, (ast.Name, ast.Attribute)):
            d = dotted_name(ann)
            s = self.index.resolve(mod, d) if d else None
            if s is not None and s.kind == "assign" and s.module is not None and getattr(s.node, "value", None) is not None:
                return self.annotated_meta(s.module, s.node.value, depth + 1)
            return []
        if isinstance(ann, ast.Subscript):
            head = (dotted_name(ann.value) or ast.unparse(ann.value)).split(".")[-1]
            args = ann.slice.elts if isinstance(ann.slice, ast.Tuple) else [ann.slice]
            if head == "Annotated":
                return list(args[1:]) + self.annotated_meta(mod, args[0], depth + 1)
            if head == "Optional":
                return self.annotated_meta(mod, args[0], depth + 1)
        return []

    # ------------------------------------------------------------------ annotation shapes
    def shape(self, mod: Module, ann: ast.expr, depth=0) -> tuple:
        if depth > 10:
            return ("other", ast.unparse(ann))
        if isinstance(ann, ast.Constant):
            if ann.value is None:
                return ("prim", "None")
            if isinstance(ann.value, str):
                try:
                    return self.shape(mod, ast.parse(ann.value, mode="eval").body, depth + 1)
                except SyntaxError:
                    return ("other", ann.value)
        if isinstance(ann, ast.BinOp) and isinstance(ann.op, ast.BitOr):
            parts = [self.shape(mod, ann.left, depth + 1), self.shape(mod, ann.right, depth + 1)]
            return self._union(parts)
        if isinstance(ann, ast.Subscript):
            head = dotted_name(ann.value) or ast.unparse(ann.value)
            hshort = head.split(".")[-1]
            args = ann.slice.elts if isinstance(ann.slice, ast.Tuple) else [ann.slice]
            if hshort == "Optional":
                return self._union([self.shape(mod, args[0], depth + 1), ("prim", "None")])
            if hshort == "Union":
                return self._union([self.shape(mod, a, depth + 1) for a in args])
            if hshort in ("Literal",):
                vals = []
                for a in args:
                    if isinstance(a, ast.Constant):
                        vals.append(a.value)
                    else:
                        return ("other", ast.unparse(ann))
                return ("lit", tuple(vals))
            if hshort in ("List", "list", "Sequence", "Iterable", "Set", "set", "FrozenSet", "frozenset"):
                return ("list", self.shape(mod, args[0], depth + 1))
            if hshort in ("Dict", "dict", "Mapping"):
                return ("dict", self.shape(mod, args[0], depth + 1), self.shape(mod, args[1], depth + 1))
            if hshort in ("Tuple", "tuple"):
                return ("tuple", tuple(self.shape(mod, a, depth + 1) for a in args))
            if hshort in ("Type", "type"):
                return ("type", self.shape(mod, args[0], depth + 1))
            if hshort == "Annotated":
                return self.shape(mod, args[0], depth + 1)
            return ("other", ast.unparse(ann))
        d = dotted_name(ann)
        if d is None:
            return ("other", ast.unparse(ann))
        if d in PRIMS or d.split(".")[-1] in ("UUID", "Path", "EmailStr"):
            return ("prim", d.split(".")[-1] if d.split(".")[-1] in ("UUID", "Path", "EmailStr") else d)
        s = self.index.resolve(mod, d)
        if s is None:
            return ("prim", d) if d in ("float", "int", "str", "bool") else ("other", d)
        if s.kind == "class":
            return ("cls", s.qual)
        if s.kind == "assign":
            # type alias: X = Literal[...] / Union[...] / float
            val = s.node.value
            return self.shape(s.module, val, depth + 1)
        if s.kind == "ext":
            tail = s.qual.split(".")[-1]
            return ("prim", tail)
        return ("other", d)

    def _union(self, parts: List[tuple]) -> tuple:
        flat = []
        for p in parts:
            if p[0] == "union":
                flat += list(p[1])
            elif p[0] == "opt":
                flat += [p[1], ("prim", "None")]
            else:
                flat.append(p)
        none = [p for p in flat if p == ("prim", "None")]
        rest = [p for p in flat if p != ("prim", "None")]
        ded = []
        for p in rest:
            if p not in ded:
                ded.append(p)
        core = ded[0] if len(ded) == 1 else ("union", tuple(ded))
        return ("opt", core) if none else core

    # ------------------------------------------------------------------ validators / hash
    def validators(self, ci: ClassInfo, inherited=True) -> List[ValidatorInfo]:
        out = []
        classes = ci.mro() if inherited else [ci]
        for c in classes:
            for st in c.node.body:
                if isinstance(st, ast.Assign) and len(st.targets) == 1 and isinstance(st.targets[0], ast.Name) and isinstance(st.value, ast.Call) \
                        and isinstance(st.value.func, ast.Call) and len(st.value.args) == 1 and isinstance(st.value.args[0], ast.Name):
                    # name = model_validator(mode="after")(module_level_function): the decorator applied by hand
                    dn = dotted_name(st.value.func.func)
                    short = dn.split(".")[-1] if dn else None
                    if short in ("field_validator", "model_validator"):
                        defs_ = [x for x in c.module.defs.get(st.value.args[0].id, []) if isinstance(x, ast.FunctionDef)]
                        if defs_:
                            call = st.value.func
                            mode = "after" if short == "field_validator" else "?"
                            for k in call.keywords:
                                if k.arg == "mode" and isinstance(k.value, ast.Constant):
                                    mode = k.value.value
                            fields = tuple(a.value for a in call.args if isinstance(a, ast.Constant)) if short == "field_validator" else ()
                            out.append(ValidatorInfo(st.targets[0].id, "field" if short == "field_validator" else "model", mode, fields, defs_[-1], c))
                    continue
                if isinstance(st, ast.AnnAssign) and isinstance(st.target, ast.Name) and not st.target.id.startswith("_"):
                    # validators carried by the annotation: Annotated[T, AfterValidator(f), ...] (directly or through a module-level alias)
                    # run on the field like @field_validator(<field>) functions, in the order they are listed
                    for meta, mmod in self._annotated_meta_with_modules(c.module, st.annotation):
                        if isinstance(meta, ast.Call) and (dotted_name(meta.func) or "").split(".")[-1] in ("AfterValidator", "BeforeValidator", "PlainValidator") \
                                and len(meta.args) == 1 and isinstance(meta.args[0], (ast.Name, ast.Attribute)):
                            try:
                                sy = self.index.resolve_expr(mmod, meta.args[0])
                            except Exception:  # noqa: BLE001
                                sy = None
                            if sy is not None and sy.kind == "func" and isinstance(sy.node, ast.FunctionDef) and sy.module is not None:
                                short_ = (dotted_name(meta.func) or "").split(".")[-1]
                                mode_ = {"AfterValidator": "after", "BeforeValidator": "before", "PlainValidator": "plain"}[short_]
                                if hasattr(self.index, "node_home"):
                                    self.index.node_home[id(sy.node)] = sy.module
                                out.append(ValidatorInfo(sy.node.name, "field", mode_, (st.target.id,), sy.node, c))
                    continue
                if not isinstance(st, ast.FunctionDef):
                    continue
                for pos_, d in enumerate(st.decorator_list):
                    call = d if isinstance(d, ast.Call) else None
                    name = dotted_name(call.func if call else d)
                    if name is None:
                        continue
                    short = name.split(".")[-1]
                    if short in ("field_validator", "model_validator") and pos_ != 0:
                        # pydantic collects the descriptor the validator decorator returns from the class namespace: when
                        # another decorator (@classmethod written ABOVE it, a wrapper) is applied on top, the attribute is no
                        # longer that descriptor and the validator is silently never run
                        continue
                    if short == "field_validator":
                        fields = tuple(a.value for a in (call.args if call else []) if isinstance(a, ast.Constant))
                        mode = "after"
                        for k in (call.keywords if call else []):
                            if k.arg == "mode" and isinstance(k.value, ast.Constant):
                                mode = k.value.value
                        out.append(ValidatorInfo(st.name, "field", mode, fields, st, c))
                    elif short == "model_validator":
                        mode = "?"
                        for k in (call.keywords if call else []):
                            if k.arg == "mode" and isinstance(k.value, ast.Constant):
                                mode = k.value.value
                        out.append(ValidatorInfo(st.name, "model", mode, (), st, c))
        return out

    def model_config(self, ci: ClassInfo) -> Dict[str, ast.expr]:
        for c in ci.mro():
            for st in c.node.body:
                tgt = None
                if isinstance(st, ast.Assign) and len(st.targets) == 1 and isinstance(st.targets[0], ast.Name):
                    tgt = st.targets[0].id
                elif isinstance(st, ast.AnnAssign) and isinstance(st.target, ast.Name):
                    tgt = st.target.id
                if tgt == "model_config" and isinstance(st.value, ast.Call):
                    return {k.arg: k.value for k in st.value.keywords if k.arg}
                if tgt == "model_config" and isinstance(st.value, ast.Dict):
                    # a plain dict is accepted by pydantic as well
                    return {k.value: v for k, v in zip(st.value.keys, st.value.values) if isinstance(k, ast.Constant) and isinstance(k.value, str)}
        return {}


def shape_str(s: tuple) -> str:
    k = s[0]
    if k == "prim":
        return s[1]
    if k == "cls":
        return s[1].split(":")[-1]
    if k == "opt":
        return f"Optional[{shape_str(s[1])}]"
    if k == "list":
        return f"List[{shape_str(s[1])}]"
    if k == "dict":
        return f"Dict[{shape_str(s[1])}, {shape_str(s[2])}]"
    if k == "tuple":
        return "Tuple[" + ", ".join(shape_str(x) for x in s[1]) + "]"
    if k == "lit":
        return "Literal[" + ", ".join(repr(x) for x in s[1]) + "]"
    if k == "union":
        return "Union[" + ", ".join(shape_str(x) for x in s[1]) + "]"
    return str(s[1])


def strip_opt(s: tuple) -> tuple:
    return s[1] if s[0] == "opt" else s
