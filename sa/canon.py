"""E5 -- algebraic canonicalisation of terms (value numbering modulo + - * / by constants and commutativity).

``lin(t)``   -> {monomial: coef}: polynomial normal form over opaque atoms, monomial = (numerator atoms,
               denominator atoms); products distribute over sums, quotients by a single monomial invert it.
``canon(t)`` -> a canonical term: arithmetic sub-terms replaced by ('poly', ((monomial, coef)..)); arguments of
               commutative operators sorted; max/min flattened, sorted, de-duplicated; comparisons kept.
NaN is ignored (stated assumption): a - a == 0, x * 1 == x.
"""

from __future__ import annotations

from fractions import Fraction
from typing import Dict, Tuple

COMM_CALLS = {("builtin", "max"), ("builtin", "min"), ("ext", "numpy.maximum"), ("ext", "numpy.minimum")}
COMM_METHODS = {"intersection", "union", "symmetric_difference", "intersects", "touches", "equals", "overlaps"}

NUM = (int, float, Fraction)


def _num(v):
    if isinstance(v, bool):
        return None
    if isinstance(v, int):
        return Fraction(v)
    if isinstance(v, float):
        return Fraction(v).limit_denominator(10 ** 12) if v == v and abs(v) != float("inf") else None
    if isinstance(v, Fraction):
        return v
    return None


ONE = ((), ())  # the empty monomial


def _mono_mul(a, b):
    nums = list(a[0]) + list(b[0])
    dens = list(a[1]) + list(b[1])
    # cancel common atoms
    for x in list(nums):
        if x in dens:
            nums.remove(x)
            dens.remove(x)
    return (tuple(sorted(nums, key=repr)), tuple(sorted(dens, key=repr)))


def lin(t, extra_comm=()) -> Dict[tuple, Fraction]:
    """Polynomial normal form: {monomial: coefficient}; monomial = (numerator atoms, denominator atoms)."""
    k = t[0]
    if k == "const":
        n = _num(t[1])
        if n is not None:
            return {ONE: n} if n != 0 else {}
        return {((t,), ()): Fraction(1)}
    if k == "neg":
        return {m: -v for m, v in lin(t[1], extra_comm).items()}
    if k == "bin":
        op = t[1]
        if op in ("+", "-"):
            a, b = lin(t[2], extra_comm), lin(t[3], extra_comm)
            s = 1 if op == "+" else -1
            out = dict(a)
            for m, v in b.items():
                out[m] = out.get(m, Fraction(0)) + s * v
            return {m: v for m, v in out.items() if v != 0}
        if op == "*":
            a, b = lin(t[2], extra_comm), lin(t[3], extra_comm)
            if len(a) * len(b) > 64:
                return {((("bin", op, canon(t[2], extra_comm), canon(t[3], extra_comm)),), ()): Fraction(1)}
            out: Dict[tuple, Fraction] = {}
            for m1, v1 in a.items():
                for m2, v2 in b.items():
                    m = _mono_mul(m1, m2)
                    out[m] = out.get(m, Fraction(0)) + v1 * v2
            return {m: v for m, v in out.items() if v != 0}
        if op == "/":
            a, b = lin(t[2], extra_comm), lin(t[3], extra_comm)
            if len(b) == 1:
                (mb, vb), = b.items()
                inv = (mb[1], mb[0])
                out = {}
                for m1, v1 in a.items():
                    m = _mono_mul(m1, inv)
                    out[m] = out.get(m, Fraction(0)) + v1 / vb
                return {m: v for m, v in out.items() if v != 0}
            if not b:
                return {((("bin", op, canon(t[2], extra_comm), ("num", Fraction(0))),), ()): Fraction(1)}
            den = pack(b)
            out = {}
            for m1, v1 in a.items():
                m = _mono_mul(m1, ((), (den,)))
                out[m] = out.get(m, Fraction(0)) + v1
            return out
        return {((("bin", op, canon(t[2], extra_comm), canon(t[3], extra_comm)),), ()): Fraction(1)}
    a = canon_nonlin(t, extra_comm)
    return {((a,), ()): Fraction(1)}


def pack(p: Dict[tuple, Fraction]):
    if not p:
        return ("num", Fraction(0))
    if len(p) == 1:
        (m, v), = p.items()
        if m == ONE:
            return ("num", v)
        if v == 1 and len(m[0]) == 1 and not m[1]:
            return m[0][0]
    return ("poly", tuple(sorted(p.items(), key=lambda kv: repr(kv[0]))))


def canon(t, extra_comm=()):
    if not isinstance(t, tuple) or not t:
        return t
    if not isinstance(t[0], str):
        return tuple(canon(c, extra_comm) for c in t)
    if t[0] in ("bin", "neg") or (t[0] == "const" and _num(t[1]) is not None):
        if t[0] == "bin" and t[1] not in ("+", "-", "*", "/"):
            return ("bin", t[1], canon(t[2], extra_comm), canon(t[3], extra_comm))
        return pack(lin(t, extra_comm))
    return canon_nonlin(t, extra_comm)


def canon_nonlin(t, extra_comm=()):
    k = t[0]
    if k == "call" and t[1] == ("builtin", "float") and len(t[2]) == 1 and not t[3] and t[2][0][0] == "attr" and t[2][0][2] in ("area", "length"):
        return canon(t[2][0], extra_comm)  # float(g.area): the area of a shapely geometry is a float already
    if k == "call":
        f = t[1]
        args = tuple(canon(a, extra_comm) for a in t[2])
        kws = tuple((n, canon(v, extra_comm)) for n, v in t[3])
        if f in extra_comm and kws:
            # a callee proven symmetric in its parameters: keyword spelling is order-free as well
            return ("call", f, tuple(sorted(list(args) + [v for _, v in kws], key=repr)), ())
        if (f in COMM_CALLS or f in extra_comm) and not kws:
            flat = []
            for a in args:
                if a[0] == "call" and a[1] == f and not a[3]:
                    flat += list(a[2])
                else:
                    flat.append(a)
            ded = []
            for a in flat:
                if a not in ded:
                    ded.append(a)
            return ("call", f, tuple(sorted(ded, key=repr)), ())
        if f[0] == "attr" and f[2] in COMM_METHODS and len(args) == 1 and not kws:
            both = tuple(sorted([canon(f[1], extra_comm), args[0]], key=repr))
            return ("commcall", f[2], both)
        return ("call", canon(f, extra_comm) if f[0] not in ("builtin", "ext", "global") else f, args, kws)
    if k in ("and", "or"):
        items = []
        for x in t[1]:
            c = canon(x, extra_comm)
            if c[0] == k:
                items += list(c[1])
            else:
                items.append(c)
        ded = []
        for x in items:
            if x not in ded:
                ded.append(x)
        return (k, tuple(sorted(ded, key=repr)))
    if k == "cmp":
        l, r = canon(t[2], extra_comm), canon(t[3], extra_comm)
        if t[1] in ("eq", "ne"):
            l, r = sorted([l, r], key=repr)
        return ("cmp", t[1], l, r)
    if k == "not":
        return ("not", canon(t[1], extra_comm))
    if k == "ite":
        return ("ite", canon(t[1], extra_comm), canon(t[2], extra_comm), canon(t[3], extra_comm))
    return tuple(canon(c, extra_comm) if isinstance(c, tuple) else c for c in t)


def same(a, b, extra_comm=()) -> bool:
    return canon(a, extra_comm) == canon(b, extra_comm)
