"""E5 -- algebraic canonicalisation of terms (value numbering modulo + - * / by constants and commutativity).

``lin(t)``   -> (const, {atom: coef}) linear form over opaque atoms; products / quotients of non-constants
               become atoms ('mul', sorted factors) / ('div', num, den) over canonicalised operands.
``canon(t)`` -> a canonical term: linear sub-terms replaced by ('lin', const, ((atom, coef)..)); arguments of
               commutative operators sorted; max/min flattened, sorted, de-duplicated; comparisons kept.
NaN is ignored (stated assumption): a - a == 0, x * 1 == x.
"""

from __future__ import annotations

from fractions import Fraction
from typing import Dict, Tuple

COMM_CALLS = {("builtin", "max"), ("builtin", "min"), ("ext", "numpy.maximum"), ("ext", "numpy.minimum")}
COMM_METHODS = {"intersection", "union", "symmetric_difference", "intersects", "touches", "equals", "overlaps"}

NUM = (int, float, Fraction)


def _num(v):
    if isinstance(v, bool):
        return None
    if isinstance(v, int):
        return Fraction(v)
    if isinstance(v, float):
        return Fraction(v).limit_denominator(10 ** 12) if v == v and abs(v) != float("inf") else None
    if isinstance(v, Fraction):
        return v
    return None


def lin(t, extra_comm=()) -> Tuple[Fraction, Dict[tuple, Fraction]]:
    k = t[0]
    if k == "const":
        n = _num(t[1])
        if n is not None:
            return n, {}
        return Fraction(0), {t: Fraction(1)}
    if k == "neg":
        c, m = lin(t[1], extra_comm)
        return -c, {a: -v for a, v in m.items()}
    if k == "bin":
        op = t[1]
        if op in ("+", "-"):
            c1, m1 = lin(t[2], extra_comm)
            c2, m2 = lin(t[3], extra_comm)
            s = 1 if op == "+" else -1
            out = dict(m1)
            for a, v in m2.items():
                out[a] = out.get(a, Fraction(0)) + s * v
            return c1 + s * c2, {a: v for a, v in out.items() if v != 0}
        if op == "*":
            c1, m1 = lin(t[2], extra_comm)
            c2, m2 = lin(t[3], extra_comm)
            if not m1:
                return c1 * c2, {a: v * c1 for a, v in m2.items() if v * c1 != 0}
            if not m2:
                return c1 * c2, {a: v * c2 for a, v in m1.items() if v * c2 != 0}
            f = tuple(sorted([canon(t[2], extra_comm), canon(t[3], extra_comm)], key=repr))
            return Fraction(0), {("mul", f): Fraction(1)}
        if op == "/":
            c2, m2 = lin(t[3], extra_comm)
            if not m2 and c2 != 0:
                c1, m1 = lin(t[2], extra_comm)
                return c1 / c2, {a: v / c2 for a, v in m1.items()}
            return Fraction(0), {("div", canon(t[2], extra_comm), canon(t[3], extra_comm)): Fraction(1)}
        return Fraction(0), {("bin", op, canon(t[2], extra_comm), canon(t[3], extra_comm)): Fraction(1)}
    a = canon_nonlin(t, extra_comm)
    return Fraction(0), {a: Fraction(1)}


def pack(c: Fraction, m: Dict[tuple, Fraction]):
    if not m:
        return ("num", c)
    if c == 0 and len(m) == 1:
        (a, v), = m.items()
        if v == 1:
            return a
    return ("lin", c, tuple(sorted(m.items(), key=lambda kv: repr(kv[0]))))


def canon(t, extra_comm=()):
    if not isinstance(t, tuple) or not t:
        return t
    if not isinstance(t[0], str):
        return tuple(canon(c, extra_comm) for c in t)
    if t[0] in ("bin", "neg") or (t[0] == "const" and _num(t[1]) is not None):
        if t[0] == "bin" and t[1] not in ("+", "-", "*", "/"):
            return ("bin", t[1], canon(t[2], extra_comm), canon(t[3], extra_comm))
        return pack(*lin(t, extra_comm))
    return canon_nonlin(t, extra_comm)


def canon_nonlin(t, extra_comm=()):
    k = t[0]
    if k == "call":
        f = t[1]
        args = tuple(canon(a, extra_comm) for a in t[2])
        kws = tuple((n, canon(v, extra_comm)) for n, v in t[3])
        if f in extra_comm and kws:
            # a callee proven symmetric in its parameters: keyword spelling is order-free as well
            return ("call", f, tuple(sorted(list(args) + [v for _, v in kws], key=repr)), ())
        if (f in COMM_CALLS or f in extra_comm) and not kws:
            flat = []
            for a in args:
                if a[0] == "call" and a[1] == f and not a[3]:
                    flat += list(a[2])
                else:
                    flat.append(a)
            ded = []
            for a in flat:
                if a not in ded:
                    ded.append(a)
            return ("call", f, tuple(sorted(ded, key=repr)), ())
        if f[0] == "attr" and f[2] in COMM_METHODS and len(args) == 1 and not kws:
            both = tuple(sorted([canon(f[1], extra_comm), args[0]], key=repr))
            return ("commcall", f[2], both)
        return ("call", canon(f, extra_comm) if f[0] not in ("builtin", "ext", "global") else f, args, kws)
    if k in ("and", "or"):
        items = []
        for x in t[1]:
            c = canon(x, extra_comm)
            if c[0] == k:
                items += list(c[1])
            else:
                items.append(c)
        ded = []
        for x in items:
            if x not in ded:
                ded.append(x)
        return (k, tuple(sorted(ded, key=repr)))
    if k == "cmp":
        l, r = canon(t[2], extra_comm), canon(t[3], extra_comm)
        if t[1] in ("eq", "ne"):
            l, r = sorted([l, r], key=repr)
        return ("cmp", t[1], l, r)
    if k == "not":
        return ("not", canon(t[1], extra_comm))
    if k == "ite":
        return ("ite", canon(t[1], extra_comm), canon(t[2], extra_comm), canon(t[3], extra_comm))
    return tuple(canon(c, extra_comm) if isinstance(c, tuple) else c for c in t)


def same(a, b, extra_comm=()) -> bool:
    return canon(a, extra_comm) == canon(b, extra_comm)
