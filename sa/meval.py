"""Finite-model evaluation of summary terms.

A guard extracted by the engine (the path condition of a `raise`, a returned value) is a closed expression over the function's
parameters.  `meval(term, env)` gives its value on ONE concrete small model of the inputs (plain Python objects: namespaces with
the attributes the guard reads, lists, ints standing for identifiers) -- the analyser's own term is interpreted, never the
repository's code.  Rules use it to decide a guard on every model of a small scope (all match lists up to a length over a few
identifiers ...) when its spelling is outside what they can compare syntactically.

Everything outside the interpreted fragment raises `Unknown`: a rule then keeps its syntactic verdict.
"""
from __future__ import annotations

import collections
import itertools
from typing import Dict

from .peval import Unknown

_BUILTINS = {
    "len": len, "set": set, "frozenset": frozenset, "list": list, "tuple": tuple, "dict": dict, "sorted": sorted, "any": any, "all": all,
    "sum": sum, "min": min, "max": max, "zip": zip, "enumerate": enumerate, "range": range, "bool": bool, "int": int, "float": float,
    "str": str, "abs": abs, "reversed": reversed, "iter": iter, "next": next, "map": map, "filter": filter, "repr": repr, "hash": hash,
}
def _next(x, *default):
    # a generator expression is represented by the list of its items: next() takes the first
    return next(x if hasattr(x, "__next__") else iter(x), *default)


_BUILTINS["next"] = _next

_EXT = {
    "collections.Counter": collections.Counter, "itertools.chain": itertools.chain, "itertools.chain.from_iterable": itertools.chain.from_iterable,
    "itertools.count": itertools.count, "itertools.repeat": itertools.repeat, "itertools.product": itertools.product,
    "operator.eq": lambda a, b: a == b, "operator.ne": lambda a, b: a != b,
}
# methods of the builtin containers / Counter a guard may call (all side-effect free)
_METHODS = {"keys", "items", "values", "get", "count", "index", "most_common", "elements", "total", "issubset", "issuperset", "isdisjoint",
            "union", "intersection", "difference", "symmetric_difference", "copy"}
_CONTAINERS = (list, tuple, set, frozenset, dict, collections.Counter, type({}.keys()), type({}.items()), type({}.values()))
_BIN = {
    "+": lambda a, b: a + b, "-": lambda a, b: a - b, "*": lambda a, b: a * b, "/": lambda a, b: a / b, "//": lambda a, b: a // b,
    "%": lambda a, b: a % b, "**": lambda a, b: a ** b, "^": lambda a, b: a ^ b, "|": lambda a, b: a | b, "&": lambda a, b: a & b,
}
_CMP = {
    "lt": lambda a, b: a < b, "le": lambda a, b: a <= b, "gt": lambda a, b: a > b, "ge": lambda a, b: a >= b, "eq": lambda a, b: a == b,
    "ne": lambda a, b: a != b, "is": lambda a, b: a is b, "isnot": lambda a, b: a is not b, "in": lambda a, b: a in b,
    "notin": lambda a, b: a not in b,
}


def meval(t, env: Dict[tuple, object]):
    if t in env:
        return env[t]
    if not isinstance(t, tuple) or not t or not isinstance(t[0], str):
        raise Unknown(f"not a term: {str(t)[:60]}")
    k = t[0]
    if k == "const":
        return t[1]
    if k == "attr":
        base = meval(t[1], env)
        if isinstance(base, _CONTAINERS) or not hasattr(base, t[2]):
            raise Unknown(f"attribute {t[2]} of {type(base).__name__}")
        return getattr(base, t[2])
    if k == "sub":
        base, idx = meval(t[1], env), meval(t[2], env)
        try:
            return base[idx]
        except (KeyError, IndexError, TypeError) as e:
            raise Unknown(f"subscript fails in the model: {e!r}") from None
    if k in ("tuple", "list", "set"):
        out = []
        for x in t[1]:
            if x[0] == "star":
                out += list(meval(x[1], env))
            else:
                out.append(meval(x, env))
        return tuple(out) if k == "tuple" else (list(out) if k == "list" else set(out))
    if k == "dict":
        d = {}
        for kk, vv in t[1]:
            if kk == ("dstar",):
                d.update(meval(vv, env))
            else:
                d[meval(kk, env)] = meval(vv, env)
        return d
    if k == "not":
        return not meval(t[1], env)
    if k == "and":
        v = True
        for x in t[1]:
            v = meval(x, env)
            if not v:
                return v
        return v
    if k == "or":
        v = False
        for x in t[1]:
            v = meval(x, env)
            if v:
                return v
        return v
    if k == "ite":
        return meval(t[2], env) if meval(t[1], env) else meval(t[3], env)
    if k == "cmp":
        if t[1] not in _CMP:
            raise Unknown(f"comparison {t[1]}")
        try:
            return _CMP[t[1]](meval(t[2], env), meval(t[3], env))
        except TypeError as e:
            raise Unknown(f"comparison fails in the model: {e!r}") from None
    if k == "bin":
        if t[1] not in _BIN:
            raise Unknown(f"operator {t[1]}")
        try:
            return _BIN[t[1]](meval(t[2], env), meval(t[3], env))
        except (TypeError, ZeroDivisionError) as e:
            raise Unknown(f"operator fails in the model: {e!r}") from None
    if k == "neg":
        return -meval(t[1], env)
    if k == "slice":
        return slice(*[meval(x, env) for x in t[1:4]])
    if k == "fstr":
        return "".join(x[1] if x[0] == "const" and isinstance(x[1], str) else format(meval(x, env)) for x in t[1])
    if k == "comp":
        return _comp(t, env)
    if k == "call":
        return _call(t, env)
    if k == "inloop":
        raise Unknown("loop context outside a loop binding")
    raise Unknown(f"term kind {k}")


def _comp(t, env):
    kind, elt, gens = t[1], t[2], t[3]
    out = []

    def rec(i, e):
        if i == len(gens):
            out.append((meval(elt[1], e), meval(elt[2], e)) if elt[0] == "kv" else meval(elt, e))
            return
        lid, it, conds = gens[i]
        for item in list(meval(it, e)):
            e2 = dict(e)
            e2[("elem", lid)] = item
            e2[("inloop", lid)] = True
            if all(meval(c, e2) for c in conds):
                rec(i + 1, e2)
    rec(0, env)
    if kind == "dict":
        return dict(out)
    if kind == "set":
        return set(out)
    return list(out)  # a generator is consumed once by whoever receives it: the list of its items stands for it


def _call(t, env):
    f, args, kws = t[1], t[2], t[3]
    a = []
    for x in args:
        if x[0] == "star":
            a += list(meval(x[1], env))
        else:
            a.append(meval(x, env))
    kw = {}
    for n, v in kws:
        if n == "**":
            kw.update(meval(v, env))
        elif v == ("absent",):
            continue
        else:
            kw[n] = meval(v, env)
    try:
        if f[0] == "builtin" and f[1] in _BUILTINS:
            return _BUILTINS[f[1]](*a, **kw)
        if f[0] == "ext" and f[1] in _EXT:
            return _EXT[f[1]](*a, **kw)
        if f[0] == "attr" and f[2] in _METHODS:
            recv = meval(f[1], env)
            if isinstance(recv, _CONTAINERS):
                return getattr(recv, f[2])(*a, **kw)
    except Unknown:
        raise
    except Exception as e:  # noqa: BLE001 - the model does not support the operation
        raise Unknown(f"call fails in the model: {e!r}") from None
    raise Unknown(f"call of {str(f)[:60]}")


def fires(summary, event, env) -> bool:
    """Does `event` (a raise / return of `summary`) happen for the model `env`?  Its path condition is evaluated for every
    binding of the statement loops around it (in order; the first binding that satisfies it counts)."""
    loops = [l for l in event.loops]

    def rec(i, e):
        if i == len(loops):
            return bool(meval(event.live, e))
        li = summary.loops[loops[i]]
        if li.kind == "while":
            raise Unknown("while loop")
        for item in list(meval(li.iter, e)):
            e2 = dict(e)
            e2[("elem", li.id)] = item
            e2[("inloop", li.id)] = True
            if all(meval(c, e2) for c in li.conds) and rec(i + 1, e2):
                return True
        return False
    return rec(0, dict(env))


# ------------------------------------------------------------------------------------------------------------------------------------
# Interpreting whole summaries: a function of the package applied to model values
#
# `Machine(summaries, index).call(modname, fname, *args, **kwargs)` gives the value the function's SUMMARY returns for concrete model
# arguments (or raises `ModelRaise(<exception name>)` when one of its raise events fires).  Calls of other in-package functions,
# lambdas / local functions, partial applications, module-level tables and NamedTuple / dataclass records (fields, properties,
# methods) are followed through their own summaries.  Side effects are not modelled: a summary that stores into something, or whose
# terms mention loop-carried state, is outside the fragment (`Unknown`).

_MISSING = object()


class ModelRaise(Exception):
    def __init__(self, name):
        super().__init__(name)
        self.name = name


class _Record:
    """a NamedTuple / dataclass / plain-class instance of the model: its class and its attribute values"""
    def __init__(self, ci, fields, is_tuple):
        self.ci, self.fields, self.is_tuple = ci, fields, is_tuple

    def __iter__(self):
        if not self.is_tuple:
            raise Unknown("iteration over a non-tuple record")
        return iter(self.fields.values())

    def __getitem__(self, i):
        if not self.is_tuple:
            raise Unknown("subscript of a non-tuple record")
        return list(self.fields.values())[i]

    def __len__(self):
        return len(self.fields)

    def __eq__(self, other):
        if isinstance(other, _Record):
            return self.ci is other.ci and self.fields == other.fields
        if self.is_tuple and isinstance(other, tuple):
            return tuple(self.fields.values()) == other
        return NotImplemented

    def __hash__(self):
        return hash(tuple(self.fields.values()))


class _ClassRef:
    """an in-package class as a value of the model: callable (construction), with its classmethods / staticmethods / `_make`"""
    def __init__(self, machine, ci):
        self.machine, self.ci = machine, ci

    def __call__(self, *a, **kw):
        return self.machine._construct(self.ci, list(a), kw)

    def __eq__(self, other):
        return isinstance(other, _ClassRef) and other.ci is self.ci

    def __hash__(self):
        return hash(self.ci.qual)


class Machine:
    def __init__(self, summaries, index, max_depth=12, stubs=None):
        self.summ, self.index, self.max_depth = summaries, index, max_depth
        self.depth = 0
        self._tables = {}
        self.stubs = stubs or {}  # "module:function" -> Python function standing for a library-backed function on model values

    # -- entry points
    def call(self, modname, fname, *args, **kwargs):
        return self.apply_summary(self.summ.of_func(modname, fname), list(args), dict(kwargs), {})

    def apply_summary(self, s, args, kwargs, closure, selfval=None):
        if self.depth >= self.max_depth:
            raise Unknown("call depth")
        env = dict(closure)
        params = list(s.params)
        if selfval is not None:
            if not params:
                raise Unknown("method without self")
            env[("param", params[0])] = selfval
            params = params[1:]
        if len(args) > len(params) and not s.vararg:
            raise Unknown("too many arguments for the summary")
        for p, a in zip(params, args):
            env[("param", p)] = a
        extra = args[len(params):]
        if s.vararg:
            env[("param", s.vararg)] = env[("param", "*" + s.vararg)] = tuple(extra)
        rest = {}
        for k, v in kwargs.items():
            if k in params and ("param", k) not in env:
                env[("param", k)] = v
            elif s.kwarg:
                rest[k] = v
            else:
                raise Unknown(f"unexpected keyword {k}")
        if s.kwarg:
            env[("param", s.kwarg)] = env[("param", "**" + s.kwarg)] = rest
        for p in params:
            if ("param", p) not in env:
                if p not in s.defaults:
                    raise Unknown(f"missing argument {p}")
                env[("param", p)] = self.ev(s.defaults[p], {}, s)
        self.depth += 1
        try:
            return self._run(s, env)
        except (AttributeError, TypeError, KeyError, IndexError, ValueError, ArithmeticError) as e:
            # an operation of the model values the interpreter does not support (a method a model object does not have ...)
            raise Unknown(f"operation outside the model: {e!r}") from None
        finally:
            self.depth -= 1

    def _run(self, s, env):
        if s.is_generator:
            out = []
            self._walk(s, [e for e in s.events if e.kind in ("raise", "yield", "return", "break")], 0, env, out)
            return out
        if any(e.kind in ("store", "delete") and not self._local_store(e) for e in s.events):
            raise Unknown("the summary has side effects")
        res = self._walk(s, [e for e in s.events if e.kind in ("raise", "return")], 0, env, None)
        if res is None:
            if s.fall_live == ("const", False):
                raise Unknown("no return fired")
            return None
        return res[1]

    @staticmethod
    def _local_store(e):
        return False

    def _walk(self, s, events, depth, env, yields):
        """events (in program order) at loop nesting `depth`; -> ("return", value) / ("break",) / None (fell through)"""
        i = 0
        while i < len(events):
            e = events[i]
            if e.handlers or e.in_handler:
                raise Unknown("event inside a try statement")
            if len(e.loops) > depth:
                lid = e.loops[depth]
                j = i
                while j < len(events) and len(events[j].loops) > depth and events[j].loops[depth] == lid:
                    j += 1
                li = s.loops[lid]
                if li.kind == "while":
                    raise Unknown("while loop")
                for item in list(self.ev(li.iter, env, s)):
                    e2 = dict(env)
                    e2[("elem", lid)] = item
                    e2[("inloop", lid)] = True
                    if not all(self.ev(c, e2, s) for c in li.conds):
                        continue
                    r = self._walk(s, events[i:j], depth + 1, e2, yields)
                    if r is not None:
                        if r[0] == "break":
                            break
                        return r
                i = j
                continue
            if self.ev(e.live, env, s):
                if e.kind == "raise":
                    t = e.term[1] if e.term[0] == "raise_from" else e.term
                    name = t[1][1] if t[0] == "call" and t[1][0] in ("builtin", "ext", "global") else "Exception"
                    raise ModelRaise(str(name).split(".")[-1].split(":")[-1])
                if e.kind == "yield":
                    if yields is None:
                        raise Unknown("yield outside a generator run")
                    if e.term[0] == "yieldfrom":
                        yields.extend(list(self.ev(e.term[1], env, s)))
                    else:
                        yields.append(self.ev(e.term, env, s))
                elif e.kind == "break":
                    return ("break",)
                elif e.kind == "return":
                    return ("return", self.ev(e.term, env, s) if yields is None else None)
            i += 1
        return None

    # -- terms
    def ev(self, t, env, s):
        if t in env:
            return env[t]
        if not isinstance(t, tuple) or not t or not isinstance(t[0], str):
            raise Unknown(f"not a term: {str(t)[:60]}")
        k = t[0]
        if k == "loopout" and s is not None and len(t) == 3 and t[2] in s.loops:
            return self._loopout(t[1], s.loops[t[2]], env, s)
        if k == "lambda":
            if s is None or t[1] not in s.lambdas:
                raise Unknown("unknown local function")
            ls, clo = s.lambdas[t[1]], dict(env)
            return lambda *a, **kw: self.apply_summary(ls, list(a), kw, clo)
        if k == "global":
            return self._global(t)
        if k == "builtin":
            if t[1] in _BUILTINS:
                return _BUILTINS[t[1]]
            raise Unknown(f"builtin {t[1]}")
        if k == "ext":
            return self._ext(t[1])
        if k == "attr":
            base = self.ev(t[1], env, s)
            return self._getattr(base, t[2])
        if k == "call":
            return self._call(t, env, s)
        if k == "comp":
            return self._comp(t, env, s)
        # everything else: the structural cases of meval, with sub-terms evaluated here
        return _structural(t, lambda x, e=env: self.ev(x, e, s), env)

    def _loopout(self, name, li, env, s):
        """the value a variable holds after a statement loop that re-assigns it: what it held before, updated once per iteration
        (loops left by `break`, or whose state the engine did not record, are outside the fragment)"""
        body, pre = getattr(li, "body_env", None), getattr(li, "pre_env", None)
        if body is None or pre is None or li.kind != "for" or li.has_else:
            raise Unknown("loop state not recorded")
        # (a raise inside the loop is an event of its own: the walk over the events reaches it, iteration by iteration, before anything
        # that reads the variable after the loop)
        if any(e.kind in ("break", "return") and li.id in e.loops for e in s.events):
            raise Unknown("loop with an early exit")
        names = [n for n in pre if pre[n] is not None]
        if name not in names:
            raise Unknown(f"{name} has no value in front of the loop")
        cur = {n: self.ev(pre[n], env, s) for n in names}
        for item in list(self.ev(li.iter, env, s)):
            e2 = dict(env)
            e2[("elem", li.id)] = item
            e2[("inloop", li.id)] = True
            for n in names:
                e2[("phi", n, li.id)] = cur[n]
            if not all(self.ev(c, e2, s) for c in li.conds):
                continue
            cur = {n: (self.ev(body[n], e2, s) if n in body else cur[n]) for n in names}
        return cur[name]

    def _comp(self, t, env, s):
        kind, elt, gens = t[1], t[2], t[3]
        out = []

        def rec(i, e):
            if i == len(gens):
                out.append((self.ev(elt[1], e, s), self.ev(elt[2], e, s)) if elt[0] == "kv" else self.ev(elt, e, s))
                return
            lid, it, conds = gens[i]
            for item in list(self.ev(it, e, s)):
                e2 = dict(e)
                e2[("elem", lid)] = item
                e2[("inloop", lid)] = True
                if all(self.ev(c, e2, s) for c in conds):
                    rec(i + 1, e2)
        rec(0, env)
        return dict(out) if kind == "dict" else (set(out) if kind == "set" else list(out))

    def _ext(self, name):
        import functools
        import operator
        if name in _EXT:
            return _EXT[name]
        if name == "functools.reduce":
            return functools.reduce
        if name == "functools.partial":
            return functools.partial
        if name.startswith("operator.") and hasattr(operator, name.split(".", 1)[1]):
            return getattr(operator, name.split(".", 1)[1])
        if name in ("itertools.starmap", "itertools.takewhile", "itertools.dropwhile", "itertools.filterfalse", "itertools.islice",
                    "itertools.accumulate", "itertools.zip_longest", "itertools.tee", "itertools.compress"):
            return getattr(itertools, name.split(".")[1])
        if name in ("math.floor", "math.ceil", "math.isclose", "math.inf", "math.nan", "math.fabs", "math.isnan", "math.isinf"):
            import math
            return getattr(math, name.split(".")[1])
        raise Unknown(f"external name {name}")

    def _global(self, t):
        q, kind = t[1].replace("@reference", ""), t[2]
        if ":" not in q:
            raise Unknown(f"global {q}")
        modname, name = q.split(":", 1)
        if kind == "func" and q in self.stubs:
            return self.stubs[q]
        if kind == "func":
            if "." in name:
                cname, meth = name.split(".", 1)
                ci = self.index.need_class(modname, cname)
                ms = self.summ.of_method(ci, meth)
                return lambda *a, **kw: self.apply_summary(ms, list(a), kw, {})
            fs = self.summ.of_func(modname, name)
            return lambda *a, **kw: self.apply_summary(fs, list(a), kw, {})
        if kind == "class":
            ci = self.index.class_by_qual(q)
            if ci is None:
                raise Unknown(f"class {q}")
            return _ClassRef(self, ci)
        if kind == "assign":
            if q not in self._tables:
                from types import SimpleNamespace as _NS
                from .sym import Evaluator, TRUE
                m, node = self.index.need_assign(modname, name)
                ev_ = Evaluator(self.index, m, node, f"{modname}:<module>", None)
                v = ev_.ev(node, TRUE)
                self._tables[q] = self.ev(v, {}, _NS(lambdas=ev_.lambdas, loops=ev_.loops))
            return self._tables[q]
        raise Unknown(f"global of kind {kind}")

    def _construct(self, ci, args, kw):
        import ast as _ast
        is_nt = any(b.split(".")[-1] == "NamedTuple" for b in ci.ext_bases)
        is_dc = any(_ast.unparse(d).split("(")[0].split(".")[-1] == "dataclass" for d in ci.node.decorator_list)
        if (is_nt or is_dc) and "__init__" not in ci.methods:
            names, defaults = [], {}
            for c in reversed(ci.mro()):
                for st in c.node.body:
                    if isinstance(st, _ast.AnnAssign) and isinstance(st.target, _ast.Name) and "ClassVar" not in _ast.unparse(st.annotation):
                        if st.target.id not in names:
                            names.append(st.target.id)
                        if st.value is not None:
                            defaults[st.target.id] = st.value
            if len(args) > len(names):
                raise Unknown("too many fields")
            fields = dict(zip(names, args))
            for k_, v_ in kw.items():
                if k_ not in names or k_ in fields:
                    raise Unknown(f"field {k_}")
                fields[k_] = v_
            for n_ in names:
                if n_ not in fields:
                    if n_ not in defaults:
                        raise Unknown(f"missing field {n_}")
                    from .sym import Evaluator, TRUE
                    fields[n_] = self.ev(Evaluator(self.index, ci.module, defaults[n_], f"{ci.qual}.<default>", None).ev(defaults[n_], TRUE), {}, None)
            rec = _Record(ci, {n_: fields[n_] for n_ in names}, is_nt)
            if "__post_init__" in ci.methods:
                raise Unknown("__post_init__")
            return rec
        if any(str(b).split(".")[-1] not in ("object", "ABC", "Protocol", "Generic") for b in ci.ext_bases):
            raise Unknown(f"class {ci.name} with bases outside the package")
        rec = _Record(ci, {}, False)
        found = ci.find_method("__init__")
        if found:
            c_, fn = found
            ms = self.summ.of_node(c_.module, fn, f"{c_.qual}.__init__", c_)
            self._init(ms, rec, args, kw)
        elif args or kw:
            raise Unknown("arguments for a class without __init__")
        return rec

    def _init(self, ms, rec, args, kw):
        """a constructor whose only effects are `self.x = <value>` under decidable conditions"""
        env = {}
        params = list(ms.params)
        env[("param", params[0])] = rec
        for p, a in zip(params[1:], args):
            env[("param", p)] = a
        for k_, v_ in kw.items():
            env[("param", k_)] = v_
        for p in params[1:]:
            if ("param", p) not in env:
                if p not in ms.defaults:
                    raise Unknown(f"missing argument {p}")
                env[("param", p)] = self.ev(ms.defaults[p], {}, ms)
        for e in ms.events:
            if e.loops or e.handlers or e.in_handler:
                raise Unknown("constructor with loops / try")
            if e.kind == "raise" and self.ev(e.live, env, ms):
                t_ = e.term[1] if e.term[0] == "raise_from" else e.term
                nm_ = t_[1][1] if t_[0] == "call" and t_[1][0] in ("builtin", "ext", "global") else "Exception"
                raise ModelRaise(str(nm_).split(".")[-1].split(":")[-1])
            if e.kind == "store":
                tgt = e.term[1]
                if not (tgt[0] == "attr" and tgt[1] == ("param", params[0])):
                    raise Unknown("constructor stores elsewhere")
                if self.ev(e.live, env, ms):
                    rec.fields[tgt[2]] = self.ev(e.term[2], env, ms)

    def _class_attr(self, ci, name):
        """a class-level constant (`cap = 1.0`) along the MRO"""
        import ast as _ast
        for c in ci.mro():
            for st in c.node.body:
                tg = st.targets if isinstance(st, _ast.Assign) else ([st.target] if isinstance(st, _ast.AnnAssign) and st.value is not None else [])
                if any(isinstance(t_, _ast.Name) and t_.id == name for t_ in tg):
                    from .sym import Evaluator, TRUE
                    return self.ev(Evaluator(self.index, c.module, st.value, f"{c.qual}.<attr>", None).ev(st.value, TRUE), {}, None)
        return _MISSING

    def _getattr(self, base, name):
        if isinstance(base, _ClassRef):
            import ast as _ast
            if name == "_make" and any(str(b).split(".")[-1] == "NamedTuple" for b in base.ci.ext_bases):
                return lambda it: base(*list(it))
            found = base.ci.find_method(name)
            if found:
                c_, fn = found
                ms = self.summ.of_node(c_.module, fn, f"{c_.qual}.{name}", c_)
                decos = [_ast.unparse(d) for d in fn.decorator_list]
                if "staticmethod" in decos:
                    return lambda *a, **kw: self.apply_summary(ms, list(a), kw, {})
                if "classmethod" in decos:
                    return lambda *a, **kw: self.apply_summary(ms, list(a), kw, {}, selfval=base)
                return lambda inst, *a, **kw: self.apply_summary(ms, list(a), kw, {}, selfval=inst)
            cv = self._class_attr(base.ci, name)
            if cv is not _MISSING:
                return cv
            raise Unknown(f"attribute {name} of class {base.ci.name}")
        if isinstance(base, _Record):
            if name in base.fields:
                return base.fields[name]
            cv = self._class_attr(base.ci, name) if not base.ci.find_method(name) else _MISSING
            if cv is not _MISSING:
                return cv
            found = base.ci.find_method(name)
            if found:
                import ast as _ast
                c_, fn = found
                ms = self.summ.of_node(c_.module, fn, f"{c_.qual}.{name}", c_)
                decos = [_ast.unparse(d) for d in fn.decorator_list]
                if "cached_property" in decos or "functools.cached_property" in decos:
                    raise Unknown(f"{name} is a cached property: its value depends on when it was first read")
                if "property" in decos:
                    return self.apply_summary(ms, [], {}, {}, selfval=base)
                if "staticmethod" in decos:
                    return lambda *a, **kw: self.apply_summary(ms, list(a), kw, {})
                if "classmethod" in decos:
                    return lambda *a, **kw: self.apply_summary(ms, list(a), kw, {}, selfval=_ClassRef(self, base.ci))
                return lambda *a, **kw: self.apply_summary(ms, list(a), kw, {}, selfval=base)
            if base.is_tuple and name in ("_replace", "_asdict"):
                if name == "_asdict":
                    return lambda: dict(base.fields)
                return lambda **kw: _Record(base.ci, {**base.fields, **kw}, True)
            raise Unknown(f"attribute {name} of a {base.ci.name}")
        if isinstance(base, tuple) and not hasattr(base, name):
            # the engine carries NamedTuple records as plain tuples: the one record class of the package with that many fields that has
            # this field / property / method
            import ast as _ast
            cands = []
            for c in self.index.all_classes():
                if any(str(b).split(".")[-1] == "NamedTuple" for b in c.ext_bases):
                    fields = [st.target.id for st in c.node.body if isinstance(st, _ast.AnnAssign) and isinstance(st.target, _ast.Name)]
                    if len(fields) == len(base) and (name in fields or name in c.methods):
                        cands.append((c, fields))
            if len(cands) == 1:
                c, fields = cands[0]
                return self._getattr(_Record(c, dict(zip(fields, base)), True), name)
            raise Unknown(f"attribute {name} of tuple")
        if isinstance(base, _CONTAINERS) or isinstance(base, (str, int, float)):
            if name in _METHODS or (isinstance(base, str) and name in ("lower", "upper", "strip", "split", "startswith", "endswith", "format", "join")):
                return getattr(base, name)
            raise Unknown(f"attribute {name} of {type(base).__name__}")
        if callable(base) and not hasattr(base, name):
            raise Unknown(f"attribute {name} of a function")
        if hasattr(base, name):
            return getattr(base, name)
        raise Unknown(f"attribute {name}")

    def _call(self, t, env, s):
        f, args, kws = t[1], t[2], t[3]
        a = []
        for x in args:
            if x[0] == "star":
                a += list(self.ev(x[1], env, s))
            else:
                a.append(self.ev(x, env, s))
        kw = {}
        for n, v in kws:
            if n == "**":
                kw.update(self.ev(v, env, s))
            elif v == ("absent",):
                continue
            else:
                kw[n] = self.ev(v, env, s)
        fn = self.ev(f, env, s)
        if not callable(fn):
            raise Unknown(f"call of a non-function: {str(f)[:60]}")
        try:
            return fn(*a, **kw)
        except (Unknown, ModelRaise):
            raise
        except Exception as e:  # noqa: BLE001 - the model does not support the operation
            raise Unknown(f"call fails in the model: {e!r}") from None


def _structural(t, ev, env):
    """the cases of meval that only combine the values of sub-terms (shared with Machine.ev)"""
    k = t[0]
    if k == "const":
        return t[1]
    if k == "sub":
        base, idx = ev(t[1]), ev(t[2])
        if hasattr(base, "__next__"):
            base = list(base)  # the engine writes the unpacking of zip(...) / map(...) as subscripts of it
        try:
            return base[idx]
        except (KeyError, IndexError, TypeError) as e:
            raise Unknown(f"subscript fails in the model: {e!r}") from None
    if k in ("tuple", "list", "set"):
        out = []
        for x in t[1]:
            if x[0] == "star":
                out += list(ev(x[1]))
            else:
                out.append(ev(x))
        return tuple(out) if k == "tuple" else (list(out) if k == "list" else set(out))
    if k == "dict":
        d = {}
        for kk, vv in t[1]:
            if kk == ("dstar",):
                d.update(ev(vv))
            else:
                d[ev(kk)] = ev(vv)
        return d
    if k == "not":
        return not ev(t[1])
    if k in ("and", "or"):
        # path conditions are conjunctions the engine may have re-ordered (a comparison in front of the None test that guards it):
        # a conjunct that cannot be evaluated does not matter when another one decides
        decisive, last, failed = (k == "or"), (k == "and"), None
        for x in t[1]:
            try:
                v = ev(x)
            except Unknown as e:
                failed = e
                continue
            if bool(v) == decisive:
                return v
            last = v
        if failed is not None:
            raise failed
        return last
    if k == "ite":
        return ev(t[2]) if ev(t[1]) else ev(t[3])
    if k == "cmp":
        if t[1] not in _CMP:
            raise Unknown(f"comparison {t[1]}")
        try:
            return _CMP[t[1]](ev(t[2]), ev(t[3]))
        except TypeError as e:
            raise Unknown(f"comparison fails in the model: {e!r}") from None
    if k == "bin":
        if t[1] not in _BIN:
            raise Unknown(f"operator {t[1]}")
        try:
            return _BIN[t[1]](ev(t[2]), ev(t[3]))
        except ZeroDivisionError:
            raise ModelRaise("ZeroDivisionError") from None
        except TypeError as e:
            raise Unknown(f"operator fails in the model: {e!r}") from None
    if k == "neg":
        return -ev(t[1])
    if k == "slice":
        return slice(*[ev(x) for x in t[1:4]])
    if k == "fstr":
        return "".join(x[1] if x[0] == "const" and isinstance(x[1], str) else format(ev(x)) for x in t[1])
    if k == "error":
        raise ModelRaise(str(t[1]))
    raise Unknown(f"term kind {k}")
