"""Finite-model evaluation of summary terms.

A guard extracted by the engine (the path condition of a `raise`, a returned value) is a closed expression over the function's
parameters.  `meval(term, env)` gives its value on ONE concrete small model of the inputs (plain Python objects: namespaces with
the attributes the guard reads, lists, ints standing for identifiers) -- the analyser's own term is interpreted, never the
repository's code.  Rules use it to decide a guard on every model of a small scope (all match lists up to a length over a few
identifiers ...) when its spelling is outside what they can compare syntactically.

Everything outside the interpreted fragment raises `Unknown`: a rule then keeps its syntactic verdict.
"""
from __future__ import annotations

import collections
import itertools
from typing import Dict

from .peval import Unknown

_BUILTINS = {
    "len": len, "set": set, "frozenset": frozenset, "list": list, "tuple": tuple, "dict": dict, "sorted": sorted, "any": any, "all": all,
    "sum": sum, "min": min, "max": max, "zip": zip, "enumerate": enumerate, "range": range, "bool": bool, "int": int, "float": float,
    "str": str, "abs": abs, "reversed": reversed, "iter": iter, "next": next, "map": map, "filter": filter, "repr": repr, "hash": hash,
}
def _next(x, *default):
    # a generator expression is represented by the list of its items: next() takes the first
    return next(x if hasattr(x, "__next__") else iter(x), *default)


_BUILTINS["next"] = _next

_EXT = {
    "collections.Counter": collections.Counter, "itertools.chain": itertools.chain, "itertools.chain.from_iterable": itertools.chain.from_iterable,
    "itertools.count": itertools.count, "itertools.repeat": itertools.repeat, "itertools.product": itertools.product,
    "operator.eq": lambda a, b: a == b, "operator.ne": lambda a, b: a != b,
}
# methods of the builtin containers / Counter a guard may call (all side-effect free)
_METHODS = {"keys", "items", "values", "get", "count", "index", "most_common", "elements", "total", "issubset", "issuperset", "isdisjoint",
            "union", "intersection", "difference", "symmetric_difference", "copy"}
_CONTAINERS = (list, tuple, set, frozenset, dict, collections.Counter, type({}.keys()), type({}.items()), type({}.values()))
_BIN = {
    "+": lambda a, b: a + b, "-": lambda a, b: a - b, "*": lambda a, b: a * b, "/": lambda a, b: a / b, "//": lambda a, b: a // b,
    "%": lambda a, b: a % b, "**": lambda a, b: a ** b, "^": lambda a, b: a ^ b, "|": lambda a, b: a | b, "&": lambda a, b: a & b,
}
_CMP = {
    "lt": lambda a, b: a < b, "le": lambda a, b: a <= b, "gt": lambda a, b: a > b, "ge": lambda a, b: a >= b, "eq": lambda a, b: a == b,
    "ne": lambda a, b: a != b, "is": lambda a, b: a is b, "isnot": lambda a, b: a is not b, "in": lambda a, b: a in b,
    "notin": lambda a, b: a not in b,
}


def meval(t, env: Dict[tuple, object]):
    if t in env:
        return env[t]
    if not isinstance(t, tuple) or not t or not isinstance(t[0], str):
        raise Unknown(f"not a term: {str(t)[:60]}")
    k = t[0]
    if k == "const":
        return t[1]
    if k == "attr":
        base = meval(t[1], env)
        if isinstance(base, _CONTAINERS) or not hasattr(base, t[2]):
            raise Unknown(f"attribute {t[2]} of {type(base).__name__}")
        return getattr(base, t[2])
    if k == "sub":
        base, idx = meval(t[1], env), meval(t[2], env)
        try:
            return base[idx]
        except (KeyError, IndexError, TypeError) as e:
            raise Unknown(f"subscript fails in the model: {e!r}") from None
    if k in ("tuple", "list", "set"):
        out = []
        for x in t[1]:
            if x[0] == "star":
                out += list(meval(x[1], env))
            else:
                out.append(meval(x, env))
        return tuple(out) if k == "tuple" else (list(out) if k == "list" else set(out))
    if k == "dict":
        d = {}
        for kk, vv in t[1]:
            if kk == ("dstar",):
                d.update(meval(vv, env))
            else:
                d[meval(kk, env)] = meval(vv, env)
        return d
    if k == "not":
        return not meval(t[1], env)
    if k == "and":
        v = True
        for x in t[1]:
            v = meval(x, env)
            if not v:
                return v
        return v
    if k == "or":
        v = False
        for x in t[1]:
            v = meval(x, env)
            if v:
                return v
        return v
    if k == "ite":
        return meval(t[2], env) if meval(t[1], env) else meval(t[3], env)
    if k == "cmp":
        if t[1] not in _CMP:
            raise Unknown(f"comparison {t[1]}")
        try:
            return _CMP[t[1]](meval(t[2], env), meval(t[3], env))
        except TypeError as e:
            raise Unknown(f"comparison fails in the model: {e!r}") from None
    if k == "bin":
        if t[1] not in _BIN:
            raise Unknown(f"operator {t[1]}")
        try:
            return _BIN[t[1]](meval(t[2], env), meval(t[3], env))
        except (TypeError, ZeroDivisionError) as e:
            raise Unknown(f"operator fails in the model: {e!r}") from None
    if k == "neg":
        return -meval(t[1], env)
    if k == "slice":
        return slice(*[meval(x, env) for x in t[1:4]])
    if k == "fstr":
        return "".join(x[1] if x[0] == "const" and isinstance(x[1], str) else format(meval(x, env)) for x in t[1])
    if k == "comp":
        return _comp(t, env)
    if k == "call":
        return _call(t, env)
    if k == "inloop":
        raise Unknown("loop context outside a loop binding")
    raise Unknown(f"term kind {k}")


def _comp(t, env):
    kind, elt, gens = t[1], t[2], t[3]
    out = []

    def rec(i, e):
        if i == len(gens):
            out.append((meval(elt[1], e), meval(elt[2], e)) if elt[0] == "kv" else meval(elt, e))
            return
        lid, it, conds = gens[i]
        for item in list(meval(it, e)):
            e2 = dict(e)
            e2[("elem", lid)] = item
            e2[("inloop", lid)] = True
            if all(meval(c, e2) for c in conds):
                rec(i + 1, e2)
    rec(0, env)
    if kind == "dict":
        return dict(out)
    if kind == "set":
        return set(out)
    return list(out)  # a generator is consumed once by whoever receives it: the list of its items stands for it


def _call(t, env):
    f, args, kws = t[1], t[2], t[3]
    a = []
    for x in args:
        if x[0] == "star":
            a += list(meval(x[1], env))
        else:
            a.append(meval(x, env))
    kw = {}
    for n, v in kws:
        if n == "**":
            kw.update(meval(v, env))
        elif v == ("absent",):
            continue
        else:
            kw[n] = meval(v, env)
    try:
        if f[0] == "builtin" and f[1] in _BUILTINS:
            return _BUILTINS[f[1]](*a, **kw)
        if f[0] == "ext" and f[1] in _EXT:
            return _EXT[f[1]](*a, **kw)
        if f[0] == "attr" and f[2] in _METHODS:
            recv = meval(f[1], env)
            if isinstance(recv, _CONTAINERS):
                return getattr(recv, f[2])(*a, **kw)
    except Unknown:
        raise
    except Exception as e:  # noqa: BLE001 - the model does not support the operation
        raise Unknown(f"call fails in the model: {e!r}") from None
    raise Unknown(f"call of {str(f)[:60]}")


def fires(summary, event, env) -> bool:
    """Does `event` (a raise / return of `summary`) happen for the model `env`?  Its path condition is evaluated for every
    binding of the statement loops around it (in order; the first binding that satisfies it counts)."""
    loops = [l for l in event.loops]

    def rec(i, e):
        if i == len(loops):
            return bool(meval(event.live, e))
        li = summary.loops[loops[i]]
        if li.kind == "while":
            raise Unknown("while loop")
        for item in list(meval(li.iter, e)):
            e2 = dict(e)
            e2[("elem", li.id)] = item
            e2[("inloop", li.id)] = True
            if all(meval(c, e2) for c in li.conds) and rec(i + 1, e2):
                return True
        return False
    return rec(0, dict(env))
