"""Scenario evaluation of memo-table functions (`if key not in table: table[key] = make(...)`; return table[key]).

The registration discipline of the AOEF adapters (and a few other lookup tables) is written in many equivalent ways:
`if k not in t`, `if k in t: return t[k]`, `v = t.get(k); if v is None`, `t.setdefault(k, v)`, early returns, single
exit.  Instead of matching one spelling the rules ask what the function does in the two scenarios that matter --
the key is already in the table / it is not -- by simplifying every path condition and value of the function's
summary under the corresponding facts.  This is evaluation of the extracted summary, not of the program.
"""
from __future__ import annotations

from dataclasses import dataclass, field
from typing import Dict, List, Optional, Tuple

from .sym import walk, AND, CMP_NEG, FALSE, ITE, NONE, NOT, OR, TRUE, Event, Summary, mk_cmp


def simplify(t, facts: Dict[tuple, tuple], nonnull=(), vfacts: Optional[Dict[tuple, tuple]] = None):
    """Rebuild `t` bottom-up, replacing sub-terms listed in the fact tables and folding the boolean structure.
    `facts` applies inside conditions (they were evaluated on entry), `vfacts` (default: the same) in value position
    (a value read after a write sees the written entry)."""
    vf = facts if vfacts is None else vfacts
    if not isinstance(t, tuple) or not t:
        return t
    if not isinstance(t[0], str):
        return tuple(simplify(c, facts, nonnull, vf) for c in t)
    k = t[0]
    if k in ("cmp", "not", "and", "or") and t in facts:
        return facts[t]
    if k in ("cmp", "not", "and", "or") and NOT(t) in facts:
        return NOT(facts[NOT(t)])
    if k == "cmp":
        neg = ("cmp", CMP_NEG[t[1]], t[2], t[3]) if t[1] in ("in", "notin", "is", "isnot", "eq", "ne") else None
        if neg is not None and neg in facts:
            return NOT(facts[neg])
        l, r = simplify(t[2], facts, nonnull), simplify(t[3], facts, nonnull)
        if t[1] in ("is", "isnot", "eq", "ne") and NONE in (l, r):
            o = r if l == NONE else l
            if o == NONE:
                return TRUE if t[1] in ("is", "eq") else FALSE
            if o in nonnull or o[0] in ("tuple", "list", "dict", "fstr") or (o[0] == "const" and o[1] is not None):
                return FALSE if t[1] in ("is", "eq") else TRUE
        out = ("cmp", t[1], l, r)
        return facts.get(out, out)
    if k == "not":
        return NOT(simplify(t[1], facts, nonnull))
    if k == "and":
        return AND(*[simplify(c, facts, nonnull) for c in t[1]])
    if k == "or":
        return OR(*[simplify(c, facts, nonnull) for c in t[1]])
    if k == "ite":
        return ITE(simplify(t[1], facts, nonnull), simplify(t[2], facts, nonnull, vf), simplify(t[3], facts, nonnull, vf))
    if t in vf:
        return vf[t]
    out = tuple(simplify(c, facts, nonnull, vf) if isinstance(c, tuple) else c for c in t)
    if out in vf:
        return vf[out]
    return out


@dataclass
class Scenario:
    name: str
    events: List[Tuple[Event, tuple, tuple]] = field(default_factory=list)  # (event, live, term) still possible
    writes: List[Tuple[Event, tuple]] = field(default_factory=list)  # writes to table[key]: (event, value)
    returns: List[Tuple[Event, tuple, tuple]] = field(default_factory=list)  # (event, live, value)
    undetermined: List[tuple] = field(default_factory=list)  # path conditions that stayed symbolic

    def calls(self, fterm) -> List[Event]:
        return [e for e, lv, tm in self.events if e.kind == "call" and tm[1] == fterm]


def scenarios(s: Summary, table: tuple, key: tuple, nonnull=()) -> Dict[str, Scenario]:
    """Evaluate the summary under `key in table` (present) and `key not in table` (absent).

    In the present scenario table[key] and table.get(key) denote the stored value (never None: the tables hold ids,
    models and documents); in the absent scenario table.get(key[, d]) is d / None.  A write is `table[key] = v` or
    `table.setdefault(key, v)` (the latter only in the absent scenario).  Reads of table[key] that follow a write in
    program order denote the written value."""
    get1 = ("call", ("attr", table, "get"), (key,), ())
    get2 = ("call", ("attr", table, "get"), (key, NONE), ())
    cur = ("sub", table, key)
    out = {}
    for name in ("present", "absent"):
        facts = {("cmp", "in", key, table): TRUE if name == "present" else FALSE}
        if name == "present":
            facts[get1] = cur
            facts[get2] = cur
            nn = tuple(nonnull) + (cur,)
        else:
            facts[get1] = NONE
            facts[get2] = NONE
            nn = tuple(nonnull)
        # `try: ... table[key] ... except KeyError:` is the membership test written as an exception: the handler runs exactly when
        # the key is absent (when the guarded block reads table[key] and can raise KeyError nowhere else that we know of)
        dead = set()
        for tid, T in getattr(s, "tries", {}).items():
            for h in T.handlers:
                hid, names = h[0], h[1]
                if not any(n_.split(".")[-1] in ("KeyError", "LookupError") for n_ in names):
                    continue
                body = [e_ for e_ in s.events if tid in e_.handlers and not e_.in_handler]
                phis = [x for e_ in s.events for x in list(walk(e_.term)) + list(walk(e_.live)) if x[0] == "tryphi" and x[1] == tid and len(x[2]) == 2]
                reads = any(x == cur for e_ in body for x in walk(e_.term)) or any(y == cur for x in phis for y in walk(x[2][0]))
                if reads:
                    facts[("caught", hid, tuple(names))] = FALSE if name == "present" else TRUE
                    for x in phis:
                        facts[x] = x[2][0] if name == "present" else x[2][1]  # the value the guarded block / the handler leaves
                    if name == "absent":
                        # what the guarded block does with table[key] does not happen: the lookup raises first
                        dead |= {e_.idx for e_ in body if any(x == cur for x in walk(e_.term))}
        sc = Scenario(name)
        written: Optional[tuple] = None
        for e in s.events:
            if e.idx in dead:
                continue
            f2 = dict(facts)
            if written is not None:
                # reads after the write see the written value
                f2[cur] = written
                f2[get1] = written
                f2[get2] = written
            lv = simplify(e.live, facts, nn)
            if lv == FALSE:
                continue
            tm = simplify(e.term, facts, nn, f2)
            if e.kind == "return":
                from .sym import _split_ite
                for r in _split_ite(Event(e.kind, lv, tm, e.node, e.loops, e.idx, e.handlers, e.in_handler)):
                    l3 = simplify(r.live, facts, nn)
                    if l3 != FALSE:
                        sc.returns.append((e, l3, r.term))
                        if l3 != TRUE:
                            sc.undetermined.append(l3)
                continue
            sc.events.append((e, lv, tm))
            if lv != TRUE and e.kind in ("store", "raise"):
                sc.undetermined.append(lv)
            if e.kind == "store" and tm[1] == ("sub", table, key):
                sc.writes.append((e, tm[2]))
                written = tm[2]
            elif e.kind == "call" and tm[1] == ("attr", table, "setdefault") and len(tm[2]) == 2 and tm[2][0] == key:
                if name == "absent" and written is None:
                    sc.writes.append((e, tm[2][1]))
                    written = tm[2][1]
            elif e.kind == "call" and tm[1] in (("attr", table, "pop"), ("attr", table, "clear"), ("attr", table, "update"),
                                                ("attr", table, "popitem")):
                sc.writes.append((e, ("unknown", "table mutated by " + tm[1][2])))
            elif e.kind == "delete" and tm[0] == "sub" and tm[1] == table:
                sc.writes.append((e, ("unknown", "entry deleted")))
        out[name] = sc
    return out


def memo_verdict(sc: Dict[str, Scenario], table: tuple, key: tuple, make_ok) -> Tuple[bool, str]:
    """The memo discipline: present -> no write, returns the stored value; absent -> exactly one write of a value
    accepted by make_ok, and that value (or a read of the entry after the write) is returned."""
    cur = ("sub", table, key)
    p, a = sc["present"], sc["absent"]
    if p.writes:
        return False, f"an existing entry is overwritten ({len(p.writes)} write(s) when the key is already registered)"
    if not p.returns or any(v != cur for _, _, v in p.returns):
        return False, "for a registered key the function does not return the registered entry"
    if len(a.writes) != 1:
        return False, f"a new key is written {len(a.writes)} times (expected exactly once)"
    v = a.writes[0][1]
    if not make_ok(v):
        return False, "the entry registered for a new key is not the freshly made value"
    if not a.returns or any(r != v for _, _, r in a.returns):
        return False, "for a new key the function does not return the entry it registered"
    if any(e.idx < a.writes[0][0].idx and e.kind == "return" for e, _, _ in a.returns):
        return False, "a return precedes the registration"
    return True, ""


def ite_conditions(*terms) -> List[tuple]:
    """The conditions of the conditional values inside the terms (outermost first, no duplicates)."""
    from .sym import walk
    out = []
    for t in terms:
        for x in walk(t):
            if x[0] == "ite" and x[1] not in out and NOT(x[1]) not in out:
                out.append(x[1])
    return out


def cases(*terms, limit=5):
    """Case split over the conditions of the conditional values in `terms`: yields (facts, simplified terms) for every
    combination of truth values (conditions nested under a decided branch disappear by simplification)."""
    import itertools
    conds = ite_conditions(*terms)[:limit]
    seen = set()
    for vals in itertools.product((TRUE, FALSE), repeat=len(conds)):
        facts = dict(zip(conds, vals))
        out = tuple(simplify(t, facts) for t in terms)
        if out in seen:
            continue
        seen.add(out)
        yield facts, out


def keyerror_as_membership(s: Summary):
    """{('caught', H, names): ('cmp', 'notin', k, D)} for every `try: ... D[k] ... except KeyError:` of the summary whose guarded block
    reads exactly one outermost subscript (the lookup written as an exception instead of a membership test).  Stated assumption:
    the containers on the way to D exist (an inner lookup such as arr.coords[dim] does not raise)."""
    out = {}
    for tid, T in getattr(s, "tries", {}).items():
        for h in T.handlers:
            hid, names = h[0], h[1]
            if not any(n_.split(".")[-1] in ("KeyError", "LookupError") for n_ in names):
                continue
            cands = []
            for e_ in s.events:
                if tid in e_.handlers and not e_.in_handler and e_.kind in ("return", "call", "store"):
                    t_ = e_.term if e_.kind != "store" else e_.term[2]
                    if t_[0] == "sub" and t_[2][0] != "slice":
                        cands.append(t_)
                for x in list(walk(e_.term)) + list(walk(e_.live)):
                    if x[0] == "tryphi" and x[1] == tid and len(x[2]) == 2 and x[2][0][0] == "sub" and x[2][0][2][0] != "slice":
                        cands.append(x[2][0])
            cands = list(dict.fromkeys(cands))
            if len(cands) == 1:
                out[("caught", hid, tuple(names))] = ("cmp", "notin", cands[0][2], cands[0][1])
    return out


def membership_view(s: Summary) -> Summary:
    """the summary with every such handler condition rewritten as the membership test, and the guarded events that perform the lookup
    conditioned on the key being present (they complete only then)"""
    import copy
    from .sym import subst
    km = keyerror_as_membership(s)
    if not km:
        return s
    full = dict(km)
    for k_, v_ in km.items():
        full[("not", k_)] = ("cmp", "in", v_[2], v_[3])
    by_try = {}
    for tid, T in s.tries.items():
        for h in T.handlers:
            key = ("caught", h[0], tuple(h[1]))
            if key in km:
                by_try[tid] = km[key]
    evs = []
    for e in s.events:
        live = subst(e.live, full)
        for tid, m in by_try.items():
            if tid in e.handlers and not e.in_handler and any(x == ("sub", m[3], m[2]) for x in walk(e.term)):
                live = AND(live, ("cmp", "in", m[2], m[3]))
        evs.append(Event(e.kind, live, e.term, e.node, e.loops, e.idx, e.handlers, e.in_handler))
    s2 = copy.copy(s)
    s2.events = evs
    return s2
