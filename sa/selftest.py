"""E11 -- thorough tier: analyser self-validation + sensitivity self-test (mutant / neutral catalogue)."""

from __future__ import annotations

import json
import os
import subprocess
import sys

E1_USERS = {"C01", "C02", "C03", "C04", "C18", "C19"}

_DUMP = r'''
import json, sys, inspect, importlib, pkgutil
import pydantic
out = {}
import soundevent.data, soundevent.io.aoef
mods = []
for pkg in (soundevent.data, soundevent.io.aoef):
    mods.append(pkg)
    for m in pkgutil.iter_modules(pkg.__path__, pkg.__name__ + "."):
        mods.append(importlib.import_module(m.name))
for mod in mods:
    for name, obj in vars(mod).items():
        if inspect.isclass(obj) and issubclass(obj, pydantic.BaseModel) and obj.__module__ == mod.__name__:
            out[f"{obj.__module__}:{obj.__name__}"] = {k: bool(f.is_required()) for k, f in obj.model_fields.items()}
print(json.dumps(out))
'''


def validate_model_tables(root: str):
    """Compare the AST-derived pydantic field tables (E1) with pydantic's own model_fields (declarations only).
    Returns (ok, text). A disagreement means the *extractor* is wrong: analysis error, never a violation."""
    from .index import Index
    from .models import Models
    env = dict(os.environ, PYTHONPATH=os.path.join(root, "src"))
    try:
        p = subprocess.run(["/venv/bin/python", "-W", "ignore", "-c", _DUMP], capture_output=True, text=True, env=env, timeout=120)
    except Exception as e:  # noqa: BLE001
        return True, f"model-table self-validation skipped ({e})"
    if p.returncode != 0:
        return True, "model-table self-validation skipped (the package does not import in this tree)"
    truth = json.loads(p.stdout.strip().splitlines()[-1])
    ix = Index(root)
    m = Models(ix)
    diffs = []
    n = 0
    for ci in m.all_models():
        if ci.qual not in truth:
            continue
        n += 1
        mine = {f.name: f.required for f in m.fields(ci)}
        if mine != truth[ci.qual]:
            diffs.append(f"{ci.qual}: extractor {sorted(mine.items())} vs pydantic {sorted(truth[ci.qual].items())}")
    missing = [q for q in truth if ix.class_by_qual(q) is None]
    if diffs or missing:
        return False, "; ".join(diffs[:3] + [f"classes not found by the extractor: {missing[:3]}"] if missing else diffs[:3])
    return True, f"model tables of {n} classes agree with pydantic's model_fields (names and requiredness)"


def thorough(prop: str, root: str, rc: int, evidence_dir) -> int:
    if prop in E1_USERS:
        ok, text = validate_model_tables(root)
        print(f"[{prop}] self-validation: {text}")
        if evidence_dir and os.path.exists(os.path.join(evidence_dir, f"{prop}.json")):
            pth = os.path.join(evidence_dir, f"{prop}.json")
            ev = json.load(open(pth))
            ev["coverage"]["model_table_selfvalidation"] = text
            json.dump(ev, open(pth, "w"), indent=1, default=str)
        if not ok:
            print(f"ANALYSIS-ERROR property={prop} rule=E1 site=models reason=field-table extractor disagrees with pydantic: {text}")
            return 2 if rc == 0 else rc
    try:
        from selftest.engine_pairs import run as engine_pairs
        fails, n_eq, n_ne = engine_pairs(root)
        print(f"[{prop}] engine self-test: {n_eq} pairs of equivalent spellings identified, {n_ne} different pairs kept apart"
              + (f" -- {len(fails)} FAILED" if fails else ""))
        for f_ in fails:
            print(f"  ENGINE-SELFTEST-FAILURE {f_[:300]}")
        if evidence_dir and os.path.exists(os.path.join(evidence_dir, f"{prop}.json")):
            pth = os.path.join(evidence_dir, f"{prop}.json")
            ev = json.load(open(pth))
            ev["coverage"]["engine_selftest"] = {"equivalent_pairs": n_eq, "different_pairs": n_ne, "failures": fails}
            json.dump(ev, open(pth, "w"), indent=1, default=str)
        if fails:
            print(f"ANALYSIS-ERROR property={prop} rule=E4 site=engine reason=summary normal forms broken ({len(fails)} pairs)")
            return 2 if rc == 0 else rc
    except ModuleNotFoundError:
        pass
    try:
        from selftest.harness import run_catalogue
    except ModuleNotFoundError:
        return rc
    rc = run_catalogue(prop, root, rc, evidence_dir)
    from selftest.harness import run_seeded
    return run_seeded(prop, root, rc, evidence_dir)
