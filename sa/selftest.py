"""E11 -- sensitivity self-test (mutant / neutral-variant catalogue); filled in per property."""

from __future__ import annotations


def thorough(prop: str, root: str, rc: int, evidence_dir) -> int:
    try:
        from selftest.harness import run_catalogue
    except ModuleNotFoundError:
        return rc
    return run_catalogue(prop, root, rc, evidence_dir)
