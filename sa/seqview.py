"""Element-wise view of list-valued terms: the i-th element and the length of a term, whatever chain of comprehensions,
zips, repetitions and conversions produced it.  Two spellings that build the same list have the same view:

    [(f(g), v) for g, v in zip(gs, vs)]      and      list(zip([f(g) for g in gs], vs))
    [v] * len(gs)                            and      [v for _ in range(len(gs))]

item(t, I) is a term over the symbolic index I; length(t) is a term (or None when it is not determined structurally).
"""
from __future__ import annotations

from typing import Optional

from .sym import ITE, fold_sub, subst

LIST_WRAPPERS = (("builtin", "list"), ("builtin", "tuple"), ("ext", "numpy.array"), ("ext", "numpy.asarray"))


def LEN(x):
    return ("call", ("builtin", "len"), (x,), ())


def item(t, I):
    """the I-th element of the list-valued term t (None when t filters, i.e. positions do not correspond)"""
    if t[0] == "ite":
        a, b = item(t[2], I), item(t[3], I)
        return None if a is None or b is None else ITE(t[1], a, b)
    if t[0] == "call" and t[1] in LIST_WRAPPERS and len(t[2]) == 1 and not t[3]:
        return item(t[2][0], I)
    if t[0] == "comp" and t[1] in ("list", "gen") and len(t[3]) == 1:
        lid, it, conds = t[3][0]
        if conds:
            return None
        inner = item(it, I)
        if inner is None:
            return None
        return fold_sub(subst(t[2], {("elem", lid): inner}))
    if t[0] == "call" and t[1] == ("builtin", "zip") and not t[3]:
        parts = [item(a, I) for a in t[2]]
        return None if any(p is None for p in parts) else ("tuple", tuple(parts))
    if t[0] == "call" and t[1] == ("builtin", "enumerate") and len(t[2]) == 1 and not t[3]:
        inner = item(t[2][0], I)
        return None if inner is None else ("tuple", (I, inner))
    if t[0] == "call" and t[1] == ("builtin", "range") and len(t[2]) == 1 and not t[3]:
        return I
    if t[0] == "bin" and t[1] == "*" and t[2][0] == "list" and len(t[2][1]) == 1:
        return t[2][1][0]
    if t[0] == "bin" and t[1] == "*" and t[3][0] == "list" and len(t[3][1]) == 1:
        return t[3][1][0]
    if t[0] == "call" and t[1] == ("ext", "itertools.repeat") and len(t[2]) == 2:
        return t[2][0]
    if t[0] in ("list", "tuple"):
        return None  # a display has concrete positions; not needed here
    return ("sub", t, I)


def length(t) -> Optional[tuple]:
    if t[0] == "ite":
        a, b = length(t[2]), length(t[3])
        return None if a is None or b is None else ITE(t[1], a, b)
    if t[0] == "call" and t[1] in LIST_WRAPPERS and len(t[2]) == 1 and not t[3]:
        return length(t[2][0])
    if t[0] == "comp" and t[1] in ("list", "gen") and len(t[3]) == 1:
        lid, it, conds = t[3][0]
        return None if conds else length(it)
    if t[0] == "call" and t[1] == ("builtin", "zip") and not t[3]:
        ls = [length(a) for a in t[2]]
        if any(l is None for l in ls):
            return None
        return ls[0] if all(l == ls[0] for l in ls) else ("call", ("builtin", "min"), tuple(ls), ())
    if t[0] == "call" and t[1] == ("builtin", "enumerate") and len(t[2]) == 1:
        return length(t[2][0])
    if t[0] == "call" and t[1] == ("builtin", "range") and len(t[2]) == 1 and not t[3]:
        return t[2][0]
    if t[0] == "bin" and t[1] == "*" and t[2][0] == "list" and len(t[2][1]) == 1:
        return t[3]
    if t[0] == "bin" and t[1] == "*" and t[3][0] == "list" and len(t[3][1]) == 1:
        return t[2]
    if t[0] == "call" and t[1] == ("ext", "itertools.repeat") and len(t[2]) == 2:
        return t[2][1]
    if t[0] in ("list", "tuple") and not any(x[0] == "star" for x in t[1]):
        return ("const", len(t[1]))
    return LEN(t)
