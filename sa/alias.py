"""Renamed helpers: a reference-tree function that is gone, and the new function every one of its callers calls instead.

The rules know the reference tree's functions by name (sa/pinned_names.json).  When such a function is renamed, has
its parameters reordered or bundled into a record, or moves under a new name, the rules must keep deciding the same
facts about the same code.  This module finds the replacement structurally and builds the two-way adapter:

  * sa/pinned_calls.json (tools/gen_pinned_calls.py) records, for every reference function, its in-package call
    sites: the caller and the argument terms bound to each parameter, in the caller's vocabulary;
  * a function g that is not on the reference tree and is called by every surviving caller of the missing function f
    is a candidate; the caller is summarised with g kept opaque, and g's actual arguments are expressed over f's
    recorded arguments (every leaf of g's arguments must be one of f's arguments or a constant, f's arguments must be
    pairwise distinct, and all call sites must agree) -- otherwise there is no alias and the anchor stays missing;
  * forward: f's summary is g's summary with g's parameters replaced by those expressions (f's own parameter names);
    backward: a call g(Q...) is seen by the engine as the call f(P...) with P read off Q along the same paths.

Nothing is assumed about g's body: every rule about f is decided on what g actually does.
"""
import ast
import json
import os
import re
from typing import Dict, List, Optional, Tuple

from .index import AnalysisError, Index, pick_def

_HERE = os.path.dirname(os.path.abspath(__file__))
try:
    with open(os.path.join(_HERE, "pinned_calls.json")) as _f:
        CALLS: Dict[str, dict] = json.load(_f)
except OSError:
    CALLS = {}

_ID = re.compile(r"^[A-Z]\d+(:.*)?$")


def to_json(t):
    if isinstance(t, tuple):
        return [to_json(c) for c in t]
    if isinstance(t, frozenset):
        return {"__fs__": sorted(to_json(c) for c in t)}
    return t


def from_json(j):
    if isinstance(j, list):
        return tuple(from_json(c) for c in j)
    if isinstance(j, dict) and "__fs__" in j:
        return frozenset(from_json(c) for c in j["__fs__"])
    return j


def canon_ids(t, mp=None):
    """loop / allocation ids renamed in order of first occurrence (they differ between two trees)"""
    if mp is None:
        mp = {}
    if isinstance(t, tuple):
        return tuple(canon_ids(c, mp) for c in t)
    if isinstance(t, str) and _ID.match(t):
        return mp.setdefault(t, f"#{len(mp)}")
    return t


class Alias:
    def __init__(self, old_qual, old_params, new_qual, module, node, cls, fwd, back):
        self.old_qual, self.old_params, self.new_qual = old_qual, old_params, new_qual
        self.module, self.node, self.cls = module, node, cls
        self.fwd = fwd      # {new param: term over ("param", old param)}
        self.back = back    # {old param: (new param, path of tuple indices)}

    def old_args(self, bound_new: Dict[str, tuple]) -> Optional[List[tuple]]:
        """the reference function's positional arguments for a call of the replacement with these bound arguments"""
        out = []
        for p in self.old_params:
            if p not in self.back:
                return None
            q, path = self.back[p]
            if q not in bound_new:
                return None
            t = bound_new[q]
            for i in path:
                if t[0] in ("tuple", "list") and i < len(t[1]) and not any(x[0] == "star" for x in t[1]):
                    t = t[1][i]
                else:
                    t = ("sub", t, ("const", i))
            out.append(t)
        return out


def _subst_old(t, amap):
    if t in amap:
        return ("oldparam", amap[t])
    if isinstance(t, tuple):
        return tuple(_subst_old(c, amap) if isinstance(c, tuple) else c for c in t)
    return t


def _leftover(t) -> bool:
    """does the term still mention the caller's vocabulary (anything but constants, old parameters and displays)?"""
    if not isinstance(t, tuple) or not t:
        return False
    if t[0] == "oldparam":
        return False
    if t[0] == "const":
        return False
    if t[0] in ("tuple", "list"):
        return any(_leftover(c) for c in t[1])
    return True


def _paths(t, path=()):
    if t[0] == "oldparam":
        yield t[1], path
    elif t[0] in ("tuple", "list"):
        for i, c in enumerate(t[1]):
            yield from _paths(c, path + (i,))


def _rename_old(t):
    if isinstance(t, tuple):
        if t and t[0] == "oldparam":
            return ("param", t[1])
        return tuple(_rename_old(c) if isinstance(c, tuple) else c for c in t)
    return t


def _callers(index: Index, site_quals):
    out = []
    for cq in site_quals:
        modname, qn = cq.split(":")
        m = index.modules.get(modname)
        if m is None:
            continue
        if "." in qn:
            cname, mname = qn.split(".", 1)
            ci = m.classes.get(cname)
            if ci is None or mname not in ci.methods:
                continue
            out.append((cq, m, pick_def(ci.methods[mname]), ci))
        else:
            defs = [d for d in m.defs.get(qn, []) if isinstance(d, ast.FunctionDef)]
            if defs:
                out.append((cq, m, pick_def(defs), None))
    return out


def _candidates(index: Index, m, fn, ci, want_method: bool, pinned) -> set:
    out = set()
    for nd in ast.walk(fn):
        if not isinstance(nd, ast.Call):
            continue
        f = nd.func
        if want_method:
            if isinstance(f, ast.Attribute) and isinstance(f.value, ast.Name) and f.value.id in ("self", "cls") and ci is not None:
                found = ci.find_method(f.attr)
                if found and f"{found[0].name}.{f.attr}" not in pinned.get(found[0].module.name, ()):
                    out.add(f"{found[0].module.name}:{found[0].name}.{f.attr}")
        elif isinstance(f, (ast.Name, ast.Attribute)):
            try:
                sy = index.resolve_expr(m, f)
            except AnalysisError:
                sy = None
            if sy is not None and sy.kind == "func" and ":" in sy.qual and isinstance(sy.node, ast.FunctionDef):
                modname, fname = sy.qual.split(":")
                if "." not in fname and fname not in pinned.get(modname, ()):
                    out.add(sy.qual)
    return out


def find_alias(index: Index, old_qual: str) -> Optional[Alias]:
    cache = index.__dict__.setdefault("_aliases", {})
    if old_qual in cache:
        return cache[old_qual]
    cache[old_qual] = None  # re-entrancy guard
    cache[old_qual] = _find_alias(index, old_qual)
    if cache[old_qual] is not None:
        index.__dict__.setdefault("_alias_targets", {})[cache[old_qual].new_qual] = cache[old_qual]
    return cache[old_qual]


def alias_of_target(index: Index, new_qual: str) -> Optional[Alias]:
    """the alias whose replacement is `new_qual` (all missing reference functions are resolved first)"""
    if "_aliases_all" not in index.__dict__:
        index.__dict__["_aliases_all"] = True
        from . import sym
        for modname, names in sym.PINNED.items():
            m = index.modules.get(modname)
            for name in names:
                q = f"{modname}:{name}"
                if q not in CALLS:
                    continue
                if not _exists(index, modname, name):
                    find_alias(index, q)
    return index.__dict__.get("_alias_targets", {}).get(new_qual)


def _exists(index: Index, modname: str, name: str) -> bool:
    try:
        index.need_func(modname, name)
        return True
    except AnalysisError:
        return False


def _find_alias(index: Index, old_qual: str) -> Optional[Alias]:
    from . import sym
    rec = CALLS.get(old_qual)
    if rec is not None and not rec["sites"] and "." in old_qual.split(":")[1]:
        return _override_alias(index, old_qual, rec)
    if not rec or not rec["sites"]:
        return None
    old_params = rec["params"]
    want_method = "." in old_qual.split(":")[1]
    sites_by_caller: Dict[str, list] = {}
    for s in rec["sites"]:
        sites_by_caller.setdefault(s["caller"], []).append(s)
    callers = _callers(index, list(sites_by_caller))
    if not callers:
        return None
    cands = None
    for cq, m, fn, ci in callers:
        c = _candidates(index, m, fn, ci, want_method, sym.PINNED)
        cands = c if cands is None else (cands & c)
    found = []
    for cand in sorted(cands or ()):
        a = _unify(index, old_qual, old_params, cand, callers, sites_by_caller, want_method)
        if a is not None:
            found.append(a)
    if len(found) != 1:
        return None
    return found[0]


def _unify(index, old_qual, old_params, cand, callers, sites_by_caller, want_method) -> Optional[Alias]:
    from . import sym
    modname, qn = cand.split(":")
    gm = index.modules[modname]
    gcls = None
    if "." in qn:
        gcls = gm.classes[qn.split(".")[0]]
        gnode = pick_def(gcls.methods[qn.split(".", 1)[1]])
    else:
        gnode = pick_def([d for d in gm.defs.get(qn, []) if isinstance(d, ast.FunctionDef)])
    a = gnode.args
    if a.vararg or a.kwarg:
        return None
    decos = [ast.unparse(d) for d in gnode.decorator_list]
    if any(d not in ("staticmethod", "classmethod") for d in decos):
        return None
    new_params = [p.arg for p in list(a.posonlyargs) + list(a.args) + list(a.kwonlyargs)]
    skip_first = gcls is not None and "staticmethod" not in decos
    if skip_first:
        new_params = new_params[1:]
    fwd_all = None
    if len(old_params) == 1 and len(new_params) == 1:
        # one parameter each: the correspondence is forced
        return Alias(old_qual, list(old_params), cand, gm, gnode, gcls, {new_params[0]: ("param", old_params[0])},
                     {old_params[0]: (new_params[0], ())})
    sym.OPAQUE.add(cand)
    try:
        for cq, m, fn, ci in callers:
            try:
                cs = sym.Evaluator(index, m, fn, cq, ci).run()
            except (AnalysisError, RecursionError):
                return None
            new_sites = []
            for e in cs.events:
                if e.kind != "call":
                    continue
                f = e.term[1]
                if want_method:
                    hit = f[0] == "attr" and f[1] in (("param", "self"), ("param", "cls")) and f[2] == qn.split(".", 1)[1]
                else:
                    hit = f[0] == "global" and f[1] == cand
                if hit:
                    new_sites.append(e.term)
            old_sites = sites_by_caller[cq]
            if not new_sites:
                return None
            pairs = list(zip(old_sites, new_sites)) if len(old_sites) == len(new_sites) else [(old_sites[0], new_sites[0])]
            for os_, nt in pairs:
                bound, extra, spreads, too_many = sym.bind_args(nt, new_params)
                if extra or spreads or too_many:
                    return None
                oargs = {p: canon_ids(from_json(t)) for p, t in os_["args"].items()}
                if len(set(oargs.values())) != len(oargs):
                    return None  # two parameters received the same argument: the correspondence is ambiguous
                amap = {t: p for p, t in oargs.items()}
                fwd = {}
                for q, t in bound.items():
                    tq = _subst_old(canon_ids(t), amap)
                    if _leftover(tq):
                        return None
                    fwd[q] = tq
                if fwd_all is None:
                    fwd_all = fwd
                elif fwd_all != fwd:
                    return None
    finally:
        sym.OPAQUE.discard(cand)
    if fwd_all is None:
        return None
    back = {}
    for q, t in fwd_all.items():
        for p, path in _paths(t):
            if p in back:
                return None
            back[p] = (q, path)
    for p in old_params:
        if p not in back and p not in ("self", "cls"):
            # an argument the replacement no longer receives: only acceptable when no call site passed it
            if any(p in s["args"] for ss in sites_by_caller.values() for s in ss):
                return None
    fwd_terms = {q: _rename_old(t) for q, t in fwd_all.items()}
    return Alias(old_qual, [p for p in old_params if p in back], cand, gm, gnode, gcls, fwd_terms, back)


def _override_alias(index: Index, old_qual: str, rec) -> Optional[Alias]:
    """an override of a renamed base-class method: the method of the same class carrying the base method's new name"""
    from . import sym
    modname, qn = old_qual.split(":")
    cname, mname = qn.split(".", 1)
    m = index.modules.get(modname)
    ci = m.classes.get(cname) if m is not None else None
    if ci is None:
        return None
    for base in ci.mro()[1:]:
        bq = f"{base.module.name}:{base.name}.{mname}"
        if mname in base.methods or bq not in CALLS:
            continue
        ab = find_alias(index, bq)
        if ab is None:
            continue
        new_name = ab.new_qual.split(".")[-1]
        if new_name not in ci.methods or f"{cname}.{new_name}" in sym.PINNED.get(modname, ()):
            return None
        node = pick_def(ci.methods[new_name])
        a = node.args
        static = any(ast.unparse(d) == "staticmethod" for d in node.decorator_list)
        ps = [p.arg for p in list(a.posonlyargs) + list(a.args) + list(a.kwonlyargs)]
        if not static:
            ps = ps[1:]
        bnode = ab.node.args
        bstatic = any(ast.unparse(d) == "staticmethod" for d in ab.node.decorator_list)
        bps = [p.arg for p in list(bnode.posonlyargs) + list(bnode.args) + list(bnode.kwonlyargs)]
        if not bstatic:
            bps = bps[1:]
        if len(ps) != len(bps) or len(rec["params"]) != len(ab.old_params):
            return None
        ren_new = dict(zip(bps, ps))          # base's new parameter -> this override's new parameter (by position)
        ren_old = dict(zip(ab.old_params, rec["params"]))

        def ren(t):
            if isinstance(t, tuple):
                if len(t) == 2 and t[0] == "param" and t[1] in ren_old:
                    return ("param", ren_old[t[1]])
                return tuple(ren(c) if isinstance(c, tuple) else c for c in t)
            return t

        fwd = {ren_new[q]: ren(t) for q, t in ab.fwd.items()}
        back = {ren_old[p]: (ren_new[q], path) for p, (q, path) in ab.back.items()}
        return Alias(old_qual, list(rec["params"]), f"{modname}:{cname}.{new_name}", m, node, ci, fwd, back)
    return None
