"""Command line driver (three verdicts: 0 pass, 1 violation, 2 analysis error / undecided)."""

from __future__ import annotations

import argparse
import importlib
import json
import os
import sys
import time
import traceback

from .index import AnalysisError, Index
from .report import VERIF, Ctx, finish

PROPS = [f"C{i:02d}" for i in range(1, 21)]


def anchor_files(prop: str):
    import json
    for line in open(os.path.join(VERIF, "properties.jsonl"), encoding="utf-8"):
        p = json.loads(line)
        if p["id"] == prop:
            return list(p["anchors"]["files"])
    return []


def run_rules(mod, ctx, prop):
    """the property's own rules, then the rules common to all properties (state shared between calls) on its anchor files"""
    from sa.index import AnalysisError as _AE, AnchorMissing as _AM
    pending = None
    try:
        out = mod.run(ctx)
    except _AM:
        raise
    except _AE as e:
        # the property's own rules lost their footing: the rules common to all properties are still run on the anchor files --
        # a violation they name is reported; without one the run stays undecided
        pending = e
        out = (getattr(mod, "EXPLANATION", ""), getattr(mod, "ASSUMPTIONS", []))
    from rules.common import check_call_shapes, check_declarations, check_effects, check_public_exports, check_shared_state, check_truthiness, check_validation_bypass
    check_shared_state(ctx, anchor_files(prop))
    check_declarations(ctx, anchor_files(prop))
    check_effects(ctx, anchor_files(prop))
    check_truthiness(ctx, anchor_files(prop))
    check_validation_bypass(ctx, anchor_files(prop))
    check_call_shapes(ctx, anchor_files(prop))
    from rules.serves import check_serves_valid
    check_serves_valid(ctx, prop)
    if pending is None:
        check_public_exports(ctx, mod, anchor_files(prop))
    elif not ctx.findings:
        raise pending
    else:
        ctx.undec(getattr(pending, "rule", None) or "E0", getattr(pending, "site", None) or "-", str(pending))
    return out


def run_property(prop: str, root: str, tier: str, evidence_dir, seed: int, overlay=None, quiet=False) -> int:
    t0 = time.time()
    try:
        mod = importlib.import_module(f"rules.{prop.lower()}")
    except ModuleNotFoundError:
        print(f"ANALYSIS-ERROR property={prop} rule=- site=- reason=no checker module for this property")
        return 2
    try:
        index = Index(root, overlay)
        ctx = Ctx(prop, index, tier)
        explanation, assumptions = run_rules(mod, ctx, prop)
        if tier == "thorough" and hasattr(mod, "thorough"):
            mod.thorough(ctx)
        return finish(ctx, t0, evidence_dir, seed, explanation, assumptions, quiet=quiet)
    except AnalysisError as e:
        if not quiet:
            print(f"ANALYSIS-ERROR property={prop} rule={e.rule} site={e.site} reason={e}")
        return 2
    except Exception as e:  # noqa: BLE001 - any internal failure is an analysis error, never a verdict
        if not quiet:
            print(f"ANALYSIS-ERROR property={prop} rule=- site=- reason=internal error: {type(e).__name__}: {e}")
            traceback.print_exc(file=sys.stdout)
        return 2


def replay(path: str, root: str) -> int:
    with open(path) as fh:
        rec = json.load(fh)
    key = rec["key"]
    prop = key["property"]
    print(f"replaying {key['rule']} at {key['file']} {key['function']}: {key['construct']}")
    t0 = time.time()
    try:
        mod = importlib.import_module(f"rules.{prop.lower()}")
        index = Index(root)
        ctx = Ctx(prop, index, "quick")
        mod.run(ctx)
    except Exception as e:  # noqa: BLE001
        print(f"ANALYSIS-ERROR property={prop} rule=- site=- reason={type(e).__name__}: {e}")
        return 2
    hit = [f for f in ctx.findings if f.key() == key]
    if hit:
        f = hit[0]
        print(f"VIOLATION property={prop} replay={path}")
        print(f"  {f.file}:{f.line} {f.func} [{f.rule}] {f.message}")
        if f.witness is not None:
            print(f"  witness: {json.dumps(f.witness, default=str)}")
        return 1
    print(f"rule instance no longer violated on the current tree ({time.time() - t0:.2f} s)")
    return 0


def main(argv) -> int:
    ap = argparse.ArgumentParser(prog="check")
    ap.add_argument("prop", nargs="?")
    ap.add_argument("--tier", default=os.environ.get("VERIF_TIER", "quick"))
    ap.add_argument("--root", default=os.environ.get("VERIF_REPO", "/repo"))
    ap.add_argument("--evidence-dir", default=os.path.join(VERIF, "evidence"))
    ap.add_argument("--no-evidence", action="store_true")
    ap.add_argument("--replay")
    ap.add_argument("--all", action="store_true")
    a = ap.parse_args(argv)
    seed = int(os.environ.get("VERIF_SEED", "0") or 0)
    if a.replay:
        return replay(a.replay, a.root)
    evd = None if a.no_evidence else a.evidence_dir
    if a.all:
        worst = 0
        for p in PROPS:
            if not os.path.exists(os.path.join(VERIF, "rules", f"{p.lower()}.py")):
                continue
            rc = run_property(p, a.root, a.tier, evd, seed)
            worst = max(worst, rc) if rc != 1 else 1 if worst != 2 else 2
        return worst
    if not a.prop:
        ap.error("property id required")
    if a.tier == "thorough":
        from . import selftest
        rc = run_property(a.prop, a.root, "thorough", evd, seed)
        return selftest.thorough(a.prop, a.root, rc, evd)
    return run_property(a.prop, a.root, a.tier, evd, seed)
