"""E0 -- source index.

Parses every module under <root>/src/soundevent with ``ast`` (never imports it) and offers
name resolution through import aliases, package re-exports and class hierarchies.

Everything a rule looks up goes through :meth:`Index.need`, which raises :class:`AnchorMissing`
when the construct is gone -- a vanished anchor is an analysis error (exit 2), never a pass.
"""

from __future__ import annotations

import ast
import hashlib
import os
from dataclasses import dataclass, field
from typing import Dict, List, Optional, Tuple

PKG = "soundevent"


class _PlainKeywords(ast.NodeTransformer):
    """f(**{"a": x, "b": y}) with a literal dictionary of constant string keys is f(a=x, b=y): every reader (declarations, rules,
    the summariser) sees the plain keywords"""

    def visit_Call(self, node):
        self.generic_visit(node)
        if any(k.arg is None and isinstance(k.value, ast.Dict) and k.value.keys and all(isinstance(kk, ast.Constant) and isinstance(kk.value, str)
                                                                                          and kk.value.isidentifier() for kk in k.value.keys)
               for k in node.keywords):
            kws = []
            for k in node.keywords:
                if k.arg is None and isinstance(k.value, ast.Dict) and k.value.keys and all(
                        isinstance(kk, ast.Constant) and isinstance(kk.value, str) and kk.value.isidentifier() for kk in k.value.keys):
                    for kk, vv in zip(k.value.keys, k.value.values):
                        kws = [q for q in kws if q.arg != kk.value]
                        kws.append(ast.copy_location(ast.keyword(arg=kk.value, value=vv), k))
                else:
                    kws.append(k)
            node.keywords = kws
        # dict(a=x, b=y) is the display {"a": x, "b": y}
        if self.dict_is_builtin and isinstance(node.func, ast.Name) and node.func.id == "dict" and not node.args and node.keywords \
                and all(k.arg is not None for k in node.keywords):
            return ast.copy_location(ast.Dict(keys=[ast.copy_location(ast.Constant(value=k.arg), k.value) for k in node.keywords],
                                              values=[k.value for k in node.keywords]), node)
        return node


def _plain_keywords(tree):
    try:
        tr = _PlainKeywords()
        tr.dict_is_builtin = not any((isinstance(x, ast.Name) and x.id == "dict" and isinstance(x.ctx, ast.Store))
                                     or (isinstance(x, ast.arg) and x.arg == "dict")
                                     or (isinstance(x, (ast.FunctionDef, ast.ClassDef)) and x.name == "dict")
                                     or (isinstance(x, ast.alias) and (x.asname or x.name) == "dict") for x in ast.walk(tree))
        return ast.fix_missing_locations(tr.visit(tree))
    except Exception:  # noqa: BLE001
        return tree


class AnalysisError(Exception):
    """The analysis cannot decide (unrecognised idiom, vanished anchor, internal error)."""

    def __init__(self, msg, rule="-", site="-"):
        super().__init__(msg)
        self.rule = rule
        self.site = site


class AnchorMissing(AnalysisError):
    pass


@dataclass
class Sym:
    """A resolved name."""

    kind: str  # 'func' | 'class' | 'assign' | 'module' | 'ext' | 'builtin'
    qual: str  # 'pkg.mod:Name' / 'pkg.mod:Class.meth' / 'ext:numpy.floor' / 'pkg.mod'
    module: Optional["Module"] = None
    node: Optional[ast.AST] = None
    cls: Optional["ClassInfo"] = None

    def __hash__(self):
        return hash((self.kind, self.qual))

    def __eq__(self, other):
        return isinstance(other, Sym) and (self.kind, self.qual) == (other.kind, other.qual)


@dataclass
class ClassInfo:
    name: str
    module: "Module"
    node: ast.ClassDef
    qual: str
    base_exprs: List[ast.expr] = field(default_factory=list)
    bases: List["ClassInfo"] = field(default_factory=list)  # resolved in-package bases
    ext_bases: List[str] = field(default_factory=list)  # textual names of other bases
    methods: Dict[str, List[ast.FunctionDef]] = field(default_factory=dict)

    def mro(self) -> List["ClassInfo"]:
        out, seen = [], set()

        def walk(c):
            if c.qual in seen:
                return
            seen.add(c.qual)
            out.append(c)
            for b in c.bases:
                walk(b)

        walk(self)
        return out

    def find_method(self, name) -> Optional[Tuple["ClassInfo", ast.FunctionDef]]:
        for c in self.mro():
            if name in c.methods:
                return c, pick_def(c.methods[name])
        return None

    def is_subclass_of(self, other_qual: str) -> bool:
        return any(c.qual == other_qual for c in self.mro())

    def has_ext_base(self, name: str) -> bool:
        return any(name == b or b.endswith("." + name) for c in self.mro() for b in c.ext_bases)


def is_overload(fn: ast.FunctionDef) -> bool:
    for d in fn.decorator_list:
        t = ast.unparse(d)
        if t == "overload" or t.endswith(".overload"):
            return True
    return False


def pick_def(defs: List[ast.AST]):
    """Among several definitions of one name pick the implementation (skip @overload stubs)."""
    real = [d for d in defs if not (isinstance(d, ast.FunctionDef) and is_overload(d))]
    return (real or defs)[-1]


class Module:
    def __init__(self, name: str, path: str, relpath: str, src: str, is_pkg: bool):
        self.name = name
        self.path = path
        self.relpath = relpath
        self.src = src
        self.is_pkg = is_pkg
        self.tree = _plain_keywords(ast.parse(src, filename=path))
        self.defs: Dict[str, List[ast.AST]] = {}
        self.imports: Dict[str, Tuple[str, Optional[str]]] = {}
        self.classes: Dict[str, ClassInfo] = {}
        self._collect(self.tree.body)

    @property
    def package(self) -> str:
        return self.name if self.is_pkg else self.name.rsplit(".", 1)[0]

    def _collect(self, body):
        for st in body:
            if isinstance(st, (ast.FunctionDef, ast.AsyncFunctionDef, ast.ClassDef)):
                self.defs.setdefault(st.name, []).append(st)
            elif isinstance(st, ast.Assign):
                for t in st.targets:
                    if isinstance(t, ast.Name):
                        self.defs.setdefault(t.id, []).append(st)
            elif isinstance(st, ast.AnnAssign):
                if isinstance(st.target, ast.Name) and st.value is not None:
                    self.defs.setdefault(st.target.id, []).append(st)
            elif isinstance(st, ast.Import):
                for a in st.names:
                    if a.asname:
                        self.imports[a.asname] = (a.name, None)
                    else:
                        top = a.name.split(".")[0]
                        self.imports[top] = (top, None)
            elif isinstance(st, ast.ImportFrom):
                if st.level:
                    base = self.package.split(".")
                    if st.level > 1:
                        base = base[: -(st.level - 1)]
                    mod = ".".join(base + ([st.module] if st.module else []))
                else:
                    mod = st.module or ""
                for a in st.names:
                    self.imports[a.asname or a.name] = (mod, a.name)
            elif isinstance(st, ast.If):
                self._collect(st.body)
                self._collect(st.orelse)
            elif isinstance(st, ast.Try):
                self._collect(st.body)
                for h in st.handlers:
                    self._collect(h.body)
                self._collect(st.orelse)


class Index:
    def __init__(self, root: str = "/repo", overlay: Optional[Dict[str, str]] = None):
        self.root = root
        self.src_root = os.path.join(root, "src")
        self.modules: Dict[str, Module] = {}
        self.overlay = overlay or {}
        self._digest = hashlib.sha256()
        pkg_dir = os.path.join(self.src_root, PKG)
        if not os.path.isdir(pkg_dir):
            raise AnchorMissing(f"package directory {pkg_dir} not found")
        for dirpath, dirnames, filenames in os.walk(pkg_dir):
            dirnames.sort()
            for fn in sorted(filenames):
                if not fn.endswith(".py"):
                    continue
                path = os.path.join(dirpath, fn)
                rel = os.path.relpath(path, root)
                if rel in self.overlay:
                    src = self.overlay[rel]
                    if src is None:
                        continue  # the overlay deletes this file
                else:
                    with open(path, encoding="utf-8") as fh:
                        src = fh.read()
                modrel = os.path.relpath(path, self.src_root)[:-3].replace(os.sep, ".")
                is_pkg = modrel.endswith(".__init__")
                if is_pkg:
                    modrel = modrel[: -len(".__init__")]
                try:
                    self.modules[modrel] = Module(modrel, path, rel, src, is_pkg)
                except SyntaxError as e:
                    raise AnalysisError(f"cannot parse {rel}: {e}")
                self._digest.update(rel.encode())
                self._digest.update(src.encode())
        for rel in sorted(self.overlay):
            if self.overlay[rel] is not None and not any(m.relpath == rel for m in self.modules.values()):
                # a module the overlay adds (a change that creates a new file)
                prefix = os.path.join("src", PKG) + os.sep
                if not (rel.startswith(prefix) and rel.endswith(".py")):
                    raise AnalysisError(f"overlay path {rel} is not a module of the package")
                modrel = rel[len("src" + os.sep):-3].replace(os.sep, ".")
                is_pkg = modrel.endswith(".__init__")
                if is_pkg:
                    modrel = modrel[: -len(".__init__")]
                try:
                    self.modules[modrel] = Module(modrel, os.path.join(root, rel), rel, self.overlay[rel], is_pkg)
                except SyntaxError as e:
                    raise AnalysisError(f"cannot parse {rel}: {e}")
                self._digest.update(rel.encode())
                self._digest.update(self.overlay[rel].encode())
        self._class_cache: Dict[str, ClassInfo] = {}
        # "public view": (reference home module, function name) -> (module, name) the package's public name resolves to now
        self.redirect: Dict[Tuple[str, str], Tuple[str, str]] = {}
        for m in self.modules.values():
            m.index = self
        for m in self.modules.values():
            for name, defs in m.defs.items():
                for d in defs:
                    if isinstance(d, ast.ClassDef):
                        ci = ClassInfo(name, m, d, f"{m.name}:{name}", list(d.bases))
                        for st in d.body:
                            if isinstance(st, (ast.FunctionDef, ast.AsyncFunctionDef)):
                                ci.methods.setdefault(st.name, []).append(st)
                        m.classes[name] = ci
        for m in self.modules.values():
            for ci in m.classes.values():
                for b in ci.base_exprs:
                    bb = b.value if isinstance(b, ast.Subscript) else b
                    s = self.resolve_expr(m, bb)
                    if s is not None and s.kind == "class":
                        ci.bases.append(s.cls)
                    else:
                        ci.ext_bases.append(ast.unparse(bb))
        self._expand_registries()
        # `__hash__ = hash_by_uuid` in a class body: a module-level function of the package installed as a method (its first
        # parameter receives the instance); the function's own module is where its names resolve
        self.node_home: Dict[int, Module] = {}
        for m in self.modules.values():
            for ci in m.classes.values():
                for st in ci.node.body:
                    if isinstance(st, ast.Assign) and len(st.targets) == 1 and isinstance(st.targets[0], ast.Name) \
                            and isinstance(st.value, (ast.Name, ast.Attribute)) and st.targets[0].id not in ci.methods:
                        try:
                            sy = self.resolve_expr(m, st.value)
                        except Exception:  # noqa: BLE001
                            sy = None
                        if sy is not None and sy.kind == "func" and isinstance(sy.node, ast.FunctionDef) and sy.module is not None \
                                and ":" in sy.qual and "." not in sy.qual.split(":")[1] and sy.node.args.args:
                            ci.methods.setdefault(st.targets[0].id, []).append(sy.node)
                            self.node_home[id(sy.node)] = sy.module

    # ------------------------------------------------------------------ decorator registries
    @staticmethod
    def _registry_pattern(cls_node: ast.ClassDef):
        """(register method name, table attribute, key expression, key variable) when the class is a table filled through a
        decorator -- `def register(self, *keys): def deco(h): for k in keys: self.T[E(k)] = h; return h; return deco` -- and only
        read otherwise; else None"""
        found = None
        for st in cls_node.body:
            if not isinstance(st, ast.FunctionDef) or st.name.startswith("__"):
                continue
            inner = [x for x in st.body if isinstance(x, ast.FunctionDef)]
            rets = [x for x in st.body if isinstance(x, ast.Return)]
            if len(inner) != 1 or len(rets) != 1 or not isinstance(rets[0].value, ast.Name) or rets[0].value.id != inner[0].name:
                continue
            d = inner[0]
            if len(d.args.args) != 1 or not d.body or not isinstance(d.body[-1], ast.Return) or not isinstance(d.body[-1].value, ast.Name) \
                    or d.body[-1].value.id != d.args.args[0].arg:
                continue
            h = d.args.args[0].arg
            keysrc = st.args.vararg.arg if st.args.vararg else (st.args.args[1].arg if len(st.args.args) == 2 else None)
            if keysrc is None:
                continue
            body = d.body[:-1]
            var = keysrc
            if len(body) == 1 and isinstance(body[0], ast.For) and isinstance(body[0].target, ast.Name) and isinstance(body[0].iter, ast.Name) \
                    and body[0].iter.id == keysrc and st.args.vararg and not body[0].orelse:
                var = body[0].target.id
                body = body[0].body
            elif st.args.vararg:
                continue
            if len(body) != 1 or not isinstance(body[0], ast.Assign) or len(body[0].targets) != 1:
                continue
            t = body[0].targets[0]
            if not (isinstance(t, ast.Subscript) and isinstance(t.value, ast.Attribute) and isinstance(t.value.value, ast.Name) and t.value.value.id == "self"
                    and isinstance(body[0].value, ast.Name) and body[0].value.id == h):
                continue
            found = (st.name, t.value.attr, t.slice, var, bool(st.args.vararg))
        if found is None:
            return None
        # nothing else writes the table
        for st in cls_node.body:
            if isinstance(st, ast.FunctionDef) and st.name != found[0]:
                for x in ast.walk(st):
                    if isinstance(x, ast.Subscript) and isinstance(x.ctx, (ast.Store, ast.Del)) and isinstance(x.value, ast.Attribute) and x.value.attr == found[1]:
                        return None
                    if isinstance(x, ast.Attribute) and x.attr == found[1] and isinstance(x.ctx, ast.Store) and st.name != "__init__":
                        return None
        return found

    def _expand_registries(self):
        """`REG = Registry(...)` + `@REG.register(K1, K2) def f ...` is the table `REG = {E(K1): f, E(K2): f, ...}` (in definition order,
        decorators bottom-up): the assignment gets the dictionary display as its value and the functions lose the decorator, so that
        `REG.get(k)`, `REG[k]`, `k in REG` are read as lookups in a literal table"""
        import copy
        # second form: a module-level dictionary filled by a plain decorator function of the same module --
        # `_R = {}` / `def register(x): _R[E(x)] = x; return x` / `@register class A ...` -- is the table `{E(A): A, ...}` in definition order
        for m in self.modules.values():
            for fn in [x for x in m.tree.body if isinstance(x, ast.FunctionDef)]:
                if len(fn.args.args) != 1 or fn.args.vararg or fn.args.kwarg or fn.decorator_list:
                    continue
                par = fn.args.args[0].arg
                body = [x for x in fn.body if not (isinstance(x, ast.Expr) and isinstance(x.value, ast.Constant))]
                if len(body) != 2 or not isinstance(body[1], ast.Return) or not isinstance(body[1].value, ast.Name) or body[1].value.id != par:
                    continue
                a = body[0]
                if not (isinstance(a, ast.Assign) and len(a.targets) == 1 and isinstance(a.targets[0], ast.Subscript) and isinstance(a.targets[0].value, ast.Name)
                        and isinstance(a.value, ast.Name) and a.value.id == par):
                    continue
                tname = a.targets[0].value.id
                tdefs = m.defs.get(tname, [])
                if len(tdefs) != 1 or not isinstance(tdefs[0], (ast.Assign, ast.AnnAssign)) or not (
                        (isinstance(tdefs[0].value, ast.Dict) and not tdefs[0].value.keys)
                        or (isinstance(tdefs[0].value, ast.Call) and isinstance(tdefs[0].value.func, ast.Name) and tdefs[0].value.func.id == "dict" and not tdefs[0].value.args and not tdefs[0].value.keywords)):
                    continue
                # nothing else in the module writes the table
                writes = [x for x in ast.walk(m.tree) if isinstance(x, ast.Subscript) and isinstance(x.ctx, (ast.Store, ast.Del)) and isinstance(x.value, ast.Name) and x.value.id == tname]
                calls = [x for x in ast.walk(m.tree) if isinstance(x, ast.Call) and isinstance(x.func, ast.Attribute) and isinstance(x.func.value, ast.Name) and x.func.value.id == tname
                         and x.func.attr in ("update", "setdefault", "pop", "popitem", "clear", "__setitem__")]
                if len(writes) != 1 or calls:
                    continue
                keys, vals = [], []
                for d in m.tree.body:
                    if isinstance(d, (ast.ClassDef, ast.FunctionDef)) and any(isinstance(dc, ast.Name) and dc.id == fn.name for dc in d.decorator_list):
                        k = ast.Name(id=d.name, ctx=ast.Load())

                        class _S2(ast.NodeTransformer):
                            def visit_Name(self_, x):
                                return copy.deepcopy(k) if x.id == par else x
                        keys.append(ast.copy_location(_S2().visit(copy.deepcopy(a.targets[0].slice)), d))
                        vals.append(ast.copy_location(ast.Name(id=d.name, ctx=ast.Load()), d))
                        d.decorator_list = [dc for dc in d.decorator_list if not (isinstance(dc, ast.Name) and dc.id == fn.name)]
                if keys:
                    tdefs[0].value = ast.copy_location(ast.Dict(keys=keys, values=vals), tdefs[0].value)
                    ast.fix_missing_locations(tdefs[0])
        # third form: a decorator FACTORY -- `def rule(key): def register(f): _R[E(key)] = f; return f; return register` with
        # `@rule("a") def f ...` -- is the table `{E("a"): f, ...}` in definition order (several keys: `@rule("a") @rule("b")`)
        for m in self.modules.values():
            for fn in [x for x in m.tree.body if isinstance(x, ast.FunctionDef)]:
                if fn.args.vararg or fn.args.kwarg or fn.decorator_list or not fn.args.args or fn.args.kwonlyargs:
                    continue
                body = [x for x in fn.body if not (isinstance(x, ast.Expr) and isinstance(x.value, ast.Constant))]
                if len(body) != 2 or not isinstance(body[0], ast.FunctionDef) or not isinstance(body[1], ast.Return) \
                        or not isinstance(body[1].value, ast.Name) or body[1].value.id != body[0].name:
                    continue
                inner = body[0]
                if len(inner.args.args) != 1 or inner.args.vararg or inner.args.kwarg or inner.decorator_list:
                    continue
                par = inner.args.args[0].arg
                ib = [x for x in inner.body if not (isinstance(x, ast.Expr) and isinstance(x.value, ast.Constant))]
                if len(ib) != 2 or not isinstance(ib[1], ast.Return) or not isinstance(ib[1].value, ast.Name) or ib[1].value.id != par:
                    continue
                a = ib[0]
                as_list = False
                if isinstance(a, ast.Expr) and isinstance(a.value, ast.Call) and isinstance(a.value.func, ast.Attribute) and a.value.func.attr == "append" \
                        and isinstance(a.value.func.value, ast.Name) and len(a.value.args) == 1 and not a.value.keywords:
                    # a LIST registry: `_R.append((key, f))` -- the list of the appended items in definition order
                    as_list = True
                    tname_l, item_l = a.value.func.value.id, a.value.args[0]
                    a = ast.Assign(targets=[ast.Subscript(value=ast.Name(id=tname_l, ctx=ast.Load()), slice=ast.Constant(value=None), ctx=ast.Store())], value=item_l)
                if not (isinstance(a, ast.Assign) and len(a.targets) == 1 and isinstance(a.targets[0], ast.Subscript) and isinstance(a.targets[0].value, ast.Name)):
                    continue
                # the stored value: the decorated object itself, or an expression of it and the factory's arguments (`Rule(f, cap=cap)`)
                if any(isinstance(x, (ast.Lambda, ast.NamedExpr, ast.Yield, ast.Await, ast.ListComp, ast.SetComp, ast.DictComp, ast.GeneratorExp)) for x in ast.walk(a.value)):
                    continue
                tname = a.targets[0].value.id
                tdefs = m.defs.get(tname, [])
                if as_list:
                    if len(tdefs) != 1 or not isinstance(tdefs[0], (ast.Assign, ast.AnnAssign)) or not (isinstance(tdefs[0].value, ast.List) and not tdefs[0].value.elts):
                        continue
                    writes = [x for x in ast.walk(m.tree) if isinstance(x, ast.Subscript) and isinstance(x.ctx, (ast.Store, ast.Del)) and isinstance(x.value, ast.Name) and x.value.id == tname]
                    calls = [x for x in ast.walk(m.tree) if isinstance(x, ast.Call) and isinstance(x.func, ast.Attribute) and isinstance(x.func.value, ast.Name) and x.func.value.id == tname
                             and x.func.attr in ("append", "extend", "insert", "pop", "remove", "clear", "sort", "reverse")]
                    if writes or len(calls) != 1:
                        continue
                else:
                    if len(tdefs) != 1 or not isinstance(tdefs[0], (ast.Assign, ast.AnnAssign)) or not (
                            (isinstance(tdefs[0].value, ast.Dict) and not tdefs[0].value.keys)
                            or (isinstance(tdefs[0].value, ast.Call) and isinstance(tdefs[0].value.func, ast.Name) and tdefs[0].value.func.id == "dict" and not tdefs[0].value.args and not tdefs[0].value.keywords)):
                        continue
                    writes = [x for x in ast.walk(m.tree) if isinstance(x, ast.Subscript) and isinstance(x.ctx, (ast.Store, ast.Del)) and isinstance(x.value, ast.Name) and x.value.id == tname]
                    calls = [x for x in ast.walk(m.tree) if isinstance(x, ast.Call) and isinstance(x.func, ast.Attribute) and isinstance(x.func.value, ast.Name) and x.func.value.id == tname
                             and x.func.attr in ("update", "setdefault", "pop", "popitem", "clear", "__setitem__")]
                    if len(writes) != 1 or calls:
                        continue
                fparams = [x.arg for x in fn.args.args]
                fdefaults = dict(zip(fparams[len(fparams) - len(fn.args.defaults):], fn.args.defaults))
                keys, vals = [], []
                for d in m.tree.body:
                    if not isinstance(d, (ast.ClassDef, ast.FunctionDef)):
                        continue
                    mine = [dc for dc in d.decorator_list if isinstance(dc, ast.Call) and isinstance(dc.func, ast.Name) and dc.func.id == fn.name
                            and len(dc.args) <= len(fparams) and not any(isinstance(x, ast.Starred) for x in dc.args) and all(k.arg in fparams for k in dc.keywords)]
                    okd = []
                    for dc in reversed(mine):
                        bind = dict(zip(fparams, dc.args))
                        bind.update({k.arg: k.value for k in dc.keywords})
                        for fp in fparams:
                            if fp not in bind and fp in fdefaults:
                                bind[fp] = fdefaults[fp]
                        if set(bind) != set(fparams):
                            continue
                        bind[par] = ast.Name(id=d.name, ctx=ast.Load())

                        class _S3(ast.NodeTransformer):
                            def visit_Name(self_, x):
                                return copy.deepcopy(bind[x.id]) if x.id in bind else x
                        keys.append(ast.copy_location(_S3().visit(copy.deepcopy(a.targets[0].slice)), d))
                        vals.append(ast.copy_location(_S3().visit(copy.deepcopy(a.value)), d))
                        okd.append(dc)
                    if okd:
                        d.decorator_list = [dc for dc in d.decorator_list if dc not in okd]
                if keys and as_list:
                    tdefs[0].value = ast.copy_location(ast.List(elts=vals, ctx=ast.Load()), tdefs[0].value)
                    ast.fix_missing_locations(tdefs[0])
                elif keys:
                    tdefs[0].value = ast.copy_location(ast.Dict(keys=keys, values=vals), tdefs[0].value)
                    ast.fix_missing_locations(tdefs[0])
                if keys and not any(isinstance(x, ast.Name) and x.id == fn.name and isinstance(x.ctx, ast.Load) for x in ast.walk(m.tree)):
                    # every use of the factory was a decorator and has been folded into the table: its store is spent (nothing mutates the
                    # table any more, so lookups in it are lookups in a literal table)
                    inner.body = [ast.copy_location(ast.Pass(), ib[0]) if st is ib[0] else st for st in inner.body]
        patterns = {}
        for m in self.modules.values():
            for ci in m.classes.values():
                pat = self._registry_pattern(ci.node)
                if pat is not None:
                    patterns[ci.qual] = pat
        if not patterns:
            return
        for m in self.modules.values():
            for name, defs in list(m.defs.items()):
                for st in defs:
                    if not isinstance(st, (ast.Assign, ast.AnnAssign)) or not isinstance(st.value, ast.Call):
                        continue
                    f = st.value.func
                    if isinstance(f, ast.Subscript):
                        f = f.value
                    try:
                        sy = self.resolve_expr(m, f)
                    except Exception:  # noqa: BLE001
                        sy = None
                    if sy is None or sy.kind != "class" or sy.qual not in patterns:
                        continue
                    reg, _, keyexpr, var, _ = patterns[sy.qual]
                    keys, vals = [], []
                    for fn in m.tree.body:
                        if not isinstance(fn, ast.FunctionDef):
                            continue
                        keep = []
                        mine = []
                        for dec in fn.decorator_list:
                            if isinstance(dec, ast.Call) and isinstance(dec.func, ast.Attribute) and dec.func.attr == reg and isinstance(dec.func.value, ast.Name) \
                                    and dec.func.value.id == name and not dec.keywords and not any(isinstance(a, ast.Starred) for a in dec.args):
                                mine.append(dec)
                            else:
                                keep.append(dec)
                        if not mine:
                            continue
                        for dec in reversed(mine):  # decorators apply bottom-up
                            for k in dec.args:
                                class _S(ast.NodeTransformer):
                                    def visit_Name(self_, x):
                                        return copy.deepcopy(k) if x.id == var else x
                                keys.append(ast.copy_location(_S().visit(copy.deepcopy(keyexpr)), dec))
                                vals.append(ast.copy_location(ast.Name(id=fn.name, ctx=ast.Load()), dec))
                        fn.decorator_list = keep
                    if keys:
                        st.value = ast.copy_location(ast.Dict(keys=keys, values=vals), st.value)
                        ast.fix_missing_locations(st)

    # ------------------------------------------------------------------ digests / stats
    def digest(self) -> str:
        return self._digest.hexdigest()[:16]

    def n_modules(self) -> int:
        return len(self.modules)

    # ------------------------------------------------------------------ lookup
    def module(self, name: str) -> Module:
        if name not in self.modules:
            raise AnchorMissing(f"module {name} not found", site=name)
        return self.modules[name]

    def resolve(self, mod: Module, dotted: str, _depth=0) -> Optional[Sym]:
        """Resolve a dotted name as seen from module ``mod``."""
        if _depth > 12:
            return None
        parts = dotted.split(".")
        head, rest = parts[0], parts[1:]
        if head in mod.defs:
            d = pick_def(mod.defs[head])
            if isinstance(d, ast.ClassDef):
                sym = Sym("class", f"{mod.name}:{head}", mod, d, mod.classes[head])
            elif isinstance(d, (ast.FunctionDef, ast.AsyncFunctionDef)):
                sym = Sym("func", f"{mod.name}:{head}", mod, d)
            else:
                sym = Sym("assign", f"{mod.name}:{head}", mod, d)
            return self._descend(sym, rest, _depth)
        if head in mod.imports:
            tmod, attr = mod.imports[head]
            if attr is None:
                sym = self._module_sym(tmod)
            else:
                sym = self._from_import(tmod, attr, _depth)
            return self._descend(sym, rest, _depth)
        return None

    def _module_sym(self, name: str) -> Sym:
        if name in self.modules:
            return Sym("module", name, self.modules[name])
        return Sym("ext", "ext:" + name)

    def _from_import(self, tmod: str, attr: str, _depth) -> Sym:
        if tmod in self.modules:
            m = self.modules[tmod]
            sub = f"{tmod}.{attr}"
            if attr in m.defs or attr in m.imports:
                s = self.resolve(m, attr, _depth + 1)
                if s is not None:
                    return s
            if sub in self.modules:
                return Sym("module", sub, self.modules[sub])
            return Sym("ext", f"ext:{tmod}.{attr}")
        if tmod.split(".")[0] == PKG:
            return Sym("ext", f"ext:{tmod}.{attr}")
        return Sym("ext", f"ext:{tmod}.{attr}")

    def _descend(self, sym: Optional[Sym], rest: List[str], _depth) -> Optional[Sym]:
        for i, part in enumerate(rest):
            if sym is None:
                return None
            if sym.kind == "module":
                m = sym.module
                sub = f"{m.name}.{part}"
                if part in m.defs or part in m.imports:
                    sym = self.resolve(m, part, _depth + 1)
                elif sub in self.modules:
                    sym = Sym("module", sub, self.modules[sub])
                else:
                    return None
            elif sym.kind == "ext":
                sym = Sym("ext", sym.qual + "." + part)
            elif sym.kind == "class":
                found = sym.cls.find_method(part)
                if found:
                    c, fn = found
                    sym = Sym("func", f"{c.qual}.{part}", c.module, fn, c)
                else:
                    # class attribute / enum member
                    sym = Sym("classattr", f"{sym.qual}.{part}", sym.module, None, sym.cls)
            else:
                return Sym("attr_of", f"{sym.qual}.{'.'.join(rest[i:])}", sym.module, sym.node)
        return sym

    def resolve_expr(self, mod: Module, expr: ast.expr) -> Optional[Sym]:
        d = dotted_name(expr)
        if d is None:
            return None
        return self.resolve(mod, d)

    # ------------------------------------------------------------------ anchors
    def need_module(self, name):
        return self.module(name)

    def need_func(self, modname: str, fname: str) -> Tuple[Module, ast.FunctionDef]:
        m = self.module(modname)
        if "." in fname:
            cname, meth = fname.split(".", 1)
            ci = self.need_class(modname, cname)
            if meth not in ci.methods:
                raise AnchorMissing(f"method {modname}:{fname} not found", site=f"{m.relpath}:{fname}")
            return m, pick_def(ci.methods[meth])
        if (modname, fname) in self.redirect:
            m2n, f2 = self.redirect[(modname, fname)]
            m2 = self.module(m2n)
            defs2 = [d for d in m2.defs.get(f2, []) if isinstance(d, ast.FunctionDef)]
            if defs2:
                return m2, pick_def(defs2)
        defs = [d for d in m.defs.get(fname, []) if isinstance(d, (ast.FunctionDef, ast.AsyncFunctionDef))]
        if not defs:
            # the function may have moved to another module of the package: follow the import, else a unique definition
            s = self.resolve(m, fname)
            if s is not None and s.kind == "func" and s.module is not None and isinstance(s.node, ast.FunctionDef):
                return s.module, s.node
            homes = [(mm, d) for mm in self.modules.values() for d in mm.defs.get(fname, []) if isinstance(d, ast.FunctionDef)]
            if len(homes) == 1:
                return homes[0]
            raise AnchorMissing(f"function {modname}:{fname} not found", site=f"{m.relpath}:{fname}")
        return m, pick_def(defs)

    def need_class(self, modname: str, cname: str) -> ClassInfo:
        m = self.module(modname)
        if cname not in m.classes:
            # the class may have moved to another module of the package (re-exported here, or defined exactly once elsewhere)
            try:
                s = self.resolve(m, cname)
            except AnalysisError:
                s = None
            if s is not None and s.kind == "class" and ":" in s.qual:
                ci = self.class_by_qual(s.qual)
                if ci is not None:
                    return ci
            homes = [mm.classes[cname] for mm in self.modules.values() if cname in mm.classes]
            if len(homes) == 1:
                return homes[0]
            raise AnchorMissing(f"class {modname}:{cname} not found", site=f"{m.relpath}:{cname}")
        return m.classes[cname]

    def need_assign(self, modname: str, name: str) -> Tuple[Module, ast.expr]:
        m = self.module(modname)
        for d in reversed(m.defs.get(name, [])):
            if isinstance(d, (ast.Assign, ast.AnnAssign)) and d.value is not None:
                return m, d.value
        # moved with a re-export, or defined exactly once elsewhere in the package
        try:
            s = self.resolve(m, name)
        except AnalysisError:
            s = None
        if s is not None and s.kind == "assign" and s.module is not None and s.module is not m:
            for d in reversed(s.module.defs.get(name, [])):
                if isinstance(d, (ast.Assign, ast.AnnAssign)) and d.value is not None:
                    return s.module, d.value
        homes = [(mm, d) for mm in self.modules.values() for d in mm.defs.get(name, [])
                 if isinstance(d, (ast.Assign, ast.AnnAssign)) and d.value is not None and not isinstance(d.value, ast.Name)]
        if len(homes) == 1:
            return homes[0][0], homes[0][1].value
        raise AnchorMissing(f"assignment {modname}:{name} not found", site=f"{m.relpath}:{name}")

    def all_classes(self):
        for m in self.modules.values():
            yield from m.classes.values()

    def class_by_qual(self, qual: str) -> Optional[ClassInfo]:
        modname, cname = qual.split(":")
        m = self.modules.get(modname)
        if m is not None and cname in m.classes:
            return m.classes[cname]
        # the reference name of a class that has moved: where it lives now
        if m is not None:
            try:
                return self.need_class(modname, cname)
            except AnalysisError:
                return None
        homes = [mm.classes[cname] for mm in self.modules.values() if cname in mm.classes]
        return homes[0] if len(homes) == 1 else None

    # ------------------------------------------------------------------ reference names of moved definitions
    def canonical_qual(self, kind: str, qual: str) -> str:
        """A function / class / module-level assignment of the reference tree that now lives in another module keeps the
        qualified name the rules know it by (its home on the reference tree), provided the name had exactly one home there
        and the module it is found in did not define it on the reference tree."""
        if ":" not in qual or kind not in ("func", "class", "assign"):
            return qual
        mod, name = qual.split(":", 1)
        top = name.split(".")[0]
        table = _HOMES.get("class" if (kind == "func" and "." in name) else kind, {})
        homes = table.get(top, [])
        if len(homes) == 1 and homes[0] != mod and top not in _PINNED_TOP.get("class" if (kind == "func" and "." in name) else kind, {}).get(mod, ()):
            if self is not None:
                if self.redirect.get((homes[0], top)) == (mod, top):
                    return f"{homes[0]}:{name}"
                hm = self.modules.get(homes[0])
                if hm is not None and top in hm.defs:
                    # the reference definition is still at home: this is another definition that merely shares its name
                    return qual
            return f"{homes[0]}:{name}"
        return qual


def _load_homes():
    import json
    here = os.path.dirname(os.path.abspath(__file__))
    homes = {"func": {}, "class": {}, "assign": {}}
    tops = {"func": {}, "class": {}, "assign": {}}
    for kind, fn in (("func", "pinned_names.json"), ("class", "pinned_classes.json"), ("assign", "pinned_assigns.json")):
        try:
            with open(os.path.join(here, fn)) as f:
                tab = json.load(f)
        except OSError:
            continue
        for mod, names in tab.items():
            for n in names:
                if kind == "func" and "." in n:
                    continue
                homes[kind].setdefault(n, []).append(mod)
                tops[kind].setdefault(mod, set()).add(n)
    return homes, tops


_HOMES, _PINNED_TOP = _load_homes()


def dotted_name(expr: ast.expr) -> Optional[str]:
    parts = []
    while isinstance(expr, ast.Attribute):
        parts.append(expr.attr)
        expr = expr.value
    if isinstance(expr, ast.Name):
        parts.append(expr.id)
        return ".".join(reversed(parts))
    return None


def site(mod: Module, node: ast.AST, func: str = "") -> str:
    ln = getattr(node, "lineno", 0)
    return f"{mod.relpath}:{ln}" + (f" {func}" if func else "")
