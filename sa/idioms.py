"""Recognisers for idioms that are spelled in several equivalent ways (shared by the rules)."""
from __future__ import annotations

from typing import Optional

from .sym import NONE, conjuncts

LEN = ("builtin", "len")


def emptiness(c, x) -> Optional[bool]:
    """True when condition `c` says the container `x` is empty, False when it says `x` is non-empty, else None.
    Recognised: `not x`, `x`, `len(x) == 0`, `len(x) != 0`, `len(x) > 0`, `len(x) >= 1`, `len(x) < 1`, `len(x) <= 0`,
    `not len(x)`, `len(x)` (comparisons in either operand order; the engine stores > / >= flipped)."""
    ln = ("call", LEN, (x,), ())
    if c == x or c == ln:
        return False
    if c in (("not", x), ("not", ln)):
        return True
    if c[0] == "call" and c[1] == ("builtin", "bool") and c[2] in ((x,), (ln,)):
        return False
    if c[0] != "cmp":
        return None
    op, l, r = c[1], c[2], c[3]
    zero, one = ("const", 0), ("const", 1)
    if op in ("eq", "ne") and {l, r} == {ln, zero}:
        return op == "eq"
    if op == "lt" and (l, r) == (zero, ln):
        return False
    if op == "le" and (l, r) == (one, ln):
        return False
    if op == "lt" and (l, r) == (ln, one):
        return True
    if op == "le" and (l, r) == (ln, zero):
        return True
    return None


def guarded_nonempty(live, x) -> bool:
    """Does the path condition establish that `x` is non-empty?"""
    return any(emptiness(c, x) is False for c in conjuncts(live))


def guarded_empty(live, x) -> bool:
    return any(emptiness(c, x) is True for c in conjuncts(live))
