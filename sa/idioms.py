"""Recognisers for idioms that are spelled in several equivalent ways (shared by the rules)."""
from __future__ import annotations

from typing import Optional

from .sym import AND, NONE, NOT, conjuncts

LEN = ("builtin", "len")


def emptiness(c, x) -> Optional[bool]:
    """True when condition `c` says the container `x` is empty, False when it says `x` is non-empty, else None.
    Recognised: `not x`, `x`, `len(x) == 0`, `len(x) != 0`, `len(x) > 0`, `len(x) >= 1`, `len(x) < 1`, `len(x) <= 0`,
    `not len(x)`, `len(x)` (comparisons in either operand order; the engine stores > / >= flipped)."""
    ln = ("call", LEN, (x,), ())
    if c == x or c == ln:
        return False
    if c in (("not", x), ("not", ln)):
        return True
    if c[0] == "call" and c[1] == ("builtin", "bool") and c[2] in ((x,), (ln,)):
        return False
    if c[0] != "cmp":
        return None
    op, l, r = c[1], c[2], c[3]
    zero, one = ("const", 0), ("const", 1)
    if op in ("eq", "ne") and {l, r} == {ln, zero}:
        return op == "eq"
    if op == "lt" and (l, r) == (zero, ln):
        return False
    if op == "le" and (l, r) == (one, ln):
        return False
    if op == "lt" and (l, r) == (ln, one):
        return True
    if op == "le" and (l, r) == (ln, zero):
        return True
    return None


def _alpha(t, mapping=None):
    """loop ids renamed in order of first appearance: the same comprehension written twice compares equal"""
    mapping = {} if mapping is None else mapping

    def go(x):
        if not isinstance(x, tuple):
            return mapping.get(x, x) if isinstance(x, str) else x
        if x and x[0] == "comp":
            for lid, it, conds in x[3]:
                mapping.setdefault(lid, f"B{len(mapping)}")
        if x and x[0] == "elem":
            mapping.setdefault(x[1], f"B{len(mapping)}")
        return tuple(go(c) for c in x)

    return go(t)


def _respelled(c, x):
    """`c` with every comprehension that is `x` up to its loop names replaced by `x`; `any(test for e in X)` read as
    "the selection [.. for e in X if test] is not empty" when `x` is that selection"""
    from .sym import subst, walk
    if x[0] != "comp":
        return c
    ax = _alpha(x)
    tw = {y: x for y in walk(c) if y[0] == "comp" and y != x and _alpha(y) == ax}
    if len(x[3]) == 1 and len(x[3][0][2]) == 1:
        lid0, it0, conds0 = x[3][0]
        for y in walk(c):
            if y[0] == "call" and y[1] == ("builtin", "any") and len(y[2]) == 1 and y[2][0][0] == "comp" and len(y[2][0][3]) == 1:
                lid1, it1, conds1 = y[2][0][3][0]
                if it1 == it0 and not conds1 and subst(y[2][0][2], {("elem", lid1): ("elem", lid0)}) == conds0[0]:
                    tw[y] = x
    return subst(c, tw) if tw else c


def guarded_nonempty(live, x) -> bool:
    """Does the path condition establish that `x` is non-empty?"""
    return any(emptiness(_respelled(c, x), x) is False for c in conjuncts(live))


def guarded_empty(live, x) -> bool:
    return any(emptiness(_respelled(c, x), x) is True for c in conjuncts(live))


def existential(live, summ):
    """Normal form of "some element violates c" path conditions.

    `for e in X: if c(e): raise`, `if any(c(e) for e in X): raise`, `if not all(ok(e) for e in X): raise`,
    `bad = [e for e in X if c(e)]; if bad: raise` (also `len(bad) > 0` ...) all say: exists e in X with c(e).
    Returns (binders, condition): binders = [(loop id, iterable term)] outermost first, condition = the conjunction
    over the bound elements (without the inloop markers)."""
    binders = []
    out = []
    for cj in conjuncts(live):
        if cj[0] == "inloop":
            li = summ.loops.get(cj[1])
            if li is not None:
                binders.append((cj[1], li.iter))
                out += list(li.conds) if li.kind == "comp" else []
            continue
        neg, t = False, cj
        if t[0] == "not":
            neg, t = True, t[1]
        if t[0] == "call" and t[1] in (("builtin", "any"), ("builtin", "all")) and len(t[2]) == 1 and t[2][0][0] == "comp" \
                and (t[1][1] == "any") != neg:
            comp = t[2][0]
            for lid, it, conds in comp[3]:
                binders.append((lid, it))
                out += list(conds)
            out.append(comp[2] if not neg else NOT(comp[2]))
            continue
        # next((e for e in X if c), None) is not None: some element satisfies c (elements are objects, never None)
        nx = None
        if cj[0] == "cmp" and cj[1] == "isnot" and cj[3] == NONE:
            nx = cj[2]
        elif cj[0] == "call" and cj[1] == ("builtin", "next"):
            nx = cj
        if nx is not None and nx[0] == "call" and nx[1] == ("builtin", "next") and len(nx[2]) == 2 and nx[2][1] == NONE \
                and nx[2][0][0] == "comp" and nx[2][0][1] == "gen":
            for lid, it, conds in nx[2][0][3]:
                binders.append((lid, it))
                out += list(conds)
            continue
        # truthiness / non-emptiness of a filtered comprehension
        comp = None
        if cj[0] == "comp":
            comp = cj
        else:
            for x in _subterms_comp(cj):
                if emptiness(cj, x) is False:
                    comp = x
                    break
        if comp is not None and comp[1] in ("list", "set", "gen", "dict") and cj[0] != "not":
            for lid, it, conds in comp[3]:
                binders.append((lid, it))
                out += list(conds)
            continue
        out.append(cj)
    return binders, AND(*out)


def _subterms_comp(t):
    from .sym import walk
    return [x for x in walk(t) if x[0] == "comp"]


def guarded_lookup(live, value):
    """(table, key) when `value` is an entry of a table that the path condition shows to be present:
    `if k in t: ... t[k]`, or `v = t.get(k); if v is not None: ... v` (stored values are objects, never None)."""
    conj = conjuncts(live)
    if value[0] == "sub" and ("cmp", "in", value[2], value[1]) in conj:
        return value[1], value[2]
    if value[0] == "call" and value[1][0] == "attr" and value[1][2] == "get" and not value[3] \
            and (len(value[2]) == 1 or (len(value[2]) == 2 and value[2][1] == NONE)):
        if ("cmp", "isnot", value, NONE) in conj or value in conj:
            return value[1][1], value[2][0]
    return None


def minmax_form(t):
    """('min'|'max', frozenset({a, b})) when t is min(a, b) / max(a, b) or the conditional spelling of one
    (`a if a < b else b`, `if b < a: a = b`, with < or <=), else None."""
    if t[0] == "call" and t[1] in (("builtin", "min"), ("builtin", "max")) and len(t[2]) == 2 and not t[3]:
        return t[1][1], frozenset(t[2])
    if t[0] == "ite" and t[1][0] == "cmp" and t[1][1] in ("lt", "le"):
        lo, hi = t[1][2], t[1][3]  # condition: lo < hi

        def under(x, holds):
            """a redundant min / max of the compared pair inside a branch: its value on that branch"""
            if x[0] == "call" and x[1] in (("builtin", "min"), ("builtin", "max")) and len(x[2]) == 2 and not x[3] and set(x[2]) == {lo, hi}:
                return (lo if holds else hi) if x[1][1] == "min" else (hi if holds else lo)
            return x
        t = ("ite", t[1], under(t[2], True), under(t[3], False))
        if (t[2], t[3]) == (lo, hi):
            return "min", frozenset((lo, hi))
        if (t[2], t[3]) == (hi, lo):
            return "max", frozenset((lo, hi))
    return None


def norm_minmax(t):
    """Rewrite every conditional spelling of a two-argument min / max inside t to the call form (arguments sorted)."""
    if not isinstance(t, tuple) or not t:
        return t
    t = tuple(norm_minmax(c) if isinstance(c, tuple) else c for c in t)
    if isinstance(t[0], str):
        m = minmax_form(t)
        if m is not None:
            return ("call", ("builtin", m[0]), tuple(sorted(m[1], key=repr)), ())
    return t


def same_minmax(a, b) -> bool:
    """Are a and b the same two-argument min / max, whatever their spelling and argument order?"""
    from .canon import canon
    ma, mb = minmax_form(a), minmax_form(b)
    if ma is None or mb is None or ma[0] != mb[0]:
        return False
    return {repr(canon(x)) for x in ma[1]} == {repr(canon(x)) for x in mb[1]}


def attribute_tables(summ, owner):
    """Values assigned to attributes of `owner` (e.g. self) with the fill-by-loop spelling folded:
    `self.t = {}` followed by exactly one `self.t[k] = v` in for loop(s), and no other write to self.t, is the dict
    comprehension {k: v for ...}; likewise `self.xs = []` + one `self.xs.append(v)`.  -> {attr: value term}"""
    from .sym import walk
    out = {}
    first = {}
    for e in summ.of("store"):
        tgt = e.term[1]
        if tgt[0] == "attr" and tgt[1] == owner:
            first.setdefault(tgt[2], e)
            out[tgt[2]] = e.term[2]
    for attr, e0 in first.items():
        val = e0.term[2]
        at = ("attr", owner, attr)
        empty_dict = val == ("dict", ()) or (val[0] == "alloc" and val[1] == "dict")
        empty_list = val == ("list", ()) or (val[0] == "alloc" and val[1] == "list")
        if not (empty_dict or empty_list) or e0.loops:
            continue
        writes = [e for e in summ.events if e is not e0 and (
            (e.kind == "store" and (e.term[1] == at or (e.term[1][0] == "sub" and e.term[1][1] == at))) or
            (e.kind == "call" and e.term[1][0] == "attr" and e.term[1][1] == at and e.term[1][2] in
             ("append", "extend", "update", "pop", "clear", "setdefault", "insert", "remove", "popitem")) or
            (e.kind == "delete" and any(x == at for x in walk(e.term))))]
        if len(writes) != 1 or not writes[0].loops or writes[0].idx < e0.idx:
            continue
        w = writes[0]
        if any(summ.loops[l].kind != "for" for l in w.loops):
            continue
        if empty_dict and w.kind == "store" and w.term[1][0] == "sub":
            elt = ("kv", w.term[1][2], w.term[2])
            kind = "dict"
        elif empty_list and w.kind == "call" and w.term[1][2] == "append" and len(w.term[2]) == 1:
            elt = w.term[2][0]
            kind = "list"
        else:
            continue
        conds = {l: [] for l in w.loops}
        cur = None
        for cj in conjuncts(w.live):
            if cj[0] == "inloop" and cj[1] in conds:
                cur = cj[1]
            elif cur is not None:
                conds[cur].append(cj)
        if any(x[0] == "phi" for x in walk(elt)):
            continue
        out[attr] = ("comp", kind, elt, tuple((l, summ.loops[l].iter, tuple(conds[l])) for l in w.loops))
    return out


def first_not_none(summ):
    """(iterable, mapped value term, binder loop id) when the function returns the first non-None f(x) for x in the
    iterable, and None when there is none -- in the loop spelling (`for x in it: v = f(x); if v is not None: return v`
    / `return None`) or the next() spelling over a (possibly nested) generator."""
    rets = summ.returns
    # loop spelling
    inl = [r for r in rets if r.loops]
    out = [r for r in rets if not r.loops]
    if len(inl) == 1 and len(inl[0].loops) == 1 and len(out) == 1 and out[0].term == NONE and summ.fall_live == ("const", False):
        lid = inl[0].loops[0]
        li = summ.loops[lid]
        conds = [c for c in conjuncts(inl[0].live) if c[0] != "inloop"]
        if li.kind == "for" and not li.conds and conds == [("cmp", "isnot", inl[0].term, NONE)] and out[0].idx > inl[0].idx:
            others = [e for e in summ.events if lid in e.loops and e.kind not in ("call", "return")]
            if not others:
                return li.iter, inl[0].term, lid
    # next() over a generator of (value, ...) tuples: `hit = next(gen, None); if hit is None: return None; return hit[0]`
    if len(rets) == 2 and not any(r.loops for r in rets):
        nones = [r for r in rets if r.term == NONE]
        vals = [r for r in rets if r.term != NONE]
        if len(nones) == 1 and len(vals) == 1 and vals[0].term[0] == "sub" and vals[0].term[2] == ("const", 0):
            nx = vals[0].term[1]
            if nx[0] == "call" and nx[1] == ("builtin", "next") and len(nx[2]) == 2 and nx[2][1] == NONE and nx[2][0][0] == "comp" \
                    and nx[2][0][1] == "gen" and len(nx[2][0][3]) == 1 and nx[2][0][2][0] == "tuple" and nx[2][0][2][1]:
                g = nx[2][0]
                lid, it, conds = g[3][0]
                v = g[2][1][0]
                if ("cmp", "is", nx, NONE) in conjuncts(nones[0].live) and ("cmp", "isnot", nx, NONE) in conjuncts(vals[0].live) \
                        and list(conds) == [("cmp", "isnot", v, NONE)]:
                    return it, v, lid
    # next() spelling
    if len(rets) == 1 and not rets[0].loops:
        t = rets[0].term
        if t[0] == "call" and t[1] == ("builtin", "next") and len(t[2]) == 2 and t[2][1] == NONE and not t[3] and t[2][0][0] == "comp" \
                and t[2][0][1] == "gen" and len(t[2][0][3]) == 1:
            g = t[2][0]
            lid, it, conds = g[3][0]
            if list(conds) == [("cmp", "isnot", g[2], NONE)]:
                if it[0] == "comp" and it[1] in ("gen", "list") and len(it[3]) == 1 and not it[3][0][2] and g[2] == ("elem", lid):
                    return it[3][0][1], it[2], it[3][0][0]
                return it, g[2], lid
    return None


def selected_tags(live, subject):
    """The constant tags t for which the path condition allows `subject == t`: a positive `subject == t` conjunct gives
    {t}; otherwise a disjunction of such tests minus the tags excluded by `subject != t` conjuncts (the last row of a
    dispatch table is reached by elimination).  Empty list: the condition does not select by tag."""
    conj = conjuncts(live)

    def tag_of(c, op):
        if c[0] == "cmp" and c[1] == op:
            if c[2] == subject and c[3][0] == "const":
                return c[3][1]
            if c[3] == subject and c[2][0] == "const":
                return c[2][1]
        return None

    pos = [tag_of(c, "eq") for c in conj]
    pos = [t for t in pos if t is not None]
    if pos:
        return pos
    neg = {tag_of(c, "ne") for c in conj} - {None}
    for c in conj:
        if c[0] == "or":
            alts = [tag_of(d, "eq") for d in c[1]]
            if all(a is not None for a in alts):
                return [a for a in alts if a not in neg]
    return []


# ---------------------------------------------------------------------------------- multisets (collections.Counter)
_COUNTER = (("ext", "collections.Counter"),)


def _as_list(xs):
    if xs[0] == "comp" and xs[1] == "gen":
        return ("comp", "list", xs[2], xs[3])
    return xs


def _counter_arg(t):
    if t[0] == "call" and t[1] in _COUNTER and len(t[2]) == 1 and not t[3]:
        return _as_list(t[2][0])
    return None


def norm_multiset(t):
    """Counting idioms in the spelling with lists and sets:

        Counter(xs).keys() / set(Counter(xs)) / set(Counter(xs).keys())     ->  set(xs)
        any(c > 1 for c in Counter(xs).values())                            ->  len(xs) != len(set(xs))
        len(set(xs)) < len(xs)  /  len(xs) > len(set(xs))                   ->  len(xs) != len(set(xs))   (a set is never larger)
    """
    if not isinstance(t, tuple) or not t:
        return t
    t = tuple(norm_multiset(c) if isinstance(c, tuple) else c for c in t)

    def SET(x):
        return ("call", ("builtin", "set"), (x,), ())

    def LEN(x):
        return ("call", ("builtin", "len"), (x,), ())

    if t[0] == "call" and t[1][0] == "attr" and t[1][2] == "keys" and not t[2] and not t[3]:
        xs = _counter_arg(t[1][1])
        if xs is not None:
            return SET(xs)
    if t[0] == "call" and t[1] in (("builtin", "set"), ("builtin", "frozenset")) and len(t[2]) == 1 and not t[3]:
        xs = _counter_arg(t[2][0])
        if xs is not None:
            return SET(xs)
        if t[2][0][0] == "call" and t[2][0][1] == ("builtin", "set"):
            return t[2][0]
    if t[0] == "call" and t[1] == ("builtin", "any") and len(t[2]) == 1 and t[2][0][0] == "comp" and len(t[2][0][3]) == 1:
        comp = t[2][0]
        lid, it, conds = comp[3][0]
        if not conds and it[0] == "call" and it[1][0] == "attr" and it[1][2] == "values" and not it[2]:
            xs = _counter_arg(it[1][1])
            el = ("elem", lid)
            if xs is not None and comp[2] in (("cmp", "lt", ("const", 1), el), ("cmp", "le", ("const", 2), el), ("cmp", "ne", el, ("const", 1)),
                                               ("cmp", "ne", ("const", 1), el)):
                return ("cmp", "ne", LEN(xs), LEN(SET(xs)))
    if t[0] == "cmp" and t[1] == "lt":
        a, b = t[2], t[3]
        if a[0] == "call" and a[1] == ("builtin", "len") and b[0] == "call" and b[1] == ("builtin", "len") \
                and a[2][0] == SET(b[2][0]):
            return ("cmp", "ne", b, a)
    return t
