"""E5/E7 -- evaluation of *extracted* terms on abstract points.

``peval(term, env)`` folds a term given values for some of its sub-terms (``env`` maps terms to Python
values).  It is used to compare an extracted guard / value formula with the specified one on a finite
set of representative points (interval endpoints, all weak orderings of a few quantities, a lattice
grid).  It evaluates formula objects produced by the summariser -- never code of the repository.
The result is ('const', v) when the value is determined, otherwise a residual term.
"""

from __future__ import annotations

import itertools
import math
from typing import Dict, Iterable, List, Optional, Tuple

from .sym import FALSE, NONE, TRUE

NUM = (int, float)


class Unknown(Exception):
    pass


def _is_const(t):
    return isinstance(t, tuple) and t and t[0] == "const"


PURE_FUNCS = {
    ("builtin", "max"): max, ("builtin", "min"): min, ("builtin", "abs"): abs, ("builtin", "int"): int,
    ("builtin", "float"): float, ("builtin", "len"): len, ("builtin", "bool"): bool, ("builtin", "round"): round,
    ("ext", "math.floor"): math.floor, ("ext", "math.ceil"): math.ceil, ("ext", "numpy.floor"): math.floor,
    ("ext", "numpy.ceil"): math.ceil, ("ext", "math.trunc"): math.trunc, ("builtin", "str"): str,
    ("ext", "numpy.maximum"): max, ("ext", "numpy.minimum"): min,
    # tolerance comparisons (documented closed forms; numpy's is asymmetric: |a - b| <= atol + rtol * |b|)
    ("ext", "math.isclose"): math.isclose,
    ("ext", "numpy.isclose"): lambda a, b, rtol=1e-05, atol=1e-08: abs(a - b) <= atol + rtol * abs(b),
}
KW_FUNCS = {("ext", "math.isclose"), ("ext", "numpy.isclose")}


def peval(t, env: Dict[tuple, object], funcs=None):
    """Fold t under env; a rebuilt sub-term that itself is a key of env is replaced as well."""
    r = _peval(t, env, funcs)
    if r[0] != "const" and r in env:
        return ("const", env[r])
    return r


def _peval(t, env: Dict[tuple, object], funcs=None):
    funcs = funcs or PURE_FUNCS
    if t in env:
        return ("const", env[t])
    k = t[0]
    if k == "const":
        return t
    if k == "not":
        v = peval(t[1], env, funcs)
        if _is_const(v):
            return ("const", not v[1])
        return ("not", v)
    if k in ("and", "or"):
        vals = [peval(x, env, funcs) for x in t[1]]
        # python semantics: value of the deciding operand; we only need truthiness for guards
        res = []
        for v in vals:
            if _is_const(v):
                if k == "and" and not v[1]:
                    return v
                if k == "or" and v[1]:
                    return v
                continue
            res.append(v)
        if not res:
            return vals[-1] if vals else ("const", k == "and")
        if len(res) == 1 and all(_is_const(v) for v in vals if v is not res[0]) and vals[-1] is res[0]:
            return res[0]
        return (k, tuple(res))
    if k == "cmp":
        l, r = peval(t[2], env, funcs), peval(t[3], env, funcs)
        if _is_const(l) and _is_const(r):
            a, b = l[1], r[1]
            try:
                if t[1] == "lt":
                    return ("const", a < b)
                if t[1] == "le":
                    return ("const", a <= b)
                if t[1] == "eq":
                    return ("const", a == b)
                if t[1] == "ne":
                    return ("const", a != b)
                if t[1] == "is":
                    return ("const", a is b or (a is None and b is None))
                if t[1] == "isnot":
                    return ("const", not (a is b or (a is None and b is None)))
                if t[1] == "in":
                    return ("const", a in b)
                if t[1] == "notin":
                    return ("const", a not in b)
            except TypeError:
                pass
        if t[1] in ("is", "isnot") and (l == NONE) != (r == NONE) and (_is_const(l) or _is_const(r)):
            other = r if l == NONE else l
            if _is_const(other):
                return ("const", (t[1] == "isnot"))
            # arithmetic, comparisons and displays are never None
            if other[0] in ("bin", "neg", "cmp", "not", "tuple", "list", "dict", "set", "comp") or (
                    other[0] == "call" and other[1] in (("builtin", "len"), ("builtin", "int"), ("builtin", "float"), ("builtin", "str"),
                                                         ("builtin", "abs"), ("builtin", "bool"))):
                return ("const", (t[1] == "isnot"))
        if t[1] in ("in", "notin") and _is_const(l) and r[0] in ("list", "tuple", "set") and all(_is_const(x) for x in r[1]):
            hit = l[1] in [x[1] for x in r[1]]
            return ("const", hit if t[1] == "in" else not hit)
        if t[1] in ("in", "notin") and _is_const(l) and r[0] == "dict" and all(_is_const(k_) for k_, _ in r[1]):
            hit = l[1] in [k_[1] for k_, _ in r[1]]
            return ("const", hit if t[1] == "in" else not hit)
        return ("cmp", t[1], l, r)
    if k == "ite":
        c = peval(t[1], env, funcs)
        if _is_const(c):
            return peval(t[2] if c[1] else t[3], env, funcs)
        return ("ite", c, peval(t[2], env, funcs), peval(t[3], env, funcs))
    if k == "bin":
        l, r = peval(t[2], env, funcs), peval(t[3], env, funcs)
        if _is_const(l) and _is_const(r) and isinstance(l[1], NUM) and isinstance(r[1], NUM):
            a, b = l[1], r[1]
            try:
                return ("const", {"+": lambda: a + b, "-": lambda: a - b, "*": lambda: a * b, "/": lambda: a / b,
                                  "//": lambda: a // b, "%": lambda: a % b, "**": lambda: a ** b}[t[1]]())
            except (ZeroDivisionError, KeyError, OverflowError):
                return ("bin", t[1], l, r)
        return ("bin", t[1], l, r)
    if k == "neg":
        v = peval(t[1], env, funcs)
        if _is_const(v) and isinstance(v[1], NUM):
            return ("const", -v[1])
        return ("neg", v)
    if k == "call" and t[1] == ("builtin", "next") and len(t[2]) in (1, 2) and not t[3] and t[2][0][0] == "comp" and len(t[2][0][3]) == 1 \
            and t[2][0][3][0][1][0] in ("tuple", "list") and not any(x[0] == "star" for x in t[2][0][3][0][1][1]):
        # next((f(row) for row in (<rows>) if c(row)), default) over a display of rows: the first row whose condition folds to true
        from .sym import subst, fold_sub
        lid, rows, conds = t[2][0][3][0]
        undecided = False
        for row in rows[1]:
            vals = [peval(fold_sub(subst(c, {("elem", lid): row})), env, funcs) for c in conds]
            if all(_is_const(v) and v[1] for v in vals):
                return peval(fold_sub(subst(t[2][0][2], {("elem", lid): row})), env, funcs)
            if not all(_is_const(v) for v in vals):
                undecided = True
                break
        if not undecided and len(t[2]) == 2:
            return peval(t[2][1], env, funcs)
    if k == "call":
        f = t[1]
        args = [peval(a, env, funcs) for a in t[2]]
        kws = tuple((n, peval(v, env, funcs)) for n, v in t[3])
        if f in funcs and all(_is_const(a) for a in args) and (not kws or (f in KW_FUNCS and all(_is_const(v) and n != "**" for n, v in kws))):
            try:
                return ("const", funcs[f](*[a[1] for a in args], **{n: v[1] for n, v in kws}))
            except Exception:  # noqa: BLE001
                pass
        if f in funcs and f[1] in ("max", "min", "numpy.maximum", "numpy.minimum") and len(args) == 1 and args[0][0] in ("list", "tuple") \
                and all(_is_const(x) for x in args[0][1]):
            return ("const", funcs[f]([x[1] for x in args[0][1]]))
        return ("call", peval(f, env, funcs) if f[0] not in ("builtin", "ext", "global") else f, tuple(args), kws)
    if k in ("tuple", "list", "set"):
        return (k, tuple(peval(x, env, funcs) for x in t[1]))
    if k == "sub":
        b, i = peval(t[1], env, funcs), peval(t[2], env, funcs)
        if b[0] in ("tuple", "list") and _is_const(i) and isinstance(i[1], int):
            if -len(b[1]) <= i[1] < len(b[1]):
                return b[1][i[1]]
        if b[0] == "dict" and _is_const(i):
            for kk, vv in b[1]:
                if kk == i:
                    return vv
        if _is_const(b) and _is_const(i):
            try:
                return ("const", b[1][i[1]])
            except Exception:  # noqa: BLE001
                pass
        return ("sub", b, i)
    if k == "attr":
        return ("attr", peval(t[1], env, funcs), t[2])
    if k == "dict":
        return ("dict", tuple((peval(a, env, funcs), peval(b, env, funcs)) for a, b in t[1]))
    return t


def truth(t) -> Optional[bool]:
    if _is_const(t):
        return bool(t[1])
    return None


def weak_orderings(names: List[str]) -> Iterable[Dict[str, int]]:
    """All weak orderings of the names, as rank assignments (ties allowed)."""
    n = len(names)
    seen = set()
    for ranks in itertools.product(range(n), repeat=n):
        # canonical form: ranks used are 0..k-1 without gaps
        used = sorted(set(ranks))
        canon = tuple(used.index(r) for r in ranks)
        if canon in seen:
            continue
        seen.add(canon)
        yield dict(zip(names, canon))


def atoms_of(t, pred) -> List[tuple]:
    """Maximal sub-terms satisfying pred (not descending into them)."""
    out = []
    stack = [t]
    while stack:
        x = stack.pop()
        if not isinstance(x, tuple) or not x:
            continue
        if isinstance(x[0], str) and pred(x):
            if x not in out:
                out.append(x)
            continue
        for c in (x[1:] if isinstance(x[0], str) else x):
            if isinstance(c, tuple):
                stack.append(c)
    return out


# ---------------------------------------------------------------------------------- compiled formulas

_PYOP = {"lt": "<", "le": "<=", "eq": "==", "ne": "!=", "is": "is", "isnot": "is not", "in": "in", "notin": "not in"}
_PYFUNC = {("builtin", "max"): "max", ("builtin", "min"): "min", ("builtin", "abs"): "abs", ("builtin", "int"): "int",
           ("builtin", "float"): "float", ("ext", "math.floor"): "_floor", ("ext", "math.ceil"): "_ceil",
           ("ext", "numpy.floor"): "_floor", ("ext", "numpy.ceil"): "_ceil", ("builtin", "bool"): "bool",
           ("builtin", "round"): "round", ("builtin", "sorted"): "sorted"}


def to_py(t, names: Dict[tuple, str]) -> str:
    """Python expression text for a term; quantities are looked up in ``names``. Raises Unknown."""
    if t in names:
        return names[t]
    k = t[0]
    if k == "const":
        if isinstance(t[1], (int, float, bool, str)) or t[1] is None:
            return repr(t[1])
        raise Unknown(f"constant {t[1]!r}")
    if k == "cmp":
        return f"({to_py(t[2], names)} {_PYOP[t[1]]} {to_py(t[3], names)})"
    if k == "not":
        return f"(not {to_py(t[1], names)})"
    if k in ("and", "or"):
        return "(" + f" {k} ".join(to_py(x, names) for x in t[1]) + ")"
    if k == "ite":
        return f"({to_py(t[2], names)} if {to_py(t[1], names)} else {to_py(t[3], names)})"
    if k == "bin" and t[1] in ("+", "-", "*", "/", "//", "%", "**"):
        return f"({to_py(t[2], names)} {t[1]} {to_py(t[3], names)})"
    if k == "neg":
        return f"(-{to_py(t[1], names)})"
    if k == "call" and t[1] in _PYFUNC and not t[3]:
        return f"{_PYFUNC[t[1]]}({', '.join(to_py(a, names) for a in t[2])})"
    if k in ("tuple", "list"):
        return "[" + ", ".join(to_py(x, names) for x in t[1]) + "]"
    if k == "sub":
        return f"{to_py(t[1], names)}[{to_py(t[2], names)}]"
    raise Unknown(f"cannot compile {t[0]}: {str(t)[:80]}")


def compile_term(t, names: Dict[tuple, str]):
    src = to_py(t, names)
    code = compile(src, "<formula>", "eval")
    glb = {"__builtins__": {}, "max": max, "min": min, "abs": abs, "int": int, "float": float, "bool": bool,
           "round": round, "sorted": sorted, "_floor": math.floor, "_ceil": math.ceil}
    return (lambda env: eval(code, glb, env)), src  # noqa: S307 - evaluates the analyser's own formula text


# string methods on constants (used to fold `position.split("-")` and the like)
def fold_str_methods(t):
    if not isinstance(t, tuple) or not t or not isinstance(t[0], str):
        if isinstance(t, tuple):
            return tuple(fold_str_methods(c) for c in t)
        return t
    t = tuple(fold_str_methods(c) if isinstance(c, tuple) else c for c in t)
    if t[0] == "call" and t[1][0] == "attr" and t[1][1][0] == "const" and isinstance(t[1][1][1], str) \
            and t[1][2] in ("split", "rsplit", "partition", "rpartition", "lower", "upper", "strip", "lstrip", "rstrip", "startswith",
                            "endswith", "removeprefix", "removesuffix", "replace", "find", "index", "count", "title", "capitalize") \
            and all(a[0] == "const" for a in t[2]) and not t[3]:
        try:
            v = getattr(t[1][1][1], t[1][2])(*[a[1] for a in t[2]])
        except Exception:  # noqa: BLE001
            return t
        if isinstance(v, list):
            return ("list", tuple(("const", x) for x in v))
        if isinstance(v, tuple):
            return ("tuple", tuple(("const", x) for x in v))
        return ("const", v)
    return t
