"""C11 -- buffering grows a geometry and never leaves the valid domain (R11.1 - R11.6)."""

from __future__ import annotations

import ast
import itertools

from sa.canon import canon
from sa.index import AnalysisError
from sa.peval import peval
from sa.report import Ctx
from sa.sym import callkw, FALSE, NONE, Summary, bind_args, conjuncts, show, subst, walk

OPS = "soundevent.geometry.operations"
CONV = "soundevent.geometry.conversion"
GEO = "soundevent.data.geometries"
MAXT = ("global", f"{GEO}:MAX_FREQUENCY", "assign")

EXPLANATION = (
    "Static decision of the structural clauses of buffer_geometry: R11.1 negative buffers are rejected before anything "
    "else happens (and only negative ones); R11.2 the TimeStamp / TimeInterval / BoundingBox results are canonically "
    "the widened, clamped interval / box, built by validating constructors; R11.3 exactly those three types take the "
    "closed form and every other type goes through the shapely path; R11.4 both buffers are forwarded uncrossed at all "
    "four delegations; R11.5 the shapely result is clipped to [0, max_time + c] x [0, MAX_FREQUENCY] and converted back "
    "through data.Polygon / data.MultiPolygon; R11.6 the same factor list scales before and unscales after the unit "
    "buffer, with factor 1 / buffer guarded against a zero buffer. Containment, monotonicity and the growth of the "
    "bounds on the shapely path are numerical properties of shapely and are not decided."
    'R11.7 magnitude: the constant Z that scales an axis whose buffer is 0 satisfies Z * MAX_FREQUENCY * 2**-52 <= 1/64, i.e. doubles at the top of the validated frequency range stay finer than the vertex steps of the unit round cap (otherwise the buffered shape comes out narrower than requested in time). '
)
ASSUMPTIONS = ["shapely.transform/buffer/clip_by_rect semantics (trusted)", "input coordinates are valid (C03), buffers >= 0 (R11.1)"]

MAX_, MIN_ = ("builtin", "max"), ("builtin", "min")


class C11:
    def __init__(self, ctx: Ctx, affinity_subset: bool = False):
        # affinity_subset: only the parts compute_affinity relies on (TimeStamp closed form, shapely path)
        self.subset = affinity_subset
        self.ctx = ctx
        self.file = ctx.index.module(OPS).relpath

    def check_guard_and_dispatch(self):
        ctx = self.ctx
        s = ctx.summ.of_func(OPS, "buffer_geometry")
        site = f"{self.file}:{s.node.lineno} buffer_geometry"
        g, tb, fb = ("param", s.params[0]), ("param", "time_buffer"), ("param", "freq_buffer")
        # R11.1
        bad = None
        for tv, fv in itertools.product((-1.0, -1e-9, 0.0, 1.0), repeat=2):
            rej = False
            for r in s.raises:
                lv = peval(r.live, {tb: tv, fb: fv})
                if lv[0] != "const":
                    continue
                rej = rej or bool(lv[1])
            if rej != (tv < 0 or fv < 0):
                bad = (tv, fv, rej)
        if self.subset:
            bad, guard_first = "skip", True
        # work = a call into the package or a library (a folded condition or a builtin such as any() is part of the guard)
        first_other = min([e.idx for e in s.calls if e.term[0] == "call" and isinstance(e.term[1], tuple)
                           and e.term[1][0] != "builtin"] or [10 ** 9])
        guard_first = (bool(s.raises) and s.raises[0].idx < first_other) if not self.subset else True
        if bad == "skip":
            pass
        elif bad is None and guard_first:
            ctx.ok("R11.1", site, "raise iff time_buffer < 0 or freq_buffer < 0, before any other work")
        elif bad is not None:
            ctx.bad("R11.1", self.file, "buffer_geometry", "negative-buffer guard",
                    f"buffers (time={bad[0]}, freq={bad[1]}) are {'rejected' if bad[2] else 'accepted'}: exactly the negative "
                    f"buffers must be rejected (0 is a valid buffer)", s.node.lineno, witness={"time_buffer": bad[0], "freq_buffer": bad[1]})
        else:
            ctx.bad("R11.1", self.file, "buffer_geometry", "guard after dispatch",
                    "the negative-buffer guard does not precede the dispatch: some geometry types are buffered (shrunk) with a negative buffer",
                    s.node.lineno)
        # R11.3 / R11.4 dispatch
        want = {"TimeStamp": ("buffer_timestamp", ("time_buffer",)), "TimeInterval": ("buffer_interval", ("time_buffer",)),
                "BoundingBox": ("buffer_bounding_box_geometry", ("time_buffer", "freq_buffer"))}
        if self.subset:
            want = {"TimeStamp": want["TimeStamp"]}
        rows = {}
        fallthrough = []
        for r in s.returns:
            from sa.idioms import selected_tags
            tags = selected_tags(r.live, ("attr", g, "type"))
            if len(tags) == 1:
                rows[tags[0]] = r
            elif not tags:
                fallthrough.append(r)
        # the dispatch written with nested / combined tests (`if type in (A, B): f = fa if type == A else fb`): which return is taken
        # for each of the nine geometry types, by evaluating the type tests of the path conditions
        NINE = ("TimeStamp", "TimeInterval", "Point", "LineString", "Polygon", "BoundingBox", "MultiPoint", "MultiLineString", "MultiPolygon")
        tagt = ("attr", g, "type")
        by_type, decided = {}, True
        rets_ = list(s.returns)
        for T in NINE:
            alive = []
            for r in rets_:
                cj = [c for c in conjuncts(r.live) if any(x == tagt for x in walk(c))]
                vals = [peval(c, {tagt: T}) for c in cj]
                if any(v[0] != "const" for v in vals):
                    decided = False
                    break
                if all(v[1] for v in vals):
                    alive.append(r)
            if not decided or len(alive) != 1:
                decided = False
                break
            by_type[T] = alive[0]
        if decided:
            closed = ("TimeStamp", "TimeInterval", "BoundingBox")
            rows = {T: by_type[T] for T in want}
            others = {id(by_type[T]): by_type[T] for T in NINE if T not in closed}
            fallthrough = list(others.values())
            for T in NINE:
                if T not in closed and any(by_type[T] is by_type[W] for W in closed):
                    rows[T] = by_type[T]  # a type without a closed form routed to one: reported below
        for tag, (fn, bufs) in want.items():
            r = rows.get(tag)
            if r is None or not (r.term[0] == "call" and r.term[1] == ("global", f"{OPS}:{fn}", "func")):
                ctx.bad("R11.3", self.file, "buffer_geometry", f'"{tag}" -> {fn}',
                        f"{tag} does not take its closed form {fn} (found {show(r.term)[:60] if r else 'no row'}): the result is "
                        f"not exactly the widened {'interval' if tag != 'BoundingBox' else 'box'}", r.lineno if r else s.node.lineno)
                continue
            fs = ctx.summ.of_func(OPS, fn)
            b, extra, _, _ = bind_args(r.term, fs.params)
            ctx.ok("R11.3", f"{self.file}:{r.lineno} buffer_geometry", f"{tag} -> {fn}")
            okb = b.get(fs.params[0]) == g and all(b.get(k) == ("param", k) for k in bufs) and not extra
            if okb:
                ctx.ok("R11.4", f"{self.file}:{r.lineno} buffer_geometry", f"{fn}: buffers forwarded uncrossed")
            else:
                ctx.bad("R11.4", self.file, "buffer_geometry", f"{fn}({show(r.term)[:70]})",
                        f"{fn} does not receive the caller's buffers under their own names: "
                        f"{ {k: show(b.get(k, NONE)) for k in bufs} }", r.lineno)
        for tag in rows:
            if tag not in want and not self.subset:
                ctx.bad("R11.3", self.file, "buffer_geometry", f'"{tag}" closed form', f"{tag} is routed to a closed form; only TimeStamp, TimeInterval and BoundingBox have one", rows[tag].lineno)
        bs = ctx.summ.of_func(OPS, "buffer_shapely_geometry")
        if len(fallthrough) == 1 and fallthrough[0].term[0] == "call" and fallthrough[0].term[1] == ("global", f"{OPS}:buffer_shapely_geometry", "func"):
            r = fallthrough[0]
            b, extra, spreads, _ = bind_args(r.term, bs.params)
            shp = ("call", ("global", f"{CONV}:geometry_to_shapely", "func"), (g,), ())
            if b.get(bs.params[0]) == shp and b.get("time_buffer") == tb and b.get("freq_buffer") == fb:
                ctx.ok("R11.4", f"{self.file}:{r.lineno} buffer_geometry", "shapely path: converted geometry and both buffers forwarded uncrossed")
            else:
                ctx.bad("R11.4", self.file, "buffer_geometry", f"buffer_shapely_geometry({show(r.term)[:80]})",
                        "the shapely path does not receive geometry_to_shapely(geometry) with time_buffer/freq_buffer under their own names",
                        r.lineno)
        else:
            ctx.bad("R11.3", self.file, "buffer_geometry", "fall-through -> buffer_shapely_geometry",
                    "geometry types without a closed form are not buffered through buffer_shapely_geometry", s.node.lineno)

    def check_closed_forms(self):
        ctx = self.ctx
        specs = {
            "buffer_timestamp": ("TimeInterval", lambda c, tb, fb: [("call", MAX_, (("bin", "-", c, tb), ("const", 0)), ()), ("bin", "+", c, tb)], True),
            "buffer_interval": ("TimeInterval", lambda c, tb, fb: [("call", MAX_, (("bin", "-", ("sub", c, ("const", 0)), tb), ("const", 0)), ()),
                                                                     ("bin", "+", ("sub", c, ("const", 1)), tb)], False),
            "buffer_bounding_box_geometry": ("BoundingBox", lambda c, tb, fb: [
                ("call", MAX_, (("bin", "-", ("sub", c, ("const", 0)), tb), ("const", 0)), ()),
                ("call", MAX_, (("bin", "-", ("sub", c, ("const", 1)), fb), ("const", 0)), ()),
                ("bin", "+", ("sub", c, ("const", 2)), tb),
                ("call", MIN_, (("bin", "+", ("sub", c, ("const", 3)), fb), MAXT), ())], False),
        }
        names = ["start", "low", "end", "high"]
        if self.subset:
            specs = {"buffer_timestamp": specs["buffer_timestamp"]}
        for fn, (cls, build, scalar) in specs.items():
            s = ctx.summ.of_func(OPS, fn)
            site = f"{self.file}:{s.node.lineno} {fn}"
            g = ("param", s.params[0])
            c = ("attr", g, "coordinates")
            tb, fb = ("param", "time_buffer"), ("param", "freq_buffer")
            want = build(c, tb, fb)
            if len(s.returns) != 1:
                ctx.undec("R11.2", site, f"{len(s.returns)} returns")
                continue
            t = s.returns[0].term
            if not (t[0] == "call" and t[1] == ("global", f"{GEO}:{cls}", "class")):
                ctx.bad("R11.2", self.file, fn, f"return {show(t)[:60]}",
                        f"{fn} must build its result with the validating constructor data.{cls}(coordinates=[...])", s.returns[0].lineno)
                continue
            coords = callkw(t).get("coordinates")
            if coords is None or coords[0] != "list" or len(coords[1]) != len(want):
                ctx.bad("R11.2", self.file, fn, f"coordinates={show(coords)[:60] if coords else '-'}",
                        f"{fn} must return {len(want)} coordinates", s.returns[0].lineno)
                continue
            labels = ["start", "end"] if len(want) == 2 else names
            for lab, got, w in zip(labels, coords[1], want):
                if canon(got) != canon(w) and not scalar and any(x[0] == "star" for x in walk(got)):
                    # a helper applied to the unpacked coordinates (`_widen(*geometry.coordinates, b)`): with the coordinates written
                    # out as the display of their (validated) number of items the helper can be read
                    from sa.sym import fold_sub
                    from .common import expand_new_helpers
                    disp = ("tuple", tuple(("sub", c, ("const", i)) for i in range(len(want))))
                    def splice(t):
                        if not isinstance(t, tuple) or not t:
                            return t
                        t = tuple(splice(x) if isinstance(x, tuple) else x for x in t)
                        if isinstance(t[0], str) and t[0] == "call" and any(a[0] == "star" and a[1][0] in ("tuple", "list") for a in t[2]):
                            args = []
                            for a in t[2]:
                                args += list(a[1][1]) if a[0] == "star" and a[1][0] in ("tuple", "list") else [a]
                            return ("call", t[1], tuple(args), t[3])
                        return t

                    got2 = expand_new_helpers(ctx, fold_sub(splice(subst(got, {("star", c): ("star", disp)}))))
                    got2 = fold_sub(subst(got2, {("sub", disp, ("const", i)): ("sub", c, ("const", i)) for i in range(len(want))}))
                    if not any(x[0] == "star" for x in walk(got2)):
                        got = got2
                if canon(got) == canon(w):
                    ctx.ok("R11.2", site, f"{lab} = {show(w)[:60]}")
                else:
                    ctx.bad("R11.2", self.file, fn, f"{lab} = {show(got)[:80]}",
                            f"{fn}: the {lab} coordinate is `{show(got)[:100]}` but must be `{show(w)[:100]}` (widened by the buffer, "
                            f"clamped to the valid domain)", s.returns[0].lineno, witness={"coordinate": lab})

    def check_shapely_path(self):
        ctx = self.ctx
        s = ctx.summ.of_func(OPS, "buffer_shapely_geometry")
        site = f"{self.file}:{s.node.lineno} buffer_shapely_geometry"
        g, tb, fb = ("param", s.params[0]), ("param", "time_buffer"), ("param", "freq_buffer")
        tr = [e for e in s.calls if e.term[1] == ("ext", "shapely.transform")]
        bu = [e for e in s.calls if e.term[1] == ("ext", "shapely.buffer")]
        cl = [e for e in s.calls if e.term[1] == ("ext", "shapely.clip_by_rect")]
        if len(tr) != 2 or len(bu) != 1 or len(cl) != 1:
            ctx.undec("R11.6", site, f"expected transform, buffer, transform, clip_by_rect; found {len(tr)}/{len(bu)}/{len(cl)}")
            return
        # R11.6 factor symmetry
        lam = {}
        for e in tr:
            f = e.term[2][1] if len(e.term[2]) > 1 else callkw(e.term).get("transformation")
            if f is None or f[0] != "lambda":
                ctx.undec("R11.6", site, "transform function is not a lambda")
                return
            ls = s.lambdas[f[1]]
            x = ("param", ls.params[0])
            body = ls.returns[0].term
            lam[e.idx] = (body, x)
        (b1, x1), (b2, x2) = lam[tr[0].idx], lam[tr[1].idx]
        ok = (b1[0] == "bin" and b1[1] == "*" and b2[0] == "bin" and b2[1] == "/" and b2[2] == x2 and
              ((b1[2] == x1 and b1[3] == b2[3]) or (b1[3] == x1 and b1[2] == b2[3])))
        factor = b2[3] if b2[0] == "bin" else None
        if factor is not None and factor[0] == "call" and factor[1] in (("ext", "numpy.array"), ("ext", "numpy.asarray")) and len(factor[2]) == 1 \
                and not factor[3] and factor[2][0][0] in ("list", "tuple"):
            factor = ("list", factor[2][0][1])  # the two factors converted to an array once instead of by every multiplication
        if factor is not None and factor[0] == "tuple" and len(factor[1]) == 2:
            factor = ("list", factor[1])  # a pair of factors broadcasts over the (n, 2) coordinates as a tuple just as it does as a list
        order = tr[0].idx < bu[0].idx < tr[1].idx < cl[0].idx
        chain = tr[0].term[2][0] == g and bu[0].term[2][0] == tr[0].term and tr[1].term[2][0] == bu[0].term and cl[0].term[2][0] == tr[1].term
        if ok and order and chain:
            ctx.ok("R11.6", site, "scale by factor -> unit buffer -> unscale by the same factor -> clip")
        else:
            ctx.bad("R11.6", self.file, "buffer_shapely_geometry", f"x * f then x / f' : {show(b1)[:40]} / {show(b2)[:40]}",
                    "the geometry is not scaled by a factor, buffered, and unscaled by the SAME factor in that order: the result is "
                    "distorted instead of grown by (time_buffer, freq_buffer)", s.node.lineno)
        if bu[0].term[2][1:2] == (("const", 1),) or callkw(bu[0].term).get("distance") == ("const", 1):
            ctx.ok("R11.6", site, "buffer distance is 1 in scaled units")
        else:
            ctx.bad("R11.6", self.file, "buffer_shapely_geometry", f"shapely.buffer({show(bu[0].term)[:70]})", "the buffer distance in scaled units must be 1", bu[0].lineno)
        # factor = [1/tb if tb > 0 else BIG, 1/fb if fb > 0 else BIG]
        if factor is not None and factor[0] == "list" and len(factor[1]) == 2:
            good = True
            for comp, buf, nm in ((factor[1][0], tb, "time"), (factor[1][1], fb, "freq")):
                w = ("ite", ("cmp", "lt", ("const", 0), buf), ("bin", "/", ("const", 1), buf), None)
                if not (comp[0] == "ite" and comp[1] == w[1] and comp[2] == w[2] and comp[3][0] == "const" and comp[3][1] > 0):
                    good = False
                    ctx.bad("R11.6", self.file, "buffer_shapely_geometry", f"{nm} factor = {show(comp)[:60]}",
                            f"the {nm} scale factor must be 1 / {nm}_buffer for a positive buffer (guarded against a zero buffer): "
                            f"found {show(comp)[:80]}", s.node.lineno)
            if good:
                ctx.ok("R11.6", site, "factor = [1/time_buffer, 1/freq_buffer], zero buffers guarded")
                # R11.7 magnitude: with a zero buffer the axis is scaled by the constant Z and buffered by 1 unit.  Frequencies
                # are validated to lie in [0, MAX_FREQUENCY], so scaled ordinates reach Z * MAX_FREQUENCY; doubles there are spaced
                # Z * MAX_FREQUENCY * 2**-52 apart.  The unit circle shapely builds (quad_segs = 8: neighbouring vertices differ by
                # 1 - cos(11.25 deg) = 0.019 in one ordinate) must stay resolvable: spacing <= 1/64.
                try:
                    _, mx = ctx.index.need_assign(GEO, "MAX_FREQUENCY")
                    maxf = ast.literal_eval(mx) if isinstance(mx, ast.Constant) else None
                except (AnalysisError, ValueError):
                    maxf = None
                Z = factor[1][1][3][1]
                if not isinstance(maxf, (int, float)) or isinstance(maxf, bool):
                    ctx.undec("R11.7", site, "MAX_FREQUENCY is not a numeric literal")
                else:
                    spacing = float(Z) * float(maxf) * 2.0 ** -52
                    if spacing <= 1 / 64:
                        ctx.ok("R11.7", site, f"zero-buffer factor {Z:g} x MAX_FREQUENCY {maxf:g}: doubles spaced {spacing:.3g} units apart (<= 1/64 of the unit buffer)")
                    else:
                        ctx.bad("R11.7", self.file, "buffer_shapely_geometry", f"freq factor for a zero buffer = {Z:g}",
                                f"with freq_buffer = 0 frequencies are scaled by {Z:g} before the unit buffer: at the top of the validated domain "
                                f"(MAX_FREQUENCY = {maxf:g}) scaled ordinates are {Z * maxf:.3g}, where doubles are {spacing:.3g} units apart -- "
                                f"the unit circle is no longer representable and the buffered shape comes out narrower than requested in TIME "
                                f"(Point at 2.6 MHz, time_buffer 1, freq_buffer 0: time bounds [9.019, 10.981] instead of [9, 11]; 7.6 % short at 4.9 MHz)",
                                s.node.lineno, witness={"geometry": "Point(10.0, 2.6e6)", "time_buffer": 1.0, "freq_buffer": 0,
                                                        "observed_time_bounds": [9.01921471959677, 10.98078528040323]})
        else:
            ctx.undec("R11.6", site, f"factor is not a two-element list: {show(factor)[:60] if factor else '-'}")
        # R11.5 clip rectangle
        a = cl[0].term[2]
        buffered = tr[1].term
        if len(a) == 5:
            xmin, ymin, xmax, ymax = a[1:]
            cx = canon(xmax)
            bound = ("sub", ("attr", buffered, "bounds"), ("const", 2))
            okx = False
            if True:
                from sa.canon import lin, ONE
                pol = lin(xmax)
                rest = {m: v for m, v in pol.items() if m != ONE}
                if rest == {((canon(bound),), ()): 1} and pol.get(ONE, 0) > 0:
                    okx = True
            if xmin == ("const", 0) and ymin == ("const", 0) and ymax == MAXT and okx:
                ctx.ok("R11.5", f"{self.file}:{cl[0].lineno} buffer_shapely_geometry", "clip_by_rect(buffered, 0, 0, max_time + c, MAX_FREQUENCY)")
            else:
                ctx.bad("R11.5", self.file, "buffer_shapely_geometry", f"clip_by_rect(.., {show(xmin)}, {show(ymin)}, {show(xmax)[:30]}, {show(ymax)[:30]})",
                        "the buffered shape must be clipped to [0, max_time + c] x [0, MAX_FREQUENCY] (c > 0): otherwise the result "
                        "leaves the valid domain (negative times / frequencies, frequencies above MAX_FREQUENCY) or loses its right edge",
                        cl[0].lineno)
        else:
            ctx.undec("R11.5", site, "clip_by_rect not called with (geometry, xmin, ymin, xmax, ymax)")
        # the clip must apply on every path: either unconditional, or guarded by a disjunction that covers all three
        # ways of leaving the domain (time < 0, frequency < 0, frequency > MAX_FREQUENCY)
        gj = [e for e in s.calls if e.term[1] == ("ext", "shapely.to_geojson")]
        extra = [c for c in conjuncts(cl[0].live)]
        if gj and gj[0].term[2][:1] == (cl[0].term,) and not extra:
            ctx.ok("R11.5", f"{self.file}:{cl[0].lineno} buffer_shapely_geometry", "the clipped shape (clipped unconditionally) is the one converted back")
        else:
            src = gj[0].term[2][0] if gj and gj[0].term[2] else None
            cond = None
            if src is not None and src[0] == "ite" and cl[0].term in (src[2], src[3]):
                cond = src[1] if src[2] == cl[0].term else ("not", src[1])
            need = {"time below 0": False, "frequency below 0": False, "frequency above MAX_FREQUENCY": False}
            if cond is not None and cond[0] == "or":
                for c in cond[1]:
                    if c[0] == "cmp" and c[1] in ("lt", "le"):
                        l, r = c[2], c[3]
                        def bidx(t):
                            return t[2][1] if t[0] == "sub" and t[1][0] == "attr" and t[1][2] == "bounds" and t[2][0] == "const" else None
                        if bidx(l) == 0 and r == ("const", 0):
                            need["time below 0"] = True
                        if bidx(l) == 1 and r == ("const", 0):
                            need["frequency below 0"] = True
                        if l == MAXT and bidx(r) == 3:
                            need["frequency above MAX_FREQUENCY"] = True
            if cond is not None and all(need.values()):
                ctx.ok("R11.5", f"{self.file}:{cl[0].lineno} buffer_shapely_geometry", "clip guarded by a test that covers all three ways of leaving the domain")
            else:
                missing = [k for k, v in need.items() if not v] if cond is not None else ["(the clipped shape is not the one converted back)"]
                ctx.bad("R11.5", self.file, "buffer_shapely_geometry", f"clip applied only if {show(cond)[:80] if cond else show(cl[0].live)[:80]}",
                        f"the domain clip does not apply on every path: case(s) not covered: {', '.join(missing)}. A geometry buffered beyond "
                        f"that edge is handed unclipped to the validating constructor, which rejects it (or the result leaves the valid domain)",
                        cl[0].lineno)
        ctors = set()
        for r in s.returns:
            t = r.term
            if t[0] == "call" and t[1][0] == "global" and t[1][1] in (f"{GEO}:Polygon", f"{GEO}:MultiPolygon"):
                ctors.add(t[1][1].split(":")[1])
            else:
                ctx.bad("R11.5", self.file, "buffer_shapely_geometry", f"return {show(t)[:60]}",
                        "the result must be re-validated by data.Polygon(...) / data.MultiPolygon(...)", r.lineno)
        if ctors == {"Polygon", "MultiPolygon"}:
            # each constructor on the path of its own GeoJSON type: the type tag of the buffered shape decides
            crossed = None
            for r in s.returns:
                t = r.term
                if not (t[0] == "call" and t[1][0] == "global"):
                    continue
                cname = t[1][1].split(":")[1]
                tags_eq = [c_[3][1] for c_ in conjuncts(r.live) if c_[0] == "cmp" and c_[1] == "eq" and c_[3][0] == "const" and isinstance(c_[3][1], str)
                           and c_[2][0] == "sub" and c_[2][2] == ("const", "type")]
                tags_ne = [c_[3][1] for c_ in conjuncts(r.live) if c_[0] == "cmp" and c_[1] == "ne" and c_[3][0] == "const" and isinstance(c_[3][1], str)
                           and c_[2][0] == "sub" and c_[2][2] == ("const", "type")]
                if (tags_eq and tags_eq[0] != cname) or (cname in tags_ne):
                    crossed = (cname, tags_eq[0] if tags_eq else f"not {cname}", r)
            if crossed:
                ctx.bad("R11.5", self.file, "buffer_shapely_geometry", f"data.{crossed[0]}(...) when the buffered shape is {crossed[1]}",
                        f"the buffered shape is converted with data.{crossed[0]} on the path where its GeoJSON type is {crossed[1]}: the coordinates "
                        f"of one kind are handed to the constructor of the other and the result is rejected (or mis-read)", crossed[2].lineno)
            else:
                ctx.ok("R11.5", site, "result built by the validating constructors data.Polygon / data.MultiPolygon")


def run_affinity_subset(ctx: Ctx):
    """The part of C11 that compute_affinity relies on (C06 delegates to it)."""
    ctx.rule("R11.2", "TimeStamp closed form is the widened, clamped interval", 2)
    ctx.rule("R11.3", "TimeStamp takes its closed form; other buffered types the shapely path", 1)
    ctx.rule("R11.4", "buffers forwarded uncrossed", 2)
    ctx.rule("R11.5", "shapely result clipped to the domain rectangle and re-validated", 3)
    ctx.rule("R11.6", "same factor scales and unscales around a unit buffer", 3)
    ctx.rule("R11.7", "the zero-buffer scale keeps the unit buffer representable over the validated frequency domain", 1)
    c = C11(ctx, affinity_subset=True)
    with ctx.delegated(""):
        c.check_guard_and_dispatch()
    c.check_closed_forms()
    c.check_shapely_path()


def run(ctx: Ctx):
    ctx.rule("R11.1", "negative buffers rejected first, and only those", 1)
    ctx.rule("R11.2", "closed forms are the widened, clamped interval / box", 8)
    ctx.rule("R11.3", "exactly TimeStamp / TimeInterval / BoundingBox take the closed form", 3)
    ctx.rule("R11.4", "buffers forwarded uncrossed at the four delegations", 4)
    ctx.rule("R11.5", "shapely result clipped to the domain rectangle and re-validated", 3)
    ctx.rule("R11.6", "same factor scales and unscales around a unit buffer", 3)
    ctx.rule("R11.7", "the zero-buffer scale keeps the unit buffer representable over the validated frequency domain", 1)
    c = C11(ctx)
    c.check_guard_and_dispatch()
    c.check_closed_forms()
    c.check_shapely_path()
    # the shape that is buffered is the converted geometry (geometry_to_shapely), built from the coordinates as given
    from . import c03, c05
    c05.run_conversion_subset(ctx)
    c03.run_validation_subset(ctx)
    return EXPLANATION, ASSUMPTIONS
