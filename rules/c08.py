"""C08 -- detection evaluation accounts for every sound event and only credits overlaps (R08.1 - R08.7)."""

from __future__ import annotations

from typing import Dict, List, Optional, Set, Tuple

from sa.canon import canon
from sa.peval import peval
from sa.report import Ctx
from sa.sym import callkw, FALSE, NONE, NOT, Summary, bind_args, conjuncts, show, subst, walk

DET = "soundevent.evaluation.tasks.sound_event_detection"
COMMON = "soundevent.evaluation.tasks.common"
MATCH = "soundevent.evaluation.match"
ENC = "soundevent.evaluation.encoding"
MET = "soundevent.evaluation.metrics"

EXPLANATION = (
    "Static decision of the structural clauses of sound_event_detection: R08.1 clips are paired by clip id and passed to "
    "the right parameters; R08.2 index-domain typing: every integer that subscripts the prediction / annotation list "
    "carries the list it indexes (indices from enumerate(B), from match_geometries(source=S, target=T), projected out "
    "of index tables), and a subscript B[i] is accepted only if i indexes a list index-equivalent to B; R08.3 coverage: "
    "the sources of the match loop together mention every position of both lists exactly once (matcher over the events "
    "with geometry + complementary one-sided entries, complement checked on the filter predicates); R08.4 two-sided "
    "matches report the matcher's affinity, one-sided ones affinity 0 / the matcher's 0 and score 0; R08.5 the pair "
    "score is classification_score(truth from the annotation's tags, scores from the prediction's tags); R08.6 clip "
    "and overall scores are guarded means over exactly the constructed matches / clip evaluations; R08.7 the three "
    "branches cover the three (None?, None?) cases, each appending exactly one Match with the right sides."
    "Values are typed by object domain as well as index domain (a sound event carried as an element of a filtered copy of its list); the formula rules of C06 are run as necessary conditions of 'paired only if they overlap'. "
)
ASSUMPTIONS = [
    "match_geometries mentions every source and target index exactly once (decided by C07)",
    "geometry objects are truthy (a model instance), so `if x.geometry` == `x.geometry is not None`",
]

X = ("var", "x")
ROOTS = (("attr", ("param", "clip_annotations"), "sound_events"), ("attr", ("param", "clip_predictions"), "sound_events"))


class Dom:
    """index domains: a set of ('idx', canonical sequence term) | ('none',) | ('unknown', text)"""


class C08:
    def __init__(self, ctx: Ctx):
        self.ctx = ctx
        self.file = ctx.index.module(DET).relpath
        self.crossed = []
        self.triples = False

    # ------------------------------------------------------------------ helpers
    def base_seq(self, s: Summary, t):
        """Follow index-equivalence: an unfiltered single-generator comprehension over Y is index-equivalent to Y;
        enumerate(Y) likewise. Returns the root sequence term."""
        seen = 0
        while seen < 10:
            seen += 1
            if t[0] == "comp" and t[1] in ("list", "gen") and len(t[3]) == 1 and not t[3][0][2]:
                t = t[3][0][1]
                continue
            if t[0] == "call" and t[1] in (("builtin", "enumerate"), ("builtin", "list"), ("builtin", "tuple")) and len(t[2]) == 1:
                t = t[2][0]
                continue
            break
        return t

    def elt_of(self, s: Summary, seq, lid_hint=None):
        """(element term, loop id, conds) of a single-generator comprehension."""
        if seq[0] == "comp" and len(seq[3]) == 1:
            lid, it, conds = seq[3][0]
            return seq[2], lid, it, conds
        return None

    def iter_sources(self, t) -> List[tuple]:
        if t[0] == "call" and t[1] in (("builtin", "list"), ("builtin", "tuple")) and len(t[2]) == 1 and not t[3] \
                and (t[2][0][0] == "bin" or (t[2][0][0] == "call" and t[2][0][1][0] == "ext" and t[2][0][1][1] == "itertools.chain")):
            return self.iter_sources(t[2][0])
        if t[0] == "bin" and t[1] == "+":
            return self.iter_sources(t[2]) + self.iter_sources(t[3])
        if t[0] == "call" and t[1][0] == "ext" and t[1][1] in ("itertools.chain",):
            out = []
            for a in t[2]:
                out += self.iter_sources(a)
            return out
        if t[0] == "list" and t[1] and all(x[0] == "star" for x in t[1]):
            out = []
            for a in t[1]:
                out += self.iter_sources(a[1])
            return out
        return [t]

    def is_matcher(self, t):
        return t[0] == "call" and t[1] == ("global", f"{MATCH}:match_geometries", "func")

    def domains(self, s: Summary, t, depth=0) -> Set[tuple]:
        """Possible index domains of the value t."""
        if depth > 12:
            return {("unknown", "depth")}
        if t == NONE:
            return {("none",)}
        if t[0] == "ite":
            return self.domains(s, t[2], depth + 1) | self.domains(s, t[3], depth + 1)
        if t[0] == "sub" and t[2][0] == "const" and isinstance(t[2][1], int) and t[1][0] == "elem":
            k = t[2][1]
            L = s.loops.get(t[1][1])
            if L is None:
                return {("unknown", show(t))}
            out: Set[tuple] = set()
            for src in self.iter_sources(L.iter):
                out |= self.component_domains(s, src, k, depth + 1)
            return out
        if t[0] == "elem":
            L = s.loops.get(t[1])
            if L is None:
                return {("unknown", show(t))}
            out = set()
            for src in self.iter_sources(L.iter):
                if src in ROOTS:
                    out.add(("obj", src))  # an element of the prediction / annotation list itself
                    continue
                if src[0] == "call" and src[1] == ("builtin", "range") and len(src[2]) == 1 and src[2][0][0] == "call" and src[2][0][1] == ("builtin", "len"):
                    out.add(("idx", self.base_seq(s, src[2][0][2][0])))
                    continue
                e = self.elt_of(s, src)
                if e is not None:
                    out |= self.domains(s, e[0], depth + 1)
                else:
                    out.add(("unknown", f"element of {show(src)[:40]}"))
            return out
        if t[0] == "sub":
            # table[i]: element of an index table, provided i indexes a list index-equivalent to the table
            table, i = t[1], t[2]
            di = self.domains(s, i, depth + 1)
            if table in ROOTS:
                for d in di:
                    if d[0] == "none":
                        continue
                    if d[0] != "idx":
                        return {("unknown", f"index of {show(table)[:40]}: {self.dshow(d)}")}
                    if not self.equivalent(s, d[1], table):
                        return {("illtyped", f"{show(table)[:50]}[…] indexed by {self.dshow(d)}")}
                return {("obj", table)}
            e = self.elt_of(s, table)
            if e is None:
                return {("unknown", f"subscript of {show(table)[:40]}")}
            root = self.base_seq(s, table) if not e[3] else table
            for d in di:
                if d[0] == "none":
                    continue
                if d[0] != "idx" or (d[1] != table and self.base_seq(s, d[1]) != table and d[1] != root):
                    return {("illtyped", f"{show(table)[:50]}[…] indexed by {self.dshow(d)}")}
            return self.domains(s, e[0], depth + 1)
        return {("unknown", show(t)[:60])}

    def component_domains(self, s: Summary, src, k: int, depth) -> Set[tuple]:
        if self.is_matcher(src):
            kw = callkw(src)
            args = list(src[2])
            S = kw.get("source", args[0] if args else None)
            T = kw.get("target", args[1] if len(args) > 1 else None)
            if k == 0 and S is not None:
                return {("idx", S), ("none",)}
            if k == 1 and T is not None:
                return {("idx", T), ("none",)}
            return {("float",)}
        if src[0] == "call" and src[1] == ("builtin", "enumerate") and len(src[2]) == 1:
            if k == 0:
                return {("idx", self.base_seq(s, src[2][0]) if False else src[2][0])}
            return {("unknown", "enumerate item")}
        e = self.elt_of(s, src)
        if e is not None and e[0][0] == "tuple" and k < len(e[0][1]):
            return self.domains(s, e[0][1][k], depth + 1)
        return {("unknown", f"component {k} of {show(src)[:40]}")}

    def root_of(self, s: Summary, t):
        """the prediction / annotation list a (filtered, converted) list of sound events is drawn from, else None"""
        seen = 0
        while seen < 10:
            seen += 1
            if t in ROOTS:
                return t
            if t[0] == "comp" and t[1] in ("list", "gen") and len(t[3]) == 1 and t[2] == ("elem", t[3][0][0]):
                t = t[3][0][1]
                continue
            if t[0] == "call" and t[1] in (("builtin", "list"), ("builtin", "tuple")) and len(t[2]) == 1:
                t = t[2][0]
                continue
            return None
        return None

    def dshow(self, d):
        if d[0] == "idx":
            return f"Idx({show(d[1])[:70]})"
        if d[0] == "obj":
            return f"ElementOf({show(d[1])[:50]})"
        return d[0] + (f"({d[1]})" if len(d) > 1 else "")

    def equivalent(self, s: Summary, a, b) -> bool:
        return a == b or self.base_seq(s, a) == b or a == self.base_seq(s, b) or self.base_seq(s, a) == self.base_seq(s, b)

    # ------------------------------------------------------------------ R08.1
    def check_clips(self):
        ctx = self.ctx
        s = ctx.summ.of_func(COMMON, "iterate_over_valid_clips")
        file = s.module.relpath
        P, A = ("param", "clip_predictions"), ("param", "clip_annotations")
        site = f"{file}:{s.node.lineno} iterate_over_valid_clips"
        ys = s.yields
        if set(s.params) != {"clip_predictions", "clip_annotations"} or len(ys) != 1:
            ctx.undec("R08.1", site, "unexpected signature / number of yields")
        else:
            y = ys[0]
            L = s.loops.get(y.loops[-1]) if y.loops else None
            table = None
            ok = False
            if L is not None and L.iter == P and not L.conds and y.term[0] == "tuple" and len(y.term[1]) == 2:
                e = ("elem", L.id)
                key = ("attr", ("attr", e, "clip"), "uuid")
                ann, pred = y.term[1]
                from sa.idioms import guarded_lookup
                gl = guarded_lookup(y.live, ann)
                if gl is not None and gl[1] == key and pred == e:
                    table = gl[0]
                    if table[0] == "comp" and table[1] == "dict" and len(table[3]) == 1 and table[3][0][1] == A and not table[3][0][2]:
                        te = ("elem", table[3][0][0])
                        ok = table[2] == ("kv", ("attr", ("attr", te, "clip"), "uuid"), te)
            if ok:
                ctx.ok("R08.1", site, "yields (annotations, predictions) for exactly the predictions whose clip.uuid is annotated")
            else:
                ctx.bad("R08.1", file, "iterate_over_valid_clips", f"yield {show(y.term)[:60]} if {show(y.live)[:60]}",
                        "clips are not paired by clip.uuid (dictionary of annotations keyed by clip.uuid, looked up with the "
                        "prediction's clip.uuid, yielding (annotations, predictions))", y.lineno)
        # callers bind the right parameters; every evaluated clip is collected -- read off the element-wise view of the list
        # of clip evaluations that _evaluate_clips returns (filled by a loop or built by comprehensions alike)
        from sa import seqview
        from .common import helper_or_caller
        ev, written_out = helper_or_caller(ctx, DET, "_evaluate_clips")
        evname = ev.node.name
        site = f"{self.file}:{ev.node.lineno} {evname}"
        ec = ctx.summ.of_func(DET, "evaluate_clip")
        EC = ("global", f"{DET}:evaluate_clip", "func")
        IT = ("global", f"{COMMON}:iterate_over_valid_clips", "func")
        rets = ev.raw_returns
        if written_out:
            # the helper's loop stands in the task function itself: the list of clip evaluations is what Evaluation(...) receives
            evs_ = [x for r in rets for x in walk(r.term) if x[0] == "call" and x[1][0] == "global" and x[1][1].endswith(":Evaluation")]
            clips_list = callkw(evs_[0]).get("clip_evaluations") if len(evs_) == 1 else None
            if clips_list is None:
                ctx.undec("R08.1", site, "Evaluation(clip_evaluations=...) not found in the task function")
                return
        elif len(rets) != 1 or rets[0].term[0] != "tuple" or not rets[0].term[1]:
            ctx.undec("R08.1", site, "does not return a tuple whose first component is the list of clip evaluations")
            return
        else:
            clips_list = rets[0].term[1][0]
        I = ("param", "__i__")
        item = seqview.item(clips_list, I)
        call = None
        if item is not None and item[0] == "sub" and item[2] == ("const", 2) and item[1][0] == "call" and item[1][1] == EC:
            call = item[1]
        if call is None and item is not None and item[0] == "attr" and item[1][0] == "call" and item[1][1] == EC:
            # evaluate_clip hands back a record: the collected element is its field that holds the ClipEvaluation
            recs = [r.term for r in ec.returns if r.term[0] == "call" and r.term[1][0] == "global" and r.term[1][2] == "class"]
            fld = [callkw(r_).get(item[2]) for r_ in recs]
            if recs and len(recs) == len(ec.returns) and all(v_ is not None and v_[0] == "call" and v_[1][0] == "global" and v_[1][1].endswith(":ClipEvaluation") for v_ in fld):
                call = item[1]
            else:
                ctx.undec("R08.1", site, f"the collected element is the field `{item[2]}` of evaluate_clip(...)'s result, which is not read as the clip evaluation")
                return
        if call is None:
            ctx.bad("R08.1", self.file, evname, "evaluated_clips.append(evaluated_clip)",
                    f"not every evaluated clip is collected unconditionally (the i-th collected element is {show(item)[:80] if item else 'filtered / undetermined'})",
                    ev.node.lineno)
            return
        ctx.ok("R08.1", site, "every clip evaluation is collected: element i is evaluate_clip(pair i)[2]")
        b, _, _, _ = bind_args(call, ec.params)
        src = None
        a_i, p_i = b.get("clip_annotations"), b.get("clip_predictions")
        if a_i is not None and p_i is not None and a_i[0] == "sub" and p_i[0] == "sub" and a_i[1] == p_i[1] and a_i[1][0] == "sub" and a_i[1][2] == I:
            src = a_i[1][1]
        if src is not None and a_i[2] == ("const", 0) and p_i[2] == ("const", 1) and b.get("encoder") in (("param", "encoder"), ("call", ("global", f"{ENC}:create_tag_encoder", "func"), (("param", "tags"),), ())) and src[0] == "call" and src[1] == IT:
            ctx.ok("R08.1", site, "evaluate_clip(clip_annotations=annotations, clip_predictions=predictions) for every yielded pair")
            bb, _, _, _ = bind_args(src, s.params)
            if bb.get("clip_predictions") == ("param", "clip_predictions") and bb.get("clip_annotations") == ("param", "clip_annotations"):
                ctx.ok("R08.1", site, "predictions/annotations passed to the matching parameters")
            else:
                ctx.bad("R08.1", self.file, evname, f"iterate_over_valid_clips({show(src)[:80]})",
                        "clip predictions and clip annotations are passed to the wrong parameters", ev.node.lineno)
        elif src is None or not (src[0] == "call" and src[1] == IT):
            ctx.undec("R08.1", site, f"loop over iterate_over_valid_clips not found (pairs come from {show(src)[:60] if src else '?'})")
        else:
            ctx.bad("R08.1", self.file, evname, f"evaluate_clip({show(call)[:80]})",
                    "the yielded (annotations, predictions) pair is bound to the wrong parameters of evaluate_clip", ev.node.lineno)

    # ------------------------------------------------------------------ R08.2 / R08.3 / R08.4 / R08.7
    def check_evaluate_clip(self):
        ctx = self.ctx
        s = ctx.summ.of_func(DET, "evaluate_clip")
        CA, CP = ("param", "clip_annotations"), ("param", "clip_predictions")
        BA, BP = ("attr", CA, "sound_events"), ("attr", CP, "sound_events")
        site = f"{self.file}:{s.node.lineno} evaluate_clip"
        Match = ("global", "soundevent.data.matches:Match", "class")
        def is_match_value(t):
            if t[0] == "ite":
                return is_match_value(t[2]) and is_match_value(t[3])
            if t[0] == "tuple" and len(t[1]) == 3 and t[1][2][0] == "call" and t[1][2][1] == Match:
                return True  # a (truth, scores, match) result collected as a whole
            return (t[0] == "call" and t[1] == Match) or self._is_match_result(t)

        apps = [e for e in s.calls if e.term[1][0] == "attr" and e.term[1][2] == "append" and len(e.term[2]) == 1
                and is_match_value(e.term[2][0])]
        # the matches list is the receiver of the appends that take a literal Match(...)
        direct = [e for e in apps if any(x[0] == "call" and x[1] == Match for x in walk(e.term[2][0]))]
        receivers = {e.term[1][1] for e in direct}
        if len(receivers) == 1:
            recv = receivers.pop()
            apps = [e for e in apps if e.term[1][1] == recv]
        # every entry of the list that carries the matches must be one the rules below can read: an append of something else
        # (a tuple of results, a helper's record) to the same list means the matches are produced in a form not modelled here
        if apps:
            recv_ = apps[0].term[1][1]
            unread = [e for e in s.calls if e.term[1][0] == "attr" and e.term[1][1] == recv_ and e.term[1][2] in ("append", "extend", "insert") and e not in apps]
            if unread:
                ctx.undec("R08.7", site, f"the list of matches also receives entries in a form the rules do not read: {show(unread[0].term)[:90]}")
                return None
        self.triples = any(e.term[2][0][0] == "tuple" or (e.term[2][0][0] == "call" and e.term[2][0][1] == ("global", f"{DET}:evaluate_sound_event", "func"))
                           for e in apps)
        if self.triples and not all(e.term[2][0][0] == "tuple" or (e.term[2][0][0] == "call" and e.term[2][0][1] == ("global", f"{DET}:evaluate_sound_event", "func"))
                                    for e in apps):
            ctx.undec("R08.7", site, "the result list receives whole (truth, scores, match) results and bare matches")
            return None
        loops = {e.loops[-1] for e in apps if e.loops}
        if len(loops) != 1 or not apps:
            ctx.undec("R08.7", site, f"cannot find the single loop that appends matches ({len(apps)} appends in {len(loops)} loops)")
            return (s, apps) if apps and len({e.term[1][1] for e in apps}) == 1 else None
        lid = loops.pop()
        L = s.loops[lid]
        e = ("elem", lid)
        pi, ai, aff = ("sub", e, ("const", 0)), ("sub", e, ("const", 1)), ("sub", e, ("const", 2))
        sources = self.iter_sources(L.iter)

        # ---- R08.2: every subscript of the two lists is well typed
        n_sub = 0
        for ev in s.events:
            for x in walk(ev.term):
                if x[0] == "sub" and x[1] in (BA, BP) and x[2][0] != "const" and x[2][0] != "slice":
                    pass
        seen_sub = set()
        for ev in s.events:
            for x in list(walk(ev.term)) + list(walk(ev.live)):
                if x[0] == "sub" and x[2][0] not in ("const", "slice") and x not in seen_sub \
                        and (x[1] in (BA, BP) or (x[1][0] == "comp" and self.root_of(s, x[1]) in (BA, BP))):
                    seen_sub.add(x)
        for x in sorted(seen_sub, key=repr):
            base, i = x[1], x[2]
            doms = self.domains(s, i)
            bad = [d for d in doms if d[0] in ("unknown", "illtyped", "float")]
            wrong = [d for d in doms if d[0] == "idx" and not self.equivalent(s, d[1], base)]
            root = self.root_of(s, base)
            name = ("clip_predictions.sound_events" if root == BP else "clip_annotations.sound_events") + ("" if base == root else " (filtered)")
            if wrong or any(d[0] == "illtyped" for d in doms):
                d = (wrong or [d for d in doms if d[0] == "illtyped"])[0]
                ctx.bad("R08.2", self.file, "evaluate_clip", f"{name}[{show(i)[:40]}]",
                        f"{name} is subscripted with an index of type {self.dshow(d)}: the index counts positions in a "
                        f"different (filtered or foreign) list, so a different sound event than the matched one is evaluated",
                        s.node.lineno, witness={"subscript": show(x)[:80], "index_domain": self.dshow(d)})
            elif bad:
                ctx.undec("R08.2", site, f"cannot derive the index domain of {show(i)[:50]} used in {name}[...]: {self.dshow(bad[0])}")
            else:
                n_sub += 1
                ctx.ok("R08.2", site, f"{name}[{show(i)[:30]}] : index domain {sorted(self.dshow(d) for d in doms)}")

        # ---- R08.3 coverage of both lists
        for side, B, k, nm in (("prediction", BP, 0, "clip_predictions.sound_events"), ("annotation", BA, 1, "clip_annotations.sound_events")):
            pieces = []  # predicate over the element (canonical var X) | 'all'
            undecided = None
            for src in sources:
                p = self.positions(s, src, k, B)
                if p is None:
                    undecided = src
                    break
                pieces += p
            if undecided is not None:
                ctx.undec("R08.3", site, f"cannot tell which {side}s the source {show(undecided)[:60]} covers")
                continue
            cr = [c for kk, c in self.crossed if kk == k]
            if cr:
                ctx.bad("R08.3", self.file, "evaluate_clip", f"{side} index {show(cr[0])[:70]}",
                        f"the matcher's {side} index is translated as `{show(cr[0])[:100]}`: a paired {side} is turned into None (it then "
                        f"appears in no match) or the None of an unpaired entry is used as an index", s.node.lineno)
                continue
            preds = [p for p in pieces if p != "none"]
            if preds == ["all"]:
                ctx.ok("R08.3", site, f"every {side} reaches the match loop (matcher over the whole list)")
            elif len(preds) == 2 and "all" not in preds and canon(NOT(preds[0])) == canon(preds[1]):
                ctx.ok("R08.3", site, f"every {side} reaches the match loop exactly once: {show(preds[0])[:60]} / complement")
            elif len(preds) == 1 and preds[0] != "all":
                ctx.bad("R08.3", self.file, "evaluate_clip", f"{side}s filtered by {show(preds[0])[:70]} without complement",
                        f"only the {side}s satisfying `{show(preds[0])[:70]}` reach the matcher and nothing handles the others: a "
                        f"{side} without geometry appears in no match, and the ClipEvaluation validator then rejects the whole clip",
                        s.node.lineno, witness={"list": nm, "covered": show(preds[0])[:80]})
            else:
                ctx.bad("R08.3", self.file, "evaluate_clip", f"{side} coverage {[show(p)[:40] if p != 'all' else p for p in preds]}",
                        f"the sources of the match loop do not partition {nm}: pieces {[show(p)[:50] if p != 'all' else p for p in preds]}",
                        s.node.lineno)

        # ---- R08.7 + R08.4: the three cases
        cases = {"unmatched prediction": (False, True), "unmatched annotation": (True, False), "pair": (False, False)}
        for cname, (p_none, a_none) in cases.items():
            env = {("cmp", "is", pi, NONE): p_none, ("cmp", "isnot", pi, NONE): not p_none,
                   ("cmp", "is", ai, NONE): a_none, ("cmp", "isnot", ai, NONE): not a_none}
            live_apps = []
            for a in apps:
                lv = peval(a.live, env)
                conj = [c for c in conjuncts(lv) if c[0] != "inloop"] if lv[0] != "const" else []
                if lv == ("const", False):
                    continue
                if lv[0] == "const" or not conj:
                    live_apps.append(a)
                else:
                    ctx.undec("R08.7", site, f"append guarded by a condition beyond the None tests: {show(lv)[:60]}")
            if len(live_apps) != 1:
                ctx.bad("R08.7", self.file, "evaluate_clip", f"case {cname}: {len(live_apps)} matches appended",
                        f"for an {cname} ({'prediction index is None' if p_none else 'prediction index given'}, "
                        f"{'annotation index is None' if a_none else 'annotation index given'}) {len(live_apps)} Match objects are "
                        f"appended instead of exactly one", s.node.lineno, witness={"case": cname})
                continue
            a = live_apps[0]
            mt = self.match_term(peval(a.term[2][0], env), env)
            if mt is None:
                ctx.undec("R08.7", f"{self.file}:{a.lineno} evaluate_clip", f"case {cname}: cannot resolve the appended Match")
                continue
            kw, callee_aff = mt
            want_src = NONE if p_none else ("sub", BP, pi)
            want_tgt = NONE if a_none else ("sub", BA, ai)
            src_t, tgt_t = peval(kw.get("source", NONE), env), peval(kw.get("target", NONE), env)
            # the loop element may carry the sound events themselves instead of their positions
            if not p_none and src_t == pi and self.domains(s, pi) <= {("obj", BP), ("none",)}:
                want_src = pi
            if not a_none and tgt_t == ai and self.domains(s, ai) <= {("obj", BA), ("none",)}:
                want_tgt = ai
            for side_t, rootB in ((src_t, BP), (tgt_t, BA)):
                if side_t == NONE:
                    continue
                dd = self.domains(s, side_t)
                if dd <= {("obj", rootB), ("none",)}:
                    ctx.ok("R08.2", f"{self.file}:{a.lineno} evaluate_clip", f"case {cname}: {show(side_t)[:40]} is an element of {show(rootB)}")
                elif any(d[0] == "obj" and d[1] != rootB for d in dd):
                    ctx.bad("R08.2", self.file, "evaluate_clip", f"case {cname}: {show(side_t)[:50]}",
                            f"case {cname}: the {'source' if rootB == BP else 'target'} of the Match is drawn from "
                            f"{[self.dshow(d) for d in dd if d[0] == 'obj'][0]} instead of {show(rootB)}", a.lineno)
            if src_t == want_src and tgt_t == want_tgt:
                ctx.ok("R08.7", f"{self.file}:{a.lineno} evaluate_clip", f"case {cname}: one Match(source={show(want_src)[:30]}, target={show(want_tgt)[:30]})")
            else:
                ctx.bad("R08.7", self.file, "evaluate_clip", f"case {cname}: Match(source={show(src_t)[:40]}, target={show(tgt_t)[:40]})",
                        f"case {cname}: the Match must have source={show(want_src)[:50]} and target={show(want_tgt)[:50]}", a.lineno)
            # continue after append (no second append possible is already checked by len==1)
            affv = peval(kw.get("affinity", ("const", 0.0)), env)
            scorev = peval(kw.get("score", NONE), env)
            if cname == "pair":
                if affv == aff:
                    ctx.ok("R08.4", f"{self.file}:{a.lineno} evaluate_clip", "two-sided match reports the matcher's affinity")
                else:
                    ctx.bad("R08.4", self.file, "evaluate_sound_event" if callee_aff else "evaluate_clip", f"Match(affinity={show(affv)[:30]}) for a matched pair",
                            f"a two-sided match reports affinity {show(affv)[:40]} instead of the geometric affinity computed by the "
                            f"matcher: partially overlapping events are reported as perfect (or arbitrary) geometric matches",
                            a.lineno, witness={"affinity_term": show(affv)[:60]})
            else:
                if affv == aff or (affv[0] == "const" and affv[1] == 0):
                    ctx.ok("R08.4", f"{self.file}:{a.lineno} evaluate_clip", f"{cname}: affinity 0 (matcher's value or literal)")
                else:
                    ctx.bad("R08.4", self.file, "evaluate_clip", f"{cname}: Match(affinity={show(affv)[:30]})",
                            f"an {cname} must report affinity 0, found {show(affv)[:40]}", a.lineno)
                if scorev[0] == "const" and scorev[1] == 0 and scorev[1] is not None:
                    ctx.ok("R08.4", f"{self.file}:{a.lineno} evaluate_clip", f"{cname}: score 0")
                else:
                    ctx.bad("R08.4", self.file, "evaluate_clip", f"{cname}: Match(score={show(scorev)[:30]})",
                            f"an {cname} must get score 0, found {show(scorev)[:40]}", a.lineno)
        # the one-sided entries that do not come from the matcher carry their affinity as a literal: it must be 0 as well
        for src in sources:
            if self.is_matcher(src):
                continue
            e_ = self.elt_of(s, src)
            if e_ is None or e_[0][0] != "tuple" or len(e_[0][1]) < 3:
                continue
            a3 = e_[0][1][2]
            one_sided = NONE in e_[0][1][:2]
            if a3[0] == "const" and a3[1] == 0 and a3[1] is not False:
                ctx.ok("R08.4", site, f"entries of {show(src)[:50]} carry affinity 0")
            elif one_sided:
                ctx.bad("R08.4", self.file, "evaluate_clip", f"one-sided entry {show(e_[0])[:50]}",
                        f"the one-sided entries built by `{show(src)[:90]}` carry affinity {show(a3)[:30]}: an unpaired sound event must "
                        f"report affinity 0", s.node.lineno, witness={"entry": show(e_[0])[:80]})
        # the matches list given to ClipEvaluation and to the mean is the list appended to
        return s, apps

    def _is_match_result(self, t) -> bool:
        return (t[0] == "sub" and t[1][0] == "call" and t[1][1] == ("global", f"{DET}:evaluate_sound_event", "func")) or \
               (t[0] == "call" and t[1] == ("global", f"{DET}:evaluate_sound_event", "func"))

    def match_term(self, t, env):
        """kwargs of the Match(...) appended; follows evaluate_sound_event(...)[2]."""
        Match = ("global", "soundevent.data.matches:Match", "class")
        if t[0] == "tuple" and len(t[1]) == 3:
            t = t[1][2]  # the match of a (truth, scores, match) result
        elif t[0] == "call" and t[1] == ("global", f"{DET}:evaluate_sound_event", "func"):
            t = ("sub", t, ("const", 2))
        if t[0] == "call" and t[1] == Match:
            return callkw(t), False
        if t[0] == "sub" and t[2][0] == "const" and t[1][0] == "call" and t[1][1] == ("global", f"{DET}:evaluate_sound_event", "func"):
            cs = self.ctx.summ.of_func(DET, "evaluate_sound_event")
            b, extra, _, _ = bind_args(t[1], cs.params)
            if len(cs.returns) != 1 or cs.returns[0].term[0] != "tuple":
                return None
            comp = cs.returns[0].term[1][t[2][1]] if t[2][1] < len(cs.returns[0].term[1]) else None
            if comp is None or not (comp[0] == "call" and comp[1] == Match):
                return None
            mapping = {}
            for p in cs.params:
                if p in b:
                    mapping[("param", p)] = b[p]
                elif p in cs.defaults:
                    mapping[("param", p)] = cs.defaults[p]
            return {k: subst(v, mapping) for k, v in comp[3]}, True
        return None

    def positions(self, s: Summary, src, k: int, B) -> Optional[List]:
        """Which positions of list B does component k of source `src` mention?  -> list of predicates over the
        element X (B[i]) | 'all' | 'none';  None = cannot tell."""
        def pred_of(conds, elem_term):
            from sa.sym import AND
            c = AND(*[subst(c, {elem_term: X}) for c in conds])
            # truthiness of a geometry == is not None
            def tr(t):
                if not isinstance(t, tuple):
                    return t
                if t and t[0] == "attr" and t[2] == "geometry":
                    return t
                return tuple(tr(x) for x in t)
            if c[0] == "attr" and c[2] == "geometry":
                c = ("cmp", "isnot", c, NONE)
            if c[0] == "not" and c[1][0] == "attr" and c[1][2] == "geometry":
                c = ("cmp", "is", c[1], NONE)
            return c

        def seq_positions(seq) -> Optional[object]:
            """positions of B that the sequence `seq` (given to the matcher / iterated) enumerates, in order."""
            if seq == B:
                return "all"
            e = self.elt_of(s, seq)
            if e is None:
                return None
            elt, lid, it, conds = e
            el = ("elem", lid)
            # [f(x) for x in B if c(x)]
            if it == B:
                return pred_of(conds, el) if conds else "all"
            # [f(B[i]) for i in TABLE]  /  [f(x) for i, x in enumerate(B) if c]
            if it[0] == "call" and it[1] == ("builtin", "enumerate") and it[2] == (B,):
                return pred_of(conds, ("sub", el, ("const", 1))) if conds else "all"
            inner = seq_positions(it) if not conds else None
            if inner is not None and not conds:
                # iterating an index table: elements must be used as B[i]
                te = self.elt_of(s, it)
                if te is not None and self.domains(s, te[0]) == {("idx", B)}:
                    return inner
                return inner
            return None

        if self.is_matcher(src):
            kw = callkw(src)
            args = list(src[2])
            seq = kw.get("source" if k == 0 else "target", args[k] if len(args) > k else None)
            if seq is None:
                return None
            p = seq_positions(seq)
            return None if p is None else [p]
        e = self.elt_of(s, src)
        if e is None:
            return None
        elt, lid, it, conds = e
        if elt[0] != "tuple" or k >= len(elt[1]):
            return None
        comp = elt[1][k]
        if comp == NONE:
            return ["none"]
        if self.is_matcher(it) and not conds:
            # component is (table[s] if s is not None else None) or s itself
            kw = callkw(it)
            args = list(it[2])
            seq = kw.get("source" if k == 0 else "target", args[k] if len(args) > k else None)
            doms = self.domains(s, comp)
            if any(d[0] in ("unknown", "illtyped") for d in doms):
                return None
            # the matcher's index is translated only where it is an index: None stays None, an index never becomes None
            mi = ("sub", ("elem", lid), ("const", k))
            at_none = peval(comp, {("cmp", "is", mi, NONE): True, ("cmp", "isnot", mi, NONE): False})
            at_some = peval(comp, {("cmp", "is", mi, NONE): False, ("cmp", "isnot", mi, NONE): True})
            if comp != mi and (at_none != NONE or at_some == NONE):
                self.crossed.append((k, comp))
            p = seq_positions(seq) if seq is not None else None
            return None if p is None else [p]
        el = ("elem", lid)
        if it in ROOTS:
            # [(x, None, 0.0) for x in B if c(x)]: the objects themselves
            if it == B and comp == el:
                return [pred_of(conds, el) if conds else "all"]
            if it != B:
                return ["none"] if comp == NONE else None
        if it[0] == "call" and it[1] == ("builtin", "enumerate") and len(it[2]) == 1:
            if it[2][0] == B and comp == ("sub", el, ("const", 0)):
                return [pred_of(conds, ("sub", el, ("const", 1))) if conds else "all"]
            if it[2][0] != B:
                # iterates the other list: mentions no position of B unless the component indexes B
                return ["none"] if comp == NONE else None
        # iterating an index table of B: [(i, None, 0.0) for i in TABLE], TABLE = [i for i, x in enumerate(B) if c(x)]
        te = self.elt_of(s, it)
        if te is not None and not conds and comp == el:
            telt, tlid, tit, tconds = te
            tel = ("elem", tlid)
            if tit[0] == "call" and tit[1] == ("builtin", "enumerate") and tit[2] == (B,) and telt == ("sub", tel, ("const", 0)):
                return [pred_of(tconds, ("sub", tel, ("const", 1))) if tconds else "all"]
        return None

    # ------------------------------------------------------------------ R08.5
    def check_pair_score(self):
        ctx = self.ctx
        s = ctx.summ.of_func(DET, "evaluate_sound_event")
        site = f"{self.file}:{s.node.lineno} evaluate_sound_event"
        P, A, E = ("param", "sound_event_prediction"), ("param", "sound_event_annotation"), ("param", "encoder")
        cls_enc = ("global", f"{ENC}:classification_encoding", "func")
        pr_enc = ("global", f"{ENC}:prediction_encoding", "func")
        score_fn = ("global", f"{MET}:classification_score", "func")
        nc = ctx.normcalls
        truth = nc(("call", cls_enc, (), (("encoder", E), ("tags", ("attr", A, "tags")))))
        scores = nc(("call", pr_enc, (), (("encoder", E), ("tags", ("attr", P, "tags")))))
        want = nc(("call", score_fn, (truth, scores), ()))
        if len(s.returns) != 1 or s.returns[0].term[0] != "tuple" or len(s.returns[0].term[1]) != 3:
            ctx.undec("R08.5", site, "does not return a (true class, scores, match) triple")
            return
        tc, ps, mt = s.returns[0].term[1]
        kw = callkw(mt) if mt[0] == "call" else {}
        if nc(kw.get("score", NONE)) == want:
            ctx.ok("R08.5", site, "score = classification_score(truth from annotation.tags, scores from prediction.tags)")
        else:
            ctx.bad("R08.5", self.file, "evaluate_sound_event", f"score={show(kw.get('score', NONE))[:90]}",
                    "the score of a matched pair is not classification_score(classification_encoding(annotation tags), "
                    f"prediction_encoding(prediction tags)): found {show(kw.get('score', NONE))[:120]}", s.node.lineno)
        if kw.get("source") == P and kw.get("target") == A:
            ctx.ok("R08.5", site, "Match(source=prediction, target=annotation)")
        else:
            ctx.bad("R08.5", self.file, "evaluate_sound_event", f"Match(source={show(kw.get('source', NONE))}, target={show(kw.get('target', NONE))})",
                    "source must be the prediction and target the annotation", s.node.lineno)
        if nc(tc) == truth and nc(ps) == scores:
            ctx.ok("R08.5", site, "returns (true class, predicted scores) of the same pair for the run metrics")
        else:
            ctx.bad("R08.5", self.file, "evaluate_sound_event", "return true_class, predicted_class_scores, match",
                    "the returned truth / scores are not those of the annotation / prediction", s.node.lineno)

    # ------------------------------------------------------------------ R08.6
    def check_means(self, s_clip: Summary, apps):
        ctx = self.ctx
        mean = ("global", f"{DET}:_mean", "func")
        # a private averaging helper written out at its call sites: the call-shape tests below do not apply, the scenario
        # reading further down (evalflow.check_mean) decides the same clauses on the written-out expression
        has_mean = "_mean" in ctx.index.module(DET).defs and not self.triples
        site = f"{self.file}:{s_clip.node.lineno} evaluate_clip"
        CE = ("global", "soundevent.data.clip_evaluations:ClipEvaluation", "class")
        ce = [x for r in s_clip.returns for x in walk(r.term) if x[0] == "call" and x[1] == CE]
        lst = apps[0].term[1][1] if apps else None
        if lst is not None and lst in s_clip.alloc_comps:
            lst = s_clip.alloc_comps[lst]  # a list filled by one append site is read as its comprehension afterwards
        if len(ce) == 1 and lst is not None:
            kw = callkw(ce[0])
            sc = kw.get("score")
            good = (sc is not None and sc[0] == "call" and sc[1] == mean and len(sc[2]) == 1 and sc[2][0][0] == "comp"
                    and len(sc[2][0][3]) == 1 and sc[2][0][3][0][1] == lst and not sc[2][0][3][0][2]
                    and sc[2][0][2] == ("attr", ("elem", sc[2][0][3][0][0]), "score"))
            if not good and sc is not None and sc[0] == "call" and sc[1] == mean and len(sc[2]) == 1 and sc[2][0][0] == "alloc":
                # a score list accumulated alongside the matches: one `scores.append(m.score)` next to every
                # `matches.append(m)` (same path, same loop), and no other append to it
                acc = sc[2][0]
                sapps = [e for e in s_clip.calls if e.term[1] == ("attr", acc, "append") and len(e.term[2]) == 1]
                others = [e for e in s_clip.events if e not in sapps and any(x == acc for x in walk(e.term)) and e.kind in ("call", "store", "delete")
                          and not (e.kind == "call" and e.term == sc) and not (e.kind == "call" and any(x == sc for x in walk(e.term)))]
                pairs = 0
                for a in apps:
                    m_ = a.term[2][0]
                    if any(sa.live == a.live and sa.loops == a.loops and sa.term[2][0] == ("attr", m_, "score") for sa in sapps):
                        pairs += 1
                good = pairs == len(apps) == len(sapps) and not others
                if not good:
                    ctx.bad("R08.6", self.file, "evaluate_clip", f"ClipEvaluation(score=_mean({show(acc)}))",
                            f"the clip score is the mean of a separately accumulated list that receives {len(sapps)} score(s) while "
                            f"{len(apps)} matches are appended ({pairs} of them paired with their own score): the clip score is not "
                            f"the mean over exactly the matches handed to ClipEvaluation", s_clip.node.lineno,
                            witness={"matches_appends": len(apps), "score_appends": len(sapps)})
                    good = None
            if good is None or not has_mean:
                pass
            elif good and kw.get("matches") == lst:
                ctx.ok("R08.6", site, "clip score = _mean(score of every appended match); matches=that list")
            else:
                ctx.bad("R08.6", self.file, "evaluate_clip", f"ClipEvaluation(score={show(sc)[:60] if sc else '-'}, matches={show(kw.get('matches', NONE))[:30]})",
                        "the clip score must be _mean([m.score for m in matches]) over exactly the matches handed to ClipEvaluation",
                        s_clip.node.lineno)
            if kw.get("annotations") == ("param", "clip_annotations") and kw.get("predictions") == ("param", "clip_predictions"):
                ctx.ok("R08.6", site, "ClipEvaluation(annotations=clip_annotations, predictions=clip_predictions)")
            else:
                ctx.bad("R08.6", self.file, "evaluate_clip", "ClipEvaluation(annotations=..., predictions=...)", "annotations/predictions crossed", s_clip.node.lineno)
        else:
            ctx.undec("R08.6", site, "ClipEvaluation(...) construction not found")
        s = ctx.summ.of_func(DET, "sound_event_detection")
        ev = [x for r in s.returns for x in walk(r.term) if x[0] == "call" and x[1][0] == "global" and x[1][1].endswith(":Evaluation")]
        site = f"{self.file}:{s.node.lineno} sound_event_detection"
        if len(ev) == 1:
            kw = callkw(ev[0])
            sc, clips = kw.get("score"), kw.get("clip_evaluations")
            good = (sc is not None and sc[0] == "call" and sc[1] == mean and len(sc[2]) == 1 and sc[2][0][0] == "comp"
                    and sc[2][0][3][0][1] == clips and not sc[2][0][3][0][2] and sc[2][0][2] == ("attr", ("elem", sc[2][0][3][0][0]), "score"))
            if not has_mean:
                if kw.get("evaluation_task") == ("const", "sound_event_detection"):
                    ctx.ok("R08.6", site, "task label correct (the overall score is read by scenario below)")
                else:
                    ctx.bad("R08.6", self.file, "sound_event_detection", f"evaluation_task={show(kw.get('evaluation_task', NONE))[:40]}",
                            "the evaluation must be labelled 'sound_event_detection'", s.node.lineno)
            elif good and kw.get("evaluation_task") == ("const", "sound_event_detection"):
                ctx.ok("R08.6", site, "overall score = _mean(score of every clip evaluation returned); task label correct")
            else:
                ctx.bad("R08.6", self.file, "sound_event_detection", f"Evaluation(score={show(sc)[:60] if sc else '-'})",
                        "the overall score must be _mean([c.score for c in evaluated_clips]) over the clip evaluations returned, "
                        "labelled 'sound_event_detection'", s.node.lineno)
        else:
            ctx.undec("R08.6", site, "Evaluation(...) construction not found")
        # path-sensitive reading of both means: a non-empty selection gives the mean, the empty one 0 (two scenarios of the guards)
        from . import evalflow as ef
        if len(ce) == 1 and lst is not None:
            kw = callkw(ce[0])
            if kw.get("score") is not None and kw.get("matches") is not None:
                ef.check_mean(ctx, "R08.6", s_clip, kw["score"], kw["matches"], "clip score", "evaluate_clip", zero_when_empty=True)
        if len(ev) == 1:
            kw = callkw(ev[0])
            if kw.get("score") is not None and kw.get("clip_evaluations") is not None:
                ef.check_mean(ctx, "R08.6", s, kw["score"], kw["clip_evaluations"], "overall score", "sound_event_detection", zero_when_empty=True)
        # _mean itself
        if not has_mean:
            return
        ms = ctx.summ.of_func(DET, "_mean")
        site = f"{self.file}:{ms.node.lineno} _mean"
        p = ("param", ms.params[0])
        comp = None
        for r in ms.returns:
            for x in walk(r.term):
                if x[0] == "comp" and x[3][0][1] == p:
                    comp = x
        from sa.idioms import guarded_empty
        empty0 = comp is not None and any(r.term in (("const", 0.0), ("const", 0)) and guarded_empty(r.live, comp) for r in ms.returns)
        if comp is not None and not empty0:
            # scenario form: with an empty selection exactly the `return 0` paths are live and the mean is not evaluated
            from sa.peval import truth
            live_rets = [r for r in ms.returns if truth(peval(r.live, {comp: ()})) is True]
            mean_evald = [e for e in ms.calls if e.term[1] == ("ext", "numpy.mean") and truth(peval(e.live, {comp: ()})) is not False]
            undecided = [r for r in ms.returns if truth(peval(r.live, {comp: ()})) is None]
            empty0 = bool(live_rets) and all(r.term in (("const", 0.0), ("const", 0)) for r in live_rets) and not mean_evald and not undecided
        valid = comp is not None and comp[2] == ("elem", comp[3][0][0]) and comp[3][0][2] == (("cmp", "isnot", ("elem", comp[3][0][0]), NONE),)
        meanret = any(r.term[0] == "call" and r.term[1] == ("builtin", "float") and r.term[2][0][0] == "call"
                      and r.term[2][0][1] == ("ext", "numpy.mean") and r.term[2][0][2] == (comp,) for r in ms.returns) if comp else False
        if valid and empty0 and meanret:
            ctx.ok("R08.6", site, "mean of the non-None scores, 0.0 for an empty selection")
        else:
            ctx.bad("R08.6", self.file, "_mean", "_mean body",
                    f"_mean is not `float(np.mean([s for s in scores if s is not None]))` with 0.0 for an empty selection "
                    f"(filter ok={valid}, empty guard={empty0}, mean={meanret})", ms.node.lineno)


def run(ctx: Ctx):
    from .common import Settle as _Settle, soften_foreign as _soften
    whole_ = _Settle(ctx)
    try:
        return _run(ctx)
    finally:
        # (as in C09: a finding about a function written in a formulation the rules cannot read is not a finding -- undecided)
        _soften(ctx, whole_, ("R08.",))


def _run(ctx: Ctx):
    ctx.rule("R08.1", "clips paired by clip id; parameters bound correctly; every clip collected", 4)
    ctx.rule("R08.2", "index-domain typing of every subscript of the prediction/annotation lists", 4)
    ctx.rule("R08.3", "both lists are covered exactly once by the sources of the match loop", 2)
    ctx.rule("R08.4", "affinity/score flow of two-sided and one-sided matches", 5)
    ctx.rule("R08.5", "pair score = classification_score(annotation truth, prediction scores)", 3)
    ctx.rule("R08.6", "clip / overall scores are guarded means over exactly the constructed objects", 4)
    ctx.rule("R08.7", "three None-cases, exactly one Match each with the right sides", 3)
    c = C08(ctx)
    c.check_clips()
    got = c.check_evaluate_clip()
    c.check_pair_score()
    # the pair score is what classification_score returns: the probability at the true class (evaluation/metrics.py is anchored)
    from .c09 import C09
    C09(ctx).probability_wrapper("classification_score", "R08.5", "R08.5")
    # provenance typing from the entry point: annotations / predictions are never crossed on their way into the result objects
    from . import evalflow as ef
    fl = ef.Flow(ctx, DET, "sound_event_detection").run()
    ef.check_objects(ctx, "R08.1", fl, "sound_event_detection", True)
    # the classes of the task are the positions of the caller's `tags`: the encoder is built from that list, whole and in its order
    s0 = ctx.summ.of_func(DET, "sound_event_detection")
    mk = [e for e in s0.calls if e.term[1] == ("global", f"{ENC}:create_tag_encoder", "func")]
    for e in mk:
        arg = callkw(e.term).get("tags", e.term[2][0] if e.term[2] else None)
        while arg is not None and arg[0] == "call" and arg[1] in (("builtin", "list"), ("builtin", "tuple")) and len(arg[2]) == 1 and not arg[3]:
            arg = arg[2][0]
        if arg == ("param", "tags"):
            ctx.ok("R08.1", f"{s0.module.relpath}:{e.lineno} sound_event_detection", "the encoder is built from the caller's tags")
        else:
            ctx.bad("R08.1", s0.module.relpath, "sound_event_detection", f"create_tag_encoder({show(arg)[:50] if arg else ''})",
                    f"the encoder is built from `{show(arg)[:60] if arg else '-'}` instead of the caller's tag vocabulary: annotations and predictions "
                    f"with a dropped tag are evaluated as unlabelled, class positions shift", e.lineno)
    if not mk:
        ctx.undec("R08.1", f"{s0.module.relpath}:{s0.node.lineno} sound_event_detection", "create_tag_encoder(...) not found")
    if got:
        c.check_means(*got)
    # "paired only if their geometries overlap" and the reported affinity rest on the matcher (anchored file
    # evaluation/match.py): C07's rules are necessary conditions
    from . import c07
    with ctx.delegated("C07/"):
        c07.run_for_detection(ctx)
    # the matcher treats affinity > 0 as "the geometries overlap" and the match reports that affinity: the affinity must be the
    # intersection-over-union of the (prepared) geometries -- 0 exactly when they do not overlap (C06's formula rules)
    from . import c06
    with ctx.delegated("C06/"):
        c06.run_for_detection(ctx)
    # "appears in exactly one match" is enforced at construction by the ClipEvaluation validator (anchored file
    # data/clip_evaluations.py, named as the backstop): C04's validator rules are necessary conditions
    from .c04 import C04
    with ctx.delegated("C04/"):
        ctx.rule("R04.2", "relational validators: registered, reject exactly the specified condition, otherwise return input", 12)
        C04(ctx).check_validators()
    return EXPLANATION, ASSUMPTIONS
