"""C19 -- tag encoding projects faithfully onto the vocabulary; equal objects hash equally (R19.1 - R19.3)."""

from __future__ import annotations

import ast
from typing import Dict, List, Optional, Set

from sa.models import shape_str, strip_opt
from sa.report import Ctx
from sa.sym import callkw, FALSE, NONE, NOT, Summary, conjuncts, show, subst, walk

ENC = "soundevent.evaluation.encoding"
DATA = "soundevent.data"

EXPLANATION = (
    "Static decision of: R19.1 the encoder's table key and lookup key are the same expression, which covers the whole "
    "identity of a tag (every declared field of Tag), indices come from enumerate(tags) starting at 0, decode is "
    "tags[index] and num_classes is len(tags); R19.2 classification_encoding returns the first vocabulary hit in input "
    "order (None on fall-through), multilabel/prediction encodings start from zeros(num_classes) and their only stores "
    "are encoded[index] = 1 / = prediction.score under `index is not None` with index = encoder.encode(<that element's "
    "tag>); R19.3 (sufficient condition, hence a proof of the hash/eq clause given pydantic's field-wise __eq__) every "
    "hand-written __hash__ in soundevent.data is hash(e) with e built only from declared fields of self, tuples and "
    "str(), no id()/private state/properties, no __eq__ override in the class or its bases, and every field used is of a "
    "hash-consistent type."
)
ASSUMPTIONS = [
    "pydantic BaseModel.__eq__ compares all declared fields (so equal objects have equal values in every field a __hash__ reads)",
    "hash() of builtins / UUID is consistent with their equality",
]

HASHABLE_PRIMS = {"str", "int", "float", "bool", "UUID", "Path", "bytes"}


class C19:
    def __init__(self, ctx: Ctx):
        self.ctx = ctx
        self.file = ctx.index.module(ENC).relpath

    # ------------------------------------------------------------------ R19.1
    def check_encoder(self):
        ctx, m = self.ctx, self.ctx.models
        ci = ctx.index.need_class(ENC, "SimpleEncoder")
        init = ctx.summ.of_func(ENC, "SimpleEncoder.__init__")
        enc = ctx.summ.of_func(ENC, "SimpleEncoder.encode")
        dec = ctx.summ.of_func(ENC, "SimpleEncoder.decode")
        SELF = ("param", "self")
        tags = ("param", init.params[1])
        site = f"{self.file}:{init.node.lineno} SimpleEncoder.__init__"
        from sa.idioms import attribute_tables
        stores = attribute_tables(init, SELF)
        table_attr = None
        key_build = None
        for attr, val in stores.items():
            if val[0] == "comp" and val[1] == "dict" and len(val[3]) == 1:
                lid, it, conds = val[3][0]
                if it in (("call", ("builtin", "enumerate"), (tags,), ()), ("call", ("builtin", "enumerate"), (tags, ("const", 0)), ())) and not conds:
                    e = ("elem", lid)
                    idx, tag = ("sub", e, ("const", 0)), ("sub", e, ("const", 1))
                    if val[2][0] == "kv" and val[2][2] == idx:
                        table_attr, key_build = attr, subst(val[2][1], {tag: ("var", "tag")})
            # dict(zip(<key(tag) for tag in tags>, range(len(tags)))): the same pairs (a repeated key keeps its last index there too)
            if val[0] == "call" and val[1] == ("builtin", "dict") and len(val[2]) == 1 and not val[3] and val[2][0][0] == "call" \
                    and val[2][0][1] == ("builtin", "zip") and len(val[2][0][2]) == 2 and not val[2][0][3]:
                keys, idxs = val[2][0][2]
                if keys[0] == "call" and keys[1] in (("builtin", "list"), ("builtin", "tuple")) and len(keys[2]) == 1 and not keys[3]:
                    keys = keys[2][0]
                n_ = ("call", ("builtin", "len"), (tags,), ())
                sizes = [n_] + [("attr", SELF, a_) for a_, v_ in stores.items() if v_ == n_]
                if keys[0] == "comp" and keys[1] == "list" and len(keys[3]) == 1 and keys[3][0][1] == tags and not keys[3][0][2]:
                    sizes.append(("call", ("builtin", "len"), (keys,), ()))  # one key per tag: len(keys) is len(tags)
                counting = idxs in [("call", ("builtin", "range"), (z_,), ()) for z_ in sizes] + [("call", ("builtin", "range"), (("const", 0), z_), ()) for z_ in sizes] \
                    + [("call", ("ext", "itertools.count"), (), ()), ("call", ("ext", "itertools.count"), (("const", 0),), ())]
                if counting and keys[0] == "comp" and keys[1] in ("gen", "list") and len(keys[3]) == 1 and keys[3][0][1] == tags and not keys[3][0][2]:
                    table_attr, key_build = attr, subst(keys[2], {("elem", keys[3][0][0]): ("var", "tag")})
        if table_attr is None:
            ctx.bad("R19.1", self.file, "SimpleEncoder.__init__", "self._mapping = {key(tag): i for i, tag in enumerate(tags)}",
                    "the encoder table is not built as {key(tag): index} over enumerate(tags) (0-based, unfiltered): indices do not "
                    "correspond to vocabulary positions", init.node.lineno)
            return
        ctx.ok("R19.1", site, f"table {{key(tag): i for i, tag in enumerate(tags)}} with key = {show(key_build)[:50]}")
        # lookup key
        tagp = ("param", enc.params[1])
        r = enc.returns[0].term if len(enc.returns) == 1 else None
        key_lookup = None
        if r is not None and r[0] == "call" and r[1] == ("attr", ("attr", SELF, table_attr), "get") and len(r[2]) in (1, 2):
            if len(r[2]) == 1 or r[2][1] == NONE:
                key_lookup = subst(r[2][0], {tagp: ("var", "tag")})
        if r is None and len(enc.returns) == 2:
            # try: return table[key] / except KeyError: return None  -- the same lookup as table.get(key)
            hit = [x for x in enc.returns if x.term[0] == "sub" and x.term[1] == ("attr", SELF, table_attr) and not x.in_handler]
            miss = [x for x in enc.returns if x.term == NONE and x.in_handler]
            if len(hit) == 1 and len(miss) == 1:
                tids = [t_ for t_ in enc.tries.values() if any(h == miss[0].in_handler[-1] and names == ("KeyError",) for h, names in t_.handlers)]
                if tids and not enc.of("store") and not enc.raises:
                    r = ("call", ("attr", ("attr", SELF, table_attr), "get"), (hit[0].term[2],), ())
                    key_lookup = subst(hit[0].term[2], {tagp: ("var", "tag")})
        if r is None and len(enc.returns) == 2 and not enc.of("store") and not enc.raises:
            # if key not in table: return None / return table[key]  -- the same lookup as table.get(key)
            T_ = ("attr", SELF, table_attr)
            hit = [x for x in enc.returns if x.term[0] == "sub" and x.term[1] == T_ and x.live == ("cmp", "in", x.term[2], T_)]
            miss = [x for x in enc.returns if x.term == NONE and hit and x.live == ("cmp", "notin", hit[0].term[2], T_)]
            if len(hit) == 1 and len(miss) == 1:
                r = ("call", ("attr", T_, "get"), (hit[0].term[2],), ())
                key_lookup = subst(hit[0].term[2], {tagp: ("var", "tag")})
        esite = f"{self.file}:{enc.node.lineno} SimpleEncoder.encode"
        if key_lookup is None:
            ctx.bad("R19.1", self.file, "SimpleEncoder.encode", f"return {show(r)[:60] if r else '-'}",
                    "encode must be self._mapping.get(key(tag)) (None for tags outside the vocabulary)", enc.node.lineno)
        elif key_lookup == key_build:
            ctx.ok("R19.1", esite, "lookup key == table key")
        else:
            ctx.bad("R19.1", self.file, "SimpleEncoder.encode", f"lookup key {show(key_lookup)[:50]} vs table key {show(key_build)[:50]}",
                    f"the encoder looks tags up with `{show(key_lookup)[:60]}` but the table is keyed by `{show(key_build)[:60]}`: "
                    f"vocabulary tags are not found, or different tags collapse to one index", enc.node.lineno)
        # the key covers the identity of a tag
        Tag = ctx.index.need_class(f"{DATA}.tags", "Tag")
        fields = [f.name for f in m.fields(Tag)]
        # a field counts as covered only where it enters the key whole: directly or as an element of a (nested) tuple;
        # wrapped in a call / attribute access the key sees a projection of it (term -> label, value -> lower-case ...)
        def direct(t, out, wrapped):
            if t[0] == "attr" and t[1] == ("var", "tag"):
                out.add(t[2])
            elif t[0] == "tuple":
                for x in t[1]:
                    direct(x, out, wrapped)
            else:
                for x in walk(t):
                    if x[0] == "attr" and x[1] == ("var", "tag"):
                        wrapped.append((x[2], t))
        used, wrapped = set(), []
        direct(key_build, used, wrapped)
        whole = key_build == ("var", "tag")
        if whole or set(fields) <= used:
            ctx.ok("R19.1", site, f"key covers every declared field of Tag {fields}")
        else:
            missing = sorted(set(fields) - used)
            via = {f: t for f, t in wrapped}
            how = "; ".join(f"`{f}` only enters through `{show(via[f])[:50]}`" if f in via else f"`{f}` is not used" for f in missing)
            ctx.bad("R19.1", self.file, "SimpleEncoder.__init__", f"key {show(key_build)[:50]} misses Tag fields {missing}",
                    f"the encoder key does not carry Tag field(s) {missing} whole ({how}): tags that differ only there are mapped to the "
                    f"same index, so a tag maps to index i without being equal to the i-th vocabulary tag", init.node.lineno)
        deep = [x for x in walk(key_build) if x[0] == "attr" and x[1][0] == "attr" and x[1][1] == ("var", "tag")]
        if deep:
            ctx.bad("R19.1", self.file, "SimpleEncoder.__init__", f"key uses {show(deep[0])[:40]}",
                    f"the key uses only part of a field ({show(deep[0])[:40]}): tags with different terms but the same "
                    f"{deep[0][2]} collapse to one index", init.node.lineno)
        # decode / num_classes
        tags_attr = [a for a, v in stores.items() if v == tags]
        dr = dec.returns[0].term if len(dec.returns) == 1 else None
        if tags_attr and dr == ("sub", ("attr", SELF, tags_attr[0]), ("param", dec.params[1])):
            ctx.ok("R19.1", f"{self.file}:{dec.node.lineno} SimpleEncoder.decode", "decode(index) = tags[index]")
        else:
            ctx.bad("R19.1", self.file, "SimpleEncoder.decode", f"return {show(dr)[:50] if dr else '-'}",
                    "decode must return the index-th vocabulary tag", dec.node.lineno)
        if stores.get("num_classes") == ("call", ("builtin", "len"), (tags,), ()):
            ctx.ok("R19.1", site, "num_classes = len(tags)")
        else:
            ctx.bad("R19.1", self.file, "SimpleEncoder.__init__", f"num_classes = {show(stores.get('num_classes', NONE))[:40]}",
                    "num_classes must be len(tags)", init.node.lineno)

    # ------------------------------------------------------------------ R19.2
    def check_encodings(self):
        ctx = self.ctx
        s = ctx.summ.of_func(ENC, "classification_encoding")
        site = f"{self.file}:{s.node.lineno} classification_encoding"
        tags, encoder = ("param", s.params[0]), ("param", s.params[1])
        from sa.idioms import first_not_none
        fnn = first_not_none(s)
        ok = fnn is not None and fnn[0] == tags and fnn[1] == ("call", ("attr", encoder, "encode"), (("elem", fnn[2]),), ())
        if ok:
            ctx.ok("R19.2", site, "returns the first non-None encoder.encode(tag) in input order, None on fall-through")
        elif fnn is None and not [l for l in s.loops.values() if l.kind == "for"] and self.classification_by_models(s) is True:
            ctx.ok("R19.2", site, "first non-None code in input order, None when no tag is known (interpreted on model tag lists and encoders)")
        elif fnn is None and not [l for l in s.loops.values() if l.kind == "for"] and self.classification_by_models(s) is None:
            ctx.undec("R19.2", site, "classification_encoding is written without a loop over its tags and cannot be interpreted on model inputs")
        else:
            ctx.bad("R19.2", self.file, "classification_encoding", "for tag in tags: first hit",
                    "classification_encoding must scan the tags in order and return the first encoder.encode(tag) that is not None "
                    "(None when no tag is in the vocabulary)", s.node.lineno)
        for fname, val_of in (("multilabel_encoding", None), ("prediction_encoding", "score")):
            s = ctx.summ.of_func(ENC, fname)
            site = f"{self.file}:{s.node.lineno} {fname}"
            tags, encoder = ("param", s.params[0]), ("param", s.params[1])
            loops = [l for l in s.loops.values() if l.kind == "for"]
            if len(s.of("store")) == 1 and not s.of("store")[0].loops:
                sc = self.scatter_form(s, fname, tags, encoder, val_of, site)
                if sc is not None:
                    continue
            def hands_tags_on():
                """the tags go, whole, into a call the engine could not open (functools.reduce with a step function, a method of a
                strategy / scheme object, a function picked from a table): the iteration happens where this rule cannot see it"""
                for e in s.calls:
                    f_ = e.term[1]
                    if e.term[0] == "call" and f_ == ("ext", "functools.reduce") and any(x == tags for a in e.term[2] for x in walk(a)):
                        return True  # a fold over (something derived from) the tags with a step function
                    if e.term[0] != "call" or not any(a == tags or (a[0] == "call" and a[1] in (("builtin", "list"), ("builtin", "iter")) and a[2] == (tags,))
                                                      for a in list(e.term[2]) + [v for _, v in e.term[3]]):
                        continue
                    if f_ == ("ext", "functools.reduce") or (f_[0] == "attr" and f_[1][0] != "ext" and f_[2] not in ("append", "extend")) \
                            or f_[0] in ("sub", "lambda", "ite") or (f_[0] == "global" and f_[2] == "func"):
                        return True
                return False
            if (not loops or (len(loops) == 1 and loops[0].iter != tags and not any(x == tags for x in walk(loops[0].iter)))) and hands_tags_on():
                # no statement loop over the input at all (a reduce / map pipeline, a strategy object, a table of schemes): another
                # formulation, which this rule cannot read -- not a loop that skips or repeats tags
                ctx.undec("R19.2", site, f"{fname} has no loop over its tags that the rule can read (the encoding is written in another formulation)")
                continue
            if any(l_.iter != tags and l_.iter[0] == "comp" and any(x == tags for x in walk(l_.iter)) for l_ in loops):
                ctx.undec("R19.2", site, f"{fname} loops over a generator pipeline derived from its tags, which the rule cannot read")
                continue
            if len(loops) == 1 and loops[0].iter != tags and any(
                    x[0] == "call" and x[1] in (("builtin", "filter"), ("builtin", "map"), ("ext", "itertools.filterfalse"), ("ext", "itertools.starmap"))
                    and x[2] and x[2][0][0] in ("lambda", "global", "attr", "call") for x in walk(loops[0].iter)):
                ctx.undec("R19.2", site, f"{fname} loops over a filter / map pipeline of its tags (`{show(loops[0].iter)[:60]}`), which the rule cannot read")
                continue
            if len(loops) != 1 or loops[0].iter != tags or loops[0].conds:
                ctx.bad("R19.2", self.file, fname, "loop over tags", "the encoding must iterate every tag of the input once", s.node.lineno)
                continue
            e = ("elem", loops[0].id)
            tagterm = e if val_of is None else ("attr", e, "tag")
            idx = ("call", ("attr", encoder, "encode"), (tagterm,), ())
            stores = s.of("store")
            arr = None
            good = len(stores) == 1
            if good:
                st = stores[0]
                tgt, val = st.term[1], st.term[2]
                arr = tgt[1] if tgt[0] == "sub" else None
                want_val = ("const", 1) if val_of is None else ("attr", e, val_of)
                guard = [c for c in conjuncts(st.live) if c[0] != "inloop"]
                good = (tgt[0] == "sub" and tgt[2] == idx and val == want_val and guard == [("cmp", "isnot", idx, NONE)])
            nc_ = ("attr", encoder, "num_classes")
            shp_ = (arr[2][0] if arr[2] else callkw(arr).get("shape")) if arr is not None and arr[0] == "call" else None
            zeros_ok = arr is not None and arr[0] == "call" and arr[1] == ("ext", "numpy.zeros") and shp_ in (nc_, ("tuple", (nc_,)), ("list", (nc_,)))
            ret_ok = len(s.returns) == 1 and s.returns[0].term == arr
            if good and zeros_ok and ret_ok:
                ctx.ok("R19.2", site, f"zeros(num_classes); only store encoded[encode(tag)] = {'1' if val_of is None else 'prediction.score'} for vocabulary tags")
            else:
                ctx.bad("R19.2", self.file, fname, f"stores: {[show(x.term)[:70] for x in stores]}",
                        f"{fname} must start from zeros(encoder.num_classes) and only assign encoded[index] = "
                        f"{'1' if val_of is None else 'prediction.score'} where index = encoder.encode(that element's tag) is not None "
                        f"(store ok={good}, zeros={zeros_ok}, returns the array={ret_ok})", s.node.lineno)

    def classification_by_models(self, s):
        """classification_encoding interpreted (sa/meval.Machine) on every list of up to three tags out of {a, b, c, d} and three
        model encoders (a -> 0 and b -> 1; only b -> 0; nothing known): the code of the first tag the encoder knows, None otherwise.
        True / False / None (not interpretable)."""
        import itertools
        from types import SimpleNamespace as NS
        from sa.meval import Machine, ModelRaise
        from sa.peval import Unknown
        if getattr(self, "_cls_models", None) is not None:
            return self._cls_models
        M = Machine(self.ctx.summ, self.ctx.index)
        verdict = True
        try:
            for table in ({"a": 0, "b": 1}, {"b": 0}, {}):
                enc = NS(encode=lambda t, _t=table: _t.get(t), num_classes=len(table))
                for n in range(4):
                    for tags in itertools.product("abcd", repeat=n):
                        want = next((table[t] for t in tags if t in table), None)
                        got = M.apply_summary(s, [list(tags), enc], {}, {})
                        if got != want:
                            verdict = False
        except (Unknown, ModelRaise, RecursionError):
            verdict = None
        self._cls_models = verdict
        return verdict

    def scatter_form(self, s, fname, tags, encoder, val_of, site):
        """The vectorised spelling: `encoded = zeros(num_classes); encoded[I] = V; return encoded` with I the list of
        encoder.encode(tag) over the input elements whose code is not None (in input order) and V the constant 1 / the list of the
        scores of the same elements: numpy assigns element by element in order, a later duplicate overwriting an earlier one, as the
        loop does.  Both lists are rewritten as functions of the element at input position POS, whatever chain of unfiltered
        comprehensions / enumerate / list() they were built through.  None = another shape (nothing reported); else True / False."""
        from sa.sym import fold_sub
        ctx = self.ctx
        stores = s.of("store")
        if len(stores) != 1 or stores[0].loops or stores[0].live != ("const", True) and any(c[0] != "inloop" for c in conjuncts(stores[0].live)):
            return None
        st = stores[0]
        tgt, V = st.term[1], st.term[2]
        if tgt[0] != "sub":
            return None
        arr, I = tgt[1], tgt[2]
        while I[0] == "call" and I[1] in (("ext", "numpy.asarray"), ("ext", "numpy.array"), ("builtin", "list")) and I[2]:
            I = I[2][0]
        if I[0] != "comp":
            return None
        POS = ("var", "pos")
        X = ("sub", tags, POS)

        def item_at(seq, depth=0):
            """the element at input position POS of a sequence derived from `tags` one element per element; None = not such a sequence"""
            if depth > 6:
                return None
            if seq == tags:
                return X
            if seq[0] == "call" and seq[1] in (("builtin", "list"), ("builtin", "tuple")) and len(seq[2]) == 1 and not seq[3]:
                return item_at(seq[2][0], depth + 1)
            if seq[0] == "comp" and seq[1] in ("list", "gen") and len(seq[3]) == 1 and not seq[3][0][2]:
                inner = item_at(seq[3][0][1], depth + 1)
                return None if inner is None else fold_sub(subst(seq[2], {("elem", seq[3][0][0]): inner}))
            return None

        def as_function_of_pos(comp, depth=0):
            """(element, conditions) of a comprehension over the input positions, in terms of POS / tags[POS]"""
            if depth > 4 or comp[0] != "comp" or comp[1] not in ("list", "gen") or len(comp[3]) != 1:
                return None
            lid, it, conds = comp[3][0]
            e = ("elem", lid)
            if it[0] == "call" and it[1] == ("builtin", "enumerate") and len(it[2]) == 1 and not it[3]:
                item = item_at(it[2][0])
                if item is None:
                    return None
                mp = {("sub", e, ("const", 0)): POS, ("sub", e, ("const", 1)): item}
            elif it[0] == "comp":
                inner = as_function_of_pos(it, depth + 1)  # a comprehension over a filtered comprehension: the filters add up
                if inner is None:
                    return None
                elt_in, conds_in = inner
                elt_ = fold_sub(subst(comp[2], {e: elt_in}))
                return elt_, tuple(conds_in) + tuple(fold_sub(subst(c, {e: elt_in})) for c in conds)
            else:
                item = item_at(it)
                if item is None:
                    return None
                mp = {e: item}
            return fold_sub(subst(comp[2], mp)), tuple(fold_sub(subst(c, mp)) for c in conds)

        def norm(t):
            # list(tags)[POS] is tags[POS]
            return subst(t, {("sub", ("call", ("builtin", "list"), (tags,), ()), POS): X})

        fi = as_function_of_pos(I)
        if fi is None:
            return None
        idx_elt, idx_conds = norm(fi[0]), tuple(norm(c) for c in fi[1])
        tagterm = X if val_of is None else ("attr", X, "tag")
        idx = ("call", ("attr", encoder, "encode"), (tagterm,), ())
        good_idx = idx_elt == idx and idx_conds == (("cmp", "isnot", idx, NONE),)
        if val_of is None:
            good_val = V in (("const", 1), ("const", 1.0), ("const", True))
        else:
            fv = as_function_of_pos(V) if V[0] == "comp" else None
            good_val = fv is not None and norm(fv[0]) == ("attr", X, val_of) and tuple(norm(c) for c in fv[1]) == idx_conds
        nc_ = ("attr", encoder, "num_classes")
        shp_ = (arr[2][0] if arr[2] else callkw(arr).get("shape")) if arr[0] == "call" else None
        zeros_ok = arr[0] == "call" and arr[1] == ("ext", "numpy.zeros") and shp_ in (nc_, ("tuple", (nc_,)), ("list", (nc_,)))
        ret_ok = len(s.returns) == 1 and s.returns[0].term == arr
        accum = [e for e in s.calls if e.term[1][0] == "ext" and e.term[1][1].startswith("numpy.") and e.term[1][1].endswith(".at")]
        if good_idx and good_val and zeros_ok and ret_ok and not accum:
            ctx.ok("R19.2", site, f"zeros(num_classes); encoded[codes of the vocabulary tags, in input order] = {'1' if val_of is None else 'the scores of the same elements'} (one vectorised store)")
            return True
        ctx.bad("R19.2", self.file, fname, f"stores: {[show(x.term)[:70] for x in stores]}",
                f"{fname} must start from zeros(encoder.num_classes) and only assign encoded[index] = "
                f"{'1' if val_of is None else 'prediction.score'} where index = encoder.encode(that element's tag) is not None "
                f"(codes ok={good_idx}, values ok={good_val}, zeros={zeros_ok}, returns the array={ret_ok})", s.node.lineno)
        return False

    # ------------------------------------------------------------------ R19.3
    def hash_consistent(self, shape, seen=None) -> Optional[str]:
        """None if values of this declared type hash consistently with ==, else a reason."""
        ctx, m = self.ctx, self.ctx.models
        seen = seen or set()
        s = strip_opt(shape)
        if s[0] == "prim":
            return None if s[1] in HASHABLE_PRIMS or s[1] == "None" else f"type {s[1]}"
        if s[0] == "lit":
            return None
        if s[0] == "cls":
            if s[1] in seen:
                return None
            ci = ctx.index.class_by_qual(s[1])
            if ci is None:
                return f"unknown class {s[1]}"
            if not m.is_model(ci):
                return None if ci.has_ext_base("Enum") else f"class {ci.name}"
            if "__hash__" not in ci.methods:
                import ast as _ast
                supplied = any(isinstance(st, _ast.Assign) and any(isinstance(t_, _ast.Name) and t_.id == "__hash__" for t_ in st.targets)
                               and not (isinstance(st.value, _ast.Constant) and st.value.value is None) for st in ci.node.body)
                try:
                    supplied = supplied or any(b.module.name.startswith("soundevent") and "__hash__" in b.methods for b in ci.mro()[1:])
                except Exception:  # noqa: BLE001
                    pass
                if not supplied:
                    return f"model {ci.name} has no __hash__ (unhashable)"
            return None
        if s[0] == "union":
            for x in s[1]:
                r = self.hash_consistent(x, seen)
                if r:
                    return r
            return None
        return f"container type {shape_str(shape)}"

    def hash_by_interpretation(self, ci) -> bool:
        """A model whose __hash__ is not written in its own body but supplied as a class-level value (`__hash__ = hash_by("uuid")`)
        or by a base class of the package (a shared `IdentifiedModel` with an overridable identity): the hash function is
        interpreted (sa/meval.Machine) on a model instance that has exactly the declared fields of the class, with distinct
        hashable values.  If it runs, it read nothing but declared fields (anything else -- private state, `id`, `model_extra`,
        a cached value -- is outside the model and stops the interpretation), i.e. it is a function of what equality compares.
        True = the class has such a __hash__ (an instance was recorded, PASS or not)."""
        import ast as _ast
        from sa.meval import Machine, ModelRaise, _Record
        from sa.peval import Unknown
        from sa.sym import Evaluator, TRUE
        ctx, m = self.ctx, self.ctx.models
        assigned = [st for st in ci.node.body if isinstance(st, _ast.Assign) and any(isinstance(t_, _ast.Name) and t_.id == "__hash__" for t_ in st.targets)]
        inherited = None
        try:
            for b in ci.mro()[1:]:
                if b.module.name.startswith("soundevent") and "__hash__" in b.methods:
                    inherited = b
                    break
        except Exception:  # noqa: BLE001
            inherited = None
        if not assigned and inherited is None:
            return False
        line = assigned[0].lineno if assigned else ci.node.lineno
        site = f"{ci.module.relpath}:{line} {ci.name}.__hash__"
        for c in ci.mro():
            if "__eq__" in c.methods:
                ctx.bad("R19.3", ci.module.relpath, f"{ci.name}.__hash__", "__eq__ overridden", f"{c.name} overrides __eq__ (equality no longer field-wise)", line)
                return True
        M = Machine(ctx.summ, ctx.index)
        fm = m.field_map(ci)
        for fname, fi in fm.items():
            why = self.hash_consistent(fi.shape)
            # (fields that are not hashable consistently may exist as long as the hash does not read them: checked by leaving them out)
            del why
        try:
            outs = []
            for variant in (0, 1):
                fields = {fname: (f"<{fname}>" if variant == 0 else f"<{fname}#2>") for fname, fi in fm.items() if self.hash_consistent(fi.shape) is None}
                rec = _Record(ci, fields, False)
                if assigned:
                    from types import SimpleNamespace as _NS
                    ev_ = Evaluator(ctx.index, ci.module, assigned[0].value, f"{ci.qual}.<__hash__>", None)
                    term_ = ev_.ev(assigned[0].value, TRUE)
                    fn = M.ev(term_, {}, _NS(lambdas=ev_.lambdas, loops=ev_.loops))
                    v1, v2 = fn(rec), fn(_Record(ci, dict(fields), False))
                else:
                    v1, v2 = M._getattr(rec, "__hash__")(), M._getattr(_Record(ci, dict(fields), False), "__hash__")()
                if not isinstance(v1, int) or v1 != v2:
                    ctx.bad("R19.3", ci.module.relpath, f"{ci.name}.__hash__", "hash of two equal instances",
                            f"two {ci.name} instances with the same field values get different hashes ({v1!r} / {v2!r})", line)
                    return True
                outs.append(v1)
        except (Unknown, ModelRaise, RecursionError) as e:
            if "cached property" in str(e):
                ctx.bad("R19.3", ci.module.relpath, f"{ci.name}.__hash__", "hash through a cached property",
                        f"the hash of {ci.name} goes through a value that is computed once and kept ({str(e)[:80]}): an instance that is edited, or "
                        f"copied with an update, after it was first hashed keeps its old hash while it compares equal to a fresh instance with the "
                        f"new field values -- equal objects, different hashes", line)
                return True
            ctx.undec("R19.3", site, f"the hash supplied to {ci.name} from outside its body cannot be interpreted on a model instance with exactly the "
                                     f"declared, consistently hashable fields: {str(e)[:120]}")
            return True
        ctx.ok("R19.3", site, f"hash supplied {'as a class-level value' if assigned else 'by ' + inherited.name}: interpreted on a model instance, it reads declared fields "
                              f"only (equal instances hash equally{'; depends on the fields' if outs[0] != outs[1] else ''}); field-wise __eq__")
        return True

    def check_hashes(self):
        ctx, m = self.ctx, self.ctx.models
        n = 0
        for ci in m.all_models():
            if not ci.module.name.startswith(DATA + "."):
                continue
            if "__hash__" not in ci.methods:
                if self.hash_by_interpretation(ci):
                    n += 1
                continue
            if not m.field_map(ci) and any(ci in c_.mro()[1:] for c_ in m.all_models() if c_ is not ci):
                continue  # a field-less shared base: its __hash__ is judged on every model that inherits it (hash_by_interpretation)
            n += 1
            file = ci.module.relpath
            fn = ci.methods["__hash__"][-1]
            site = f"{file}:{fn.lineno} {ci.name}.__hash__"
            s = ctx.summ.of_node(ci.module, fn, f"{ci.qual}.__hash__", ci)
            SELF = ("param", s.params[0] if s.params else "self")
            fm = m.field_map(ci)
            problems = []
            if len(s.returns) != 1 or s.fall_live != FALSE:
                problems.append("not a single `return hash(...)`")
            else:
                t = s.returns[0].term
                if not (t[0] == "call" and t[1] == ("builtin", "hash") and len(t[2]) == 1):
                    problems.append(f"returns {show(t)[:40]}, not hash(<expression>)")
                else:
                    def ok_expr(x) -> Optional[str]:
                        if x[0] == "attr" and x[1] == SELF:
                            if x[2] not in fm:
                                return f"self.{x[2]} is not a declared field (property / private / non-field state)"
                            return self.hash_consistent(fm[x[2]].shape)
                        if x[0] == "tuple":
                            for y in x[1]:
                                r = ok_expr(y)
                                if r:
                                    return r
                            return None
                        if x[0] == "call" and x[1] == ("builtin", "str") and len(x[2]) == 1:
                            return ok_expr(x[2][0])
                        if x[0] == "const":
                            return None
                        if x[0] == "attr" and x[1][0] == "attr":
                            # a field of a field: still a function of compared state if the outer is a declared field
                            inner = ok_expr(x[1]) if x[1][1] == SELF else "nested attribute chain"
                            return inner
                        if x[0] == "call" and x[1] == ("builtin", "id"):
                            return "id(...) is object identity, not a function of the compared fields"
                        return f"unsupported hash input {show(x)[:40]}"
                    r = ok_expr(t[2][0])
                    if r:
                        problems.append(r)
            for c in ci.mro():
                if "__eq__" in c.methods:
                    problems.append(f"{c.name} overrides __eq__ (equality no longer field-wise)")
            if problems:
                ctx.bad("R19.3", file, f"{ci.name}.__hash__", f"return {show(s.returns[0].term)[:60] if s.returns else '-'}",
                        f"{ci.name}.__hash__ is not a pure function of fields that equality compares: {'; '.join(problems)}: two "
                        f"equal {ci.name} objects may hash differently (broken as dict keys / set members)", fn.lineno)
            else:
                ctx.ok("R19.3", site, f"hash over declared fields {sorted({x[2] for x in walk(s.returns[0].term) if x[0] == 'attr' and x[1] == SELF})}; field-wise __eq__")
        # models without __hash__ that define __eq__ are irrelevant; report count
        ctx.extra["hash_classes"] = n


def run(ctx: Ctx):
    ctx.rule("R19.1", "encoder table key == lookup key == whole tag identity; decode / num_classes", 5)
    ctx.rule("R19.2", "first-hit / indicator / score-fill shapes; only vocabulary indices written", 3)
    ctx.rule("R19.3", "every hand-written __hash__ is a pure function of compared fields", 8)
    c = C19(ctx)
    c.check_encoder()
    c.check_encodings()
    c.check_hashes()
    return EXPLANATION, ASSUMPTIONS
